"""C01 — closed-form moments equal the exact expected values at every iteration.

proof : props/C01.v — composition theorem pipeline_flat_sound (validated types + exact
        one-step system + validated closed form  =>  closed form = exact moments, ALL n) and
        its ingredients (C03 wp exactness, C04, C05).
tie   : for generated source programs Polar's whole pipeline is run; every closed form of
        every system monomial is validated in the kernel against Polar's own matrix (C04's
        validator), Polar's types are validated (C05), Polar's system rows are validated as
        exact one-step identities of Polar's flat program (C03's validator) — and, end to
        end and independent of all of Polar's intermediate objects, the printed closed form
        is compared with the exact moments of the SOURCE program under the reference
        semantics Sem.run (Coq, vm_compute) for n <= N.
search: the same comparison: first (program, monomial, n) where they differ."""
from fractions import Fraction

import lib
import core
import gen
import oracle
import progast as P
from checks import c04, c05


def polar_value(inst, idx, n):
    vals = inst.get("values")
    if not vals or n >= len(vals):
        return None
    s = vals[n][idx]
    if s.startswith("~"):
        return None
    return Fraction(s)


def attribute_to_typer(ctx, flat, G):
    """True iff Polar's types for this flat program are rejected by the sound validator but are
    a post-fixpoint of the default-dropping transfer AND a reachable state violates them."""
    try:
        fp = core.flat_coq(flat)
        T = core.types_coq(flat["types"])
        drops = ["true" if c05.implied(a["cond"], G) and a["default"] != a["var"] else "false" for a in flat["body"]]
    except core.NotModelled:
        return False
    body = core.FLAT_HEADER.replace("Sem Types", "Sem Types Search")
    body += f"Eval vm_compute in [check_types {fp} {T}; check_types_drop {fp} {P.lst(drops)} {T}].\n"
    vs = sorted({a["var"] for a in flat["init"] + flat["body"]})
    body += f"Eval vm_compute in (type_search {P.lst(['\"%s\"' % v for v in vs])} {fp} {T} 4).\n"
    ok, o = lib.coq_run(ctx, "attr", body, timeout=300)
    if not ok:
        return False
    bl = lib.parse_bool_list(o)
    rows = c05.parse_search(o)
    return bool(bl and not bl[0] and bl[1] and rows and any(rows))


def run(ctx):
    ok, log = lib.coq_check_props(ctx)
    if not ok:
        ctx.violation("proof-broken", {"theorem": "props/C01.v", "log": log[-3000:]}, "props/C01.v no longer checks", no_input=True)
        return
    lib.coq_make(["theories/Search.vo"])
    n_prog = ctx.pick(60, 400)
    N = ctx.pick(5, 7)
    progs = lib.replay_programs(ctx) or (list(gen.corpus()) + [(p, g, t) for p, g, t, _ in gen.abstraction_corpus()])
    abs_sup = {P.prog_text(p): s for p, _, _, s in gen.abstraction_corpus()}
    while len(progs) < n_prog and not ctx.replay:
        g = gen.G(ctx.rng, max_depth=ctx.rng.choice([1, 2]), rational=(len(progs) % 4 == 3))
        p = g.program()
        progs.append((p, g.goals(2), "+".join(sorted(g.features))))
    tasks = [{"kind": "analyze", "text": P.prog_text(p), "goals": [gen.goal_text(m) for m in goals], "nvals": N + 1,
              "timeout": 150, "all_monomials": True, "abs_support": abs_sup.get(P.prog_text(p), {})} for p, goals, _ in progs]
    results = lib.run_tasks(tasks, timeout=150)
    # oracle on all accepted programs
    ocases, omap = [], []
    for i, ((p, goals, tag), r) in enumerate(zip(progs, results)):
        if "error" in r or "exception" in r:
            continue
        ocases.append((p, goals, N))
        omap.append(i)
    exact = oracle.exact_moments(ctx, ocases, timeout=240)
    exact_by_prog = {i: e for i, e in zip(omap, exact)}
    errs, feats, labelled = {}, {}, []
    src_cases = []
    n_goal_ok = 0
    for i, ((p, goals, tag), r) in enumerate(zip(progs, results)):
        for f in tag.split("+"):
            feats[f] = feats.get(f, 0) + 1
        if "error" in r or "exception" in r:
            k = r.get("error") or r["exception"]["etype"]
            errs[k] = errs.get(k, 0) + 1
            continue
        ex = exact_by_prog.get(i)
        text = P.prog_text(p)
        attributed = None
        for gi, (m, gr) in enumerate(zip(goals, r["goals"])):
            gname = gen.goal_text(m)
            if "exception" in gr:
                k = gr["exception"]["etype"] + "@" + gr.get("stage", "")
                errs[k] = errs.get(k, 0) + 1
                continue
            inst = gr["instances"][0] if gr.get("instances") else None
            if inst is None:
                continue
            # (a) C04 validator on the whole system
            lab = {"family": "polar-built", "mons": gr["monomials"], "A": inst.get("A"), "v": inst.get("v"),
                   "force_cyclic": False, "solver": gr["solver"], "point": {}, "sols": gr["sols"], "is_exact": gr["is_exact"],
                   "program": text, "goal": gname}
            labelled.append((lab, inst))
            # (a') the verified end-to-end validator on the SOURCE program (rational closed forms only)
            try:
                if inst.get("cf") and not inst["cf"]["gens"] and "unsupported" not in r.get("flat", {}):
                    dp = core.desugar(p)
                    tsrc = core.infer_src_types(dp)
                    ms, ms_c, A_c, v_c = core.system_coq(gr, inst)
                    cf = inst["cf"]
                    F = [[(c04.dec(b), [c04.dec(c) for c in cs]) for b, cs in f] for f in cf["general"]]
                    sp = [[c04.dec(c) for c in row] for row in cf["specials"]]
                    import exppoly
                    F_c = exppoly.coq_list([exppoly.coq_epoly(f) for f in F])
                    sp_c = exppoly.coq_list([exppoly.coq_list([exppoly.coq_elem(x) for x in row]) for row in sp])
                    src_cases.append({"text": text, "goal": gname,
                                      "term": f"(check_pipeline_src cm0 {P.prog_coq(dp)} {core.tenv_coq(tsrc)} {ms_c} {A_c} {v_c} {F_c} {sp_c})"})
            except (core.NotModelled, KeyError, ValueError):
                pass
            # (b) end to end against the reference semantics
            ctx.count({"t": text, "g": gname}, nontrivial=len(gr["monomials"]) >= 2)
            if ex is None:
                errs["oracle-timeout"] = errs.get("oracle-timeout", 0) + 1
                continue
            try:
                idx = gr["sol_monomials"].index(str(__import__("sympy").sympify(gname)))
            except ValueError:
                idx = 0
            bad = None
            for n in range(N + 1):
                pv = polar_value(inst, idx, n)
                if pv is None:
                    continue
                if pv != ex[n][gi]:
                    bad = (n, pv, ex[n][gi])
                    break
            if bad is None:
                n_goal_ok += 1
                ctx.sample({"program": text, "goal": f"E({gname})", "closed_form": gr["sols"][idx],
                            "exact_moments_n0..": [str(ex[n][gi]) for n in range(N + 1)]})
                continue
            if attributed is None:
                attributed = attribute_to_typer(ctx, r["flat"], r.get("original_loop_guard")) if "unsupported" not in r.get("flat", {}) else False
            sig = c05.KNOWN_SITE if attributed else f"moment-mismatch:{text}:{gname}"
            ctx.violation(sig, {"program_text": text, "prog_json": P.to_json(p), "goals_json": [P.to_json(m)], "goal": gname, "n": bad[0], "polar_value": str(bad[1]),
                                "reference_value": str(bad[2]), "closed_form": gr["sols"][idx], "flat_program": r.get("flat_text")},
                          f"E({gname}) of the program below: Polar's closed form gives {bad[1]} at n={bad[0]}, "
                          f"the exact expectation is {bad[2]}\n{text}")
    # the command line itself: printed special cases + general formula, and --at_n
    import sympy as _sp
    cli_sel = [i for i in range(len(progs)) if exact_by_prog.get(i) is not None][:ctx.pick(18, 60)]
    cli_tasks = [{"kind": "cli_goals", "text": P.prog_text(progs[i][0]), "goals": [gen.goal_text(m) for m in progs[i][1]],
                  "at_n": 3, "timeout": 150} for i in cli_sel]
    cli_res = lib.run_tasks(cli_tasks, timeout=150)
    n_sym = _sp.Symbol("n")
    cli_ok = 0
    for i, cr in zip(cli_sel, cli_res):
        if "error" in cr or not cr.get("printed"):
            continue
        p, goals, _ = progs[i]
        text = P.prog_text(p)
        ex = exact_by_prog[i]
        for gi, m in enumerate(goals):
            gname = gen.goal_text(m)
            pr = cr["printed"].get(gname)
            if not pr:
                continue
            try:
                gen_e = _sp.sympify(pr["general"])
                if any(str(s) not in ("n",) for s in gen_e.free_symbols):
                    continue
                bad = None
                for n in range(N + 1):
                    val = _sp.sympify(pr["special"][n]) if n < len(pr["special"]) else gen_e.subs(n_sym, n)
                    val = _sp.nsimplify(_sp.simplify(val), rational=True)
                    if not val.is_Rational:
                        continue
                    if Fraction(int(val.p), int(val.q)) != ex[n][gi]:
                        bad = (n, str(val), str(ex[n][gi]))
                        break
                at = cr["at_n"].get(gname)
                if bad is None and at is not None:
                    av = _sp.nsimplify(_sp.sympify(at), rational=True)
                    if av.is_Rational and Fraction(int(av.p), int(av.q)) != ex[3][gi]:
                        bad = (3, f"--at_n 3 prints {at}", str(ex[3][gi]))
            except Exception:
                continue
            ctx.coverage["obligations"] += 0
            if bad:
                ctx.violation(f"cli-printed:{text}:{gname}",
                              {"program_text": text, "prog_json": P.to_json(p), "goals_json": [P.to_json(m)], "goal": gname,
                               "printed": pr, "n": bad[0], "printed_value": bad[1], "reference_value": bad[2]},
                              f"polar.py prints E({gname}) = {'; '.join(pr['special'] + [pr['general']])}, which gives {bad[1]} at n={bad[0]}; "
                              f"the exact expectation is {bad[2]}\n{text}")
            else:
                cli_ok += 1
    ctx.coverage["cli_printed_results_agreeing"] = cli_ok
    # source-level end-to-end validator, evaluated by the kernel
    sfiles = [(f"src_{j}", core.SRC_HEADER + f"Eval vm_compute in [{c['term']}].\n") for j, c in enumerate(src_cases)]
    souts = lib.coq_run_many(ctx, sfiles, timeout=240)
    src_stat = {"accepted": 0, "rejected": 0, "error": 0}
    for j, c in enumerate(src_cases):
        okc, o = souts[f"src_{j}"]
        bl = lib.parse_bool_list(o) if okc else None
        if bl and bl[0]:
            src_stat["accepted"] += 1
            ctx.coverage["obligations"] += 1
            ctx.coverage["discharged"] += 1
            if src_stat["accepted"] <= 2:
                ctx.sample({"program": c["text"], "goal": c["goal"],
                            "validator": "check_pipeline_src accepted: closed form = exact moments of the SOURCE program for all n"})
        elif bl:
            src_stat["rejected"] += 1   # not an alarm by itself: the bounded oracle comparison above decides
        else:
            src_stat["error"] += 1
    ctx.coverage["source_level_validator"] = src_stat
    # C04 validator on every Polar-built system
    out = c04.validate_instances(ctx, labelled)
    stat = {}
    for rec in out:
        stat[rec["status"]] = stat.get(rec["status"], 0) + 1
        if rec["status"] == "unsupported":
            continue
        ctx.coverage["obligations"] += 1
        if rec["status"] == "accepted":
            ctx.coverage["discharged"] += 1
        else:
            lab = rec["label"]
            mm = rec["mismatch"]
            ctx.violation(f"system-closed-form:{lab['program']}:{lab['goal']}",
                          {"program_text": lab["program"], "goal": lab["goal"], "system": lab, "mismatch": mm, "validator": rec["status"],
                           "why": rec.get("why")},
                          f"closed forms of the system of E({lab['goal']}) do not validate against Polar's own matrix"
                          + (f": component {mm[1]} gives {mm[2]} at n={mm[0]}, A^n v gives {mm[3]}" if mm else ""),
                          no_input=mm is None)
    ctx.coverage["rule"] = ("source programs from harness/gen.py + hand-written corpus (guards, nested if/elif/else, multi-assignment, "
                            "simultaneous assignment, choices, draws), up to 2 goal monomials of degree <= 3 each; Polar's closed form vs exact "
                            f"moments under Sem.run for n <= {N}; non-trivial = system with >= 2 monomials; distinct by (text, goal)")
    ctx.coverage["feature_histogram"] = feats
    ctx.coverage["polar_errors"] = errs
    ctx.coverage["goals_agreeing_with_reference"] = n_goal_ok
    ctx.coverage["system_validator_status"] = stat
    ctx.coverage["trusted_base"] += ["harness/progast.py printers (the same AST is printed as Polar text and as a Coq term)",
                                     "harness/exppoly.py decomposition (re-evaluated by the validator)"]
    ctx.assumptions += ["programs are sampled; per program and goal the theorem-backed validators give 'for all n', the end-to-end comparison "
                        f"with the source semantics covers n <= {N}",
                        "finite discrete programs only in the end-to-end oracle (continuous draws are covered through C03/C08 at moment level)"]
