"""C20 — results are independent of process history, goal order and hash seed.

proof : props/C20.v — system_perm_invariant ((P A P^-1)^n P v = P A^n v over any commutative
        ring: monomial / worklist / goal order cannot change a component), memo_transparent
        (a table that only holds pairs (x, f x) never changes the result of lookup-or-compute,
        any sequence of calls and evictions; memo_stale_refuted for caches keyed on mutated
        objects), the name counter (gen_name injective, fresh names never collide, shifting the
        counter is an injective renaming that maps the names of a run from k0 to those of the
        same run from k0+d; frun is invariant under injective renamings).
tie   : every history is ONE task = one worker process in which nothing is reset between the
        analyses (harness/tasks_history.py follows GoalsAction / PlotAction / ArgumentParser).
        For generated programs the record of an analysis (types of source variables, closed
        forms, exact values n <= 6, exactness flag, error class, flat program up to alpha-renaming
        of generated names) is compared between a fresh process and: after 1-4 other analyses,
        the second of two identical analyses, every permutation of <= 3 goals, PlotAction-style
        prefixes, worker processes started with PYTHONHASHSEED 0..3, and `polar.py a b --goals`
        subprocesses against single-file runs.  Model ties: get_unique_var against the Coq
        name model; systems whose monomial order differs between two runs are checked (kernel)
        to be consistently permuted, so the theorem gives equality of all components for all n;
        permuted copies of Polar's systems are solved by the real solvers and compared.
search: the comparison gives (program, two histories, goal, n, two values)."""
import itertools
import json
import os
import re
import subprocess
import tempfile
from fractions import Fraction

import sympy as sp

import lib
import gen
import progast as P
from checks import c04

GEN = re.compile(r"\b_+[A-Za-z]+\d+\b")
KNOWN_COLLISION = "generated-name-collision:MultiAssign-version-vs-later-get_unique_var"
KNOWN_INV_GOALS = "GoalsAction.parse_goals:cli_args.goals-mutated-by-first-benchmark"
KNOWN_PLOT_LEAK = "PlotAction:numeric-settings-left-on:in-process-only"
KNOWN_ARGV_LEAK = "ArgumentParser:defaults-read-from-mutated-settings:in-process-only"


def alpha(text):
    """generated names renamed by first occurrence"""
    if text is None:
        return None
    ren = {}
    return GEN.sub(lambda m: ren.setdefault(m.group(0), f"_g{len(ren)}"), text)


def corpus20():
    c, v, F = P.const, P.var, Fraction
    out = []
    # a source variable named like a tag of get_unique_var, assigned twice around a simultaneous assignment
    out.append(({"types": [], "init": [("assign", "t", P.det(c(0))), ("assign", "x", P.det(c(0))), ("assign", "y", P.det(c(1)))], "guard": ("true",),
                 "body": [("assign", "t", P.det(("add", v("t"), c(1)))),
                          ("simult", [("x", P.det(v("y"))), ("y", P.det(("add", v("x"), c(1))))]),
                          ("assign", "t", P.det(("mul", v("t"), c(2))))]},
                [{"t": 1}, {"x": 1}], "tag-named-variable"))
    # the version name _r1 of a twice assigned variable r against the alias _r<counter> that ConditionsReducer creates LATER
    out.append(({"types": [], "init": [("assign", "r", P.det(c(0))), ("assign", "f", P.det(c(0))), ("assign", "g", P.det(c(0))), ("assign", "x", P.det(c(0)))],
                 "guard": ("true",),
                 "body": [("assign", "f", ("draw", ("bern", c(F(1, 2))))), ("assign", "g", ("draw", ("bern", c(F(1, 2))))),
                          ("assign", "r", ("draw", ("bern", c(F(1, 2))))),
                          ("if", [(("atom", v("f"), "==", c(1)), [("assign", "f", P.det(c(0)))])], None),
                          ("if", [(("atom", ("add", v("f"), v("g")), "==", c(1)), [("assign", "x", P.det(("add", v("x"), v("r"))))])], None),
                          ("assign", "r", P.det(("sub", c(1), v("r"))))]},
                [{"x": 1}, {"r": 1}], "tag-named-variable+later-alias"))
    # user identifiers spelled exactly like generated names (_t<k>): they are reserved per program, so no state of the
    # name counter may hand them out as temporaries of the simultaneous assignment
    out.append(({"types": [], "init": [("assign", "_t2", P.det(c(1))), ("assign", "_t5", P.det(c(2))), ("assign", "_t9", P.det(c(3))),
                                       ("assign", "x", P.det(c(0))), ("assign", "y", P.det(c(1)))], "guard": ("true",),
                 "body": [("simult", [("x", P.det(("add", v("y"), v("_t2")))), ("y", P.det(("add", v("x"), v("_t5"))))]),
                          ("assign", "_t9", P.det(("add", v("_t9"), v("x"))))]},
                [{"x": 1}, {"_t9": 1}, {"y": 1}], "user-names-like-generated"))
    # the SAME names with different roles in two programs: s is Sin(u) in the first and an ordinary accumulator in the second
    # (records kept per analysis about functional assignments must not survive into the next analysis)
    out.append(({"raw": "u = 0\ns = 0\nx = 0\nwhile true:\n    u = Normal(0, 1)\n    s = Sin(u)\n    x = x + s**2\nend\n"},
                [{"x": 1}, {"s": 2}], "functional-names:first"))
    out.append(({"raw": "u = 0\ns = 0\nwhile true:\n    u = Bernoulli(1/2)\n    s = s + u\nend\n"},
                [{"s": 1}, {"s": 2}, {"s": 1, "u": 1}], "functional-names:second"))
    # conditioned draw (error outcome is sensitive to a leaked cond2arithm)
    out.append(({"types": [], "init": [("assign", "f0", P.det(c(0))), ("assign", "d0", P.det(c(0))), ("assign", "a0", P.det(c(0)))],
                 "guard": ("true",),
                 "body": [("assign", "f0", ("choice", [(c(F(1, 3)), c(0)), (c(F(1, 3)), c(1)), (c(F(1, 3)), c(2))])),
                          ("if", [(("atom", v("f0"), ">=", c(1)), [("assign", "d0", ("draw", ("bern", c(F(1, 4)))))])], None),
                          ("assign", "a0", P.det(("add", v("a0"), v("d0"))))]},
                [{"a0": 1}, {"a0": 1, "d0": 1}, {"f0": 2}], "conditioned-draw"))
    # Fibonacci-like: cyclic system with irrational roots (sensitive to leaked numeric settings)
    out.append(({"types": [], "init": [("assign", "f0", P.det(c(1))), ("assign", "a0", P.det(c(0)))], "guard": ("true",),
                 "body": [("simult", [("f0", P.det(("add", v("f0"), v("a0")))), ("a0", P.det(v("f0")))])]},
                [{"f0": 1}, {"a0": 1}], "irrational-roots"))
    # three goals over a finite variable and an accumulator; same variable names as the generated programs
    out.append(({"types": [], "init": [("assign", "f0", P.det(c(0))), ("assign", "a0", P.det(c(1)))], "guard": ("true",),
                 "body": [("assign", "f0", ("choice", [(c(F(1, 4)), c(0)), (c(F(1, 4)), c(1)), (c(F(1, 4)), c(2)), (c(F(1, 4)), c(3))])),
                          ("if", [(("atom", v("f0"), "<", c(3)), [("assign", "a0", P.det(("add", v("a0"), v("f0"))))])],
                           [("assign", "a0", P.det(("mul", c(F(1, 2)), v("a0"))))])]},
                [{"a0": 1}, {"a0": 2}, {"a0": 1, "f0": 1}], "three-goals"))
    return out


def ptext(p):
    """program text: progast AST, or {"raw": text} for programs outside progast (functional assignments)"""
    return p["raw"] if isinstance(p, dict) and "raw" in p else P.prog_text(p)


def goals_step(p, goals):
    return {"op": "goals", "text": ptext(p), "goals": [gen.goal_text(m) for m in goals]}


def run_fresh(tasks, timeout=120, jobs=14):
    """every task in its own fresh worker process, started with the PYTHONHASHSEED the task names
    (key "_seed", default "0"); a worker is killed as soon as it has answered its one task"""
    import select
    import time
    res = [None] * len(tasks)
    pending = sorted(range(len(tasks)), key=lambda i: -len(tasks[i].get("steps", [])))
    running = {}
    try:
        while pending or running:
            while pending and len(running) < jobs:
                i = pending.pop(0)
                w = lib.Worker(tasks[i].get("_seed", "0"))
                w.send(i, {k: v for k, v in tasks[i].items() if k != "_seed"})
                running[w] = i
            ready, _, _ = select.select([w.p.stdout for w in running], [], [], 0.5)
            now = time.time()
            for w in list(running):
                i = running[w]
                if w.p.stdout in ready:
                    line = w.p.stdout.readline()
                    try:
                        res[i] = json.loads(line) if line else {"error": "crash"}
                    except Exception:
                        res[i] = {"error": "badjson"}
                elif now - w.start > tasks[i].get("timeout", timeout):
                    res[i] = {"error": "timeout"}
                else:
                    continue
                w.kill()
                del running[w]
    finally:
        for w in running:
            w.kill()
    return res


# ---- comparison of two analysis records ------------------------------------------------------
def err_key(e):
    return None if e is None else (e.get("stage"), e.get("etype"))


def duplicate_targets(flat_text):
    """variables assigned more than once in the loop body of a flat program text"""
    if not flat_text or "while" not in flat_text:
        return []
    body = flat_text.split("while", 1)[1].splitlines()[1:]
    seen, dup = set(), []
    for ln in body:
        m = re.match(r"^\s+([A-Za-z_]\w*)\s*=", ln)
        if m:
            if m.group(1) in seen:
                dup.append(m.group(1))
            seen.add(m.group(1))
    return dup


def compare(ref, rec):
    """-> list of differences (kind, detail) between two records of the same analysis"""
    diffs = []
    if err_key(ref.get("error")) != err_key(rec.get("error")):
        return [("error-outcome", {"first": ref.get("error"), "second": rec.get("error")})]
    if ref.get("error"):
        return []
    if ref.get("types") != rec.get("types"):
        diffs.append(("types", {"first": ref.get("types"), "second": rec.get("types")}))
    g2 = {g["goal"]: g for g in rec.get("goals", [])}
    for g in ref.get("goals", []):
        h = g2.get(g["goal"])
        if h is None:
            continue
        if err_key(g.get("error")) != err_key(h.get("error")):
            diffs.append(("goal-error-outcome", {"goal": g["goal"], "first": g.get("error"), "second": h.get("error")}))
            continue
        if g.get("error"):
            continue
        v1, v2 = [alpha(x) for x in g["values"]], [alpha(x) for x in h["values"]]
        n = next((i for i in range(min(len(v1), len(v2))) if v1[i] != v2[i]), None)
        if n is not None:
            diffs.append(("value", {"goal": g["goal"], "n": n, "first": v1[n], "second": v2[n],
                                    "closed_form_first": g["closed_form"], "closed_form_second": h["closed_form"]}))
        elif g["is_exact"] != h["is_exact"]:
            diffs.append(("exactness-flag", {"goal": g["goal"], "first": g["is_exact"], "second": h["is_exact"]}))
    if not diffs and alpha(ref.get("flat_text")) != alpha(rec.get("flat_text")):
        diffs.append(("flat-program", {"first": ref.get("flat_text"), "second": rec.get("flat_text")}))
    return diffs


def textual_only(ref, rec):
    g2 = {g["goal"]: g for g in rec.get("goals", [])}
    k = 0
    for g in ref.get("goals", []):
        h = g2.get(g["goal"])
        if h and "closed_form" in g and "closed_form" in h and alpha(g["closed_form"]) != alpha(h["closed_form"]):
            k += 1
    return k


def systems_differ(ref, rec):
    """goals whose systems list the monomials in a different order in the two runs"""
    out = []
    g2 = {g["goal"]: g for g in rec.get("goals", [])}
    for g in ref.get("goals", []):
        h = g2.get(g["goal"])
        if not h or "monomials" not in g or "monomials" not in h:
            continue
        m1, m2 = [alpha_name_list(g["monomials"]), alpha_name_list(h["monomials"])]
        if m1 != m2 and sorted(m1) == sorted(m2):
            out.append((g, h))
    return out


def alpha_name_list(ms):
    return [str(m) for m in ms]


def report(ctx, kind, B, hist_a, hist_b, ref, rec, hist, extra=None):
    """compare and report; returns True when equal"""
    text = ptext(B[0])
    diffs = compare(ref, rec)
    ctx.count({"t": text, "a": hist_a, "b": hist_b}, nontrivial=True)
    ctx.coverage["obligations"] += 1
    hist[kind] = hist.get(kind, 0) + 1
    if not diffs:
        ctx.coverage["discharged"] += 1
        return True
    d = diffs[0]
    sig = f"{kind}:{d[0]}:{text}:{hist_a}|{hist_b}"
    if duplicate_targets(ref.get("flat_text")) or duplicate_targets(rec.get("flat_text")):
        sig = KNOWN_COLLISION
    if extra and extra.get("known"):
        sig = extra["known"]
    what = f"{kind}: {d[0]} differs for the program below between history [{hist_a}] and history [{hist_b}]"
    if d[0] == "value":
        what += f": E({d[1]['goal']}) at n={d[1]['n']} is {d[1]['first']} vs {d[1]['second']}"
    elif d[0] in ("error-outcome", "goal-error-outcome"):
        what += f": {d[1].get('first')} vs {d[1].get('second')}"
    new = ctx.violation(sig, {"program_text": text, "history_first": hist_a, "history_second": hist_b, "difference": d[0], "detail": d[1],
                              "all_differences": diffs[:6], "replay": (extra or {}).get("replay")},
                        what + "\n" + text, no_input=(d[0] == "flat-program"))
    if not new:
        ctx.coverage["discharged"] += 1
    return False


# ---- the check -----------------------------------------------------------------------------------
def run(ctx):
    ok, log = lib.coq_check_props(ctx)
    if not ok:
        ctx.violation("proof-broken", {"theorem": "props/C20.v", "log": log[-3000:]}, "props/C20.v no longer checks", no_input=True)
        return
    rng = ctx.rng
    NV = 7
    n_prog = ctx.pick(8, 40)
    cands = list(corpus20())
    while len(cands) < 2 * n_prog:
        g = gen.G(rng, max_depth=rng.choice([1, 1, 2]), guard=rng.random() < 0.3, n_acc=rng.choice([0, 1, 1]))
        p = g.program()
        cands.append((p, g.goals(3)[:3], "+".join(sorted(g.features)) or "plain"))
    # fresh analyses (also selects the programs Polar accepts)
    import time
    steps_s = ctx.coverage.setdefault("step_seconds", {})
    _t = time.time()
    fresh = run_fresh([{"kind": "history", "steps": [goals_step(p, goals)], "nvals": NV, "timeout": 90} for p, goals, _ in cands], timeout=90)
    steps_s["fresh-analyses"] = round(time.time() - _t, 1)
    progs, refs, rejected = [], [], {}
    for (p, goals, tag), r in zip(cands, fresh):
        rec = r["steps"][0] if "steps" in r else {"error": {"stage": "worker", "etype": r.get("error")}}
        bad = rec.get("error") or any(g.get("error") for g in rec.get("goals", []))
        if bad and tag not in ("conditioned-draw",):
            k = str(err_key(rec.get("error")) or "goal-error")
            rejected[k] = rejected.get(k, 0) + 1
            continue
        if len(progs) < n_prog:
            progs.append((p, goals, tag))
            refs.append(rec)
    ctx.coverage["candidates_rejected"] = rejected
    # ---- histories --------------------------------------------------------------------------------
    tasks, meta = [], []

    def add(kind, bi, steps, pick, label, seed="0", extra=None):
        tasks.append({"kind": "history", "steps": steps, "nvals": NV, "timeout": 60 + 40 * len(steps), "_seed": seed})
        meta.append({"kind": kind, "b": bi, "pick": pick, "label": label, "extra": extra})

    for bi, B in enumerate(progs):
        others = [i for i in range(len(progs)) if i != bi]
        stepB = goals_step(B[0], B[1])
        # the same program twice
        add("same-program-twice", bi, [stepB, stepB], 1, "B, B")
        # after 1..4 other programs
        for k in ([1, rng.choice([2, 3, 4])] if ctx.quick else [1, 2, 3, 4]):
            pre = [rng.choice(others) for _ in range(k)]
            add("after-other-programs", bi, [goals_step(progs[i][0], progs[i][1]) for i in pre] + [stepB], k,
                ", ".join(f"P{i}" for i in pre) + ", B")
        # goal permutations
        gl = [gen.goal_text(m) for m in B[1]]
        perms = list(itertools.permutations(gl))[1:]
        if ctx.quick and bi >= 4:
            perms = perms[-1:]          # the reversed order only
        for perm in perms:
            add("goal-permutation", bi, [{"op": "goals", "text": stepB["text"], "goals": list(perm)}], 0, "B with goals " + ", ".join(perm))
        # hash seeds
        for seed in ("1", "2", "3"):
            add("hash-seed", bi, [stepB], 0, f"B under PYTHONHASHSEED={seed}", seed=seed)
    # the name counter moved to exactly the index of a user identifier spelled like a generated name
    for bi, B in enumerate(progs):
        if B[2] == "user-names-like-generated":
            for k in (1, 2, 4, 5, 8, 9):
                add("after-other-programs", bi, [{"op": "names", "tags": ["u"] * k}, goals_step(B[0], B[1])], 1, f"{k} names requested, B")
    tags = {B[2]: bi for bi, B in enumerate(progs)}
    if "functional-names:first" in tags and "functional-names:second" in tags:
        a_, b_ = progs[tags["functional-names:first"]], progs[tags["functional-names:second"]]
        add("after-other-programs", tags["functional-names:second"], [goals_step(a_[0], a_[1]), goals_step(b_[0], b_[1])], 1, "functional-names:first, B")
        add("after-other-programs", tags["functional-names:first"], [goals_step(b_[0], b_[1]), goals_step(a_[0], a_[1])], 1, "functional-names:second, B")
    if "functional-names:first" in tags:
        # the same program with Sin/Cos moments first under --exact_func_moments, then with the default (rounded) setting
        a_ = progs[tags["functional-names:first"]]
        add("in-process:second-cli-invocation", tags["functional-names:first"],
            [{"op": "argv", "flags": ["--exact_func_moments"]}, goals_step(a_[0], a_[1]), {"op": "argv", "flags": []}, goals_step(a_[0], a_[1])], 3,
            "argv --exact_func_moments, B, argv (no flags), B", extra={"known": KNOWN_ARGV_LEAK})
    # settings prefixes (a subset of programs)
    sub = list(range(len(progs)))[:ctx.pick(4, 20)]
    for bi in sub:
        B = progs[bi]
        A = progs[(bi + 1) % len(progs)]
        gB, gA = gen.goal_text(B[1][0]), gen.goal_text(A[1][0])
        plotB = {"op": "plot", "text": ptext(B[0]), "goals": [gB]}
        plotA = {"op": "plot", "text": ptext(A[0]), "goals": [gA]}
        # polar.py A B --plot g --plot_expectation --plot_std  vs  polar.py B --plot ...
        add("plot-run:fresh", bi, [plotB], 0, "plot B")
        add("plot-run:after-plot", bi, [plotA, plotB], 1, "plot A, plot B")
        # in-process only: a PlotAction, then a GoalsAction in the same process
        add("in-process:goals-after-plot", bi, [plotA, goals_step(B[0], B[1])], 1, "plot A, B", extra={"known": KNOWN_PLOT_LEAK})
        # in-process only: two CLI invocations in one process (the second parser reads its defaults from the settings module)
        add("in-process:second-cli-invocation", bi, [{"op": "argv", "flags": ["--cond2arithm", "--numeric_roots"]}, goals_step(A[0], A[1]),
                                                     {"op": "argv", "flags": []}, goals_step(B[0], B[1])], 3,
            "argv --cond2arithm --numeric_roots, A, argv (no flags), B", extra={"known": KNOWN_ARGV_LEAK})
    # name generator against the model: after some analyses, a block of get_unique_var calls
    tag_seq = ["t", "t", "old", None, "c", "r", "r", "a", "prob", "old", "u", "k"]
    add("names", 0, [goals_step(progs[0][0], progs[0][1]), {"op": "names", "tags": tag_seq}, goals_step(progs[1][0], progs[1][1]),
                     {"op": "names", "tags": tag_seq[:5]}], None, "names")
    add("names", 0, [{"op": "names", "tags": tag_seq}], None, "names-fresh")
    _t = time.time()
    res = run_fresh(tasks)
    steps_s["histories"] = round(time.time() - _t, 1)
    hist, crash, textual = {}, {}, 0
    perm_cases, name_cases, plot_ref = [], [], {}
    for t, m, r in zip(tasks, meta, res):
        if "steps" not in r:
            crash[f"{m['kind']}:{r.get('error')}"] = crash.get(f"{m['kind']}:{r.get('error')}", 0) + 1
            continue
        if m["kind"] == "names":
            for st in r["steps"]:
                if st["op"] == "names":
                    name_cases.append(st)
            continue
        B = progs[m["b"]]
        rec = r["steps"][m["pick"]]
        if m["kind"] == "plot-run:fresh":
            plot_ref[m["b"]] = rec
            continue
        ref = plot_ref.get(m["b"]) if m["kind"] == "plot-run:after-plot" else refs[m["b"]]
        if ref is None:
            continue
        replay = {"steps_second": t["steps"], "hashseed_second": t["_seed"], "steps_first": [goals_step(B[0], B[1])] if not m["kind"].startswith("plot-run") else "plot B"}
        extra = dict(m["extra"] or {}, replay=replay)
        first = "plot B" if m["kind"].startswith("plot-run") else "B (fresh process, PYTHONHASHSEED=0)"
        same = report(ctx, m["kind"], B, first, m["label"], ref, rec, hist, extra)
        if m["kind"] == "same-program-twice":
            report(ctx, "same-program-twice:first-run", B, first, "B (first of two)", ref, r["steps"][0], hist, extra)
        # generated names of a run lie in [counter_before, counter_after)
        for st_in, st in zip(t["steps"], r["steps"]):
            if "flat_text" in st:
                user_ids = set(re.findall(r"[A-Za-z_][A-Za-z_0-9]*", st_in.get("text", "")))   # identifiers the user wrote are not generated
                ks = [int(re.search(r"\d+$", nm).group(0)) for nm in set(GEN.findall(st["flat_text"])) - user_ids
                      if re.match(r"^_(u|k|c|t|a|prob|old|r)\d+$", nm) and not re.match(r"^_(u|k|c|t|a|prob|old|r)0\d", nm)]
                src = set(st.get("source_variables", []))
                ks = [k for k in ks if True]
                lo, hi = st["counter_before"], st["counter_after"]
                outside = [k for k in ks if not (lo <= k < hi)]
                if outside and not (src & {"u", "k", "c", "t", "a", "prob", "old", "r"}):
                    ctx.violation(f"counter-model:{ptext(B[0])}", {"flat_program": st["flat_text"], "counter_before": lo, "counter_after": hi,
                                                                          "indices_outside": outside, "steps": t["steps"]},
                                  f"generated names with indices {outside} although the name counter went from {lo} to {hi}")
        if same:
            textual += textual_only(ref, rec)
            for g, h in systems_differ(ref, rec):
                perm_cases.append((ptext(B[0]), m["label"], g, h))
    ctx.coverage["comparison_histogram"] = hist
    ctx.coverage["worker_failures"] = crash
    ctx.coverage["closed_forms_textually_different_but_equal_on_n<=6"] = textual
    # ---- Coq ties -----------------------------------------------------------------------------------
    files = []
    hdr = ("From Coq Require Import List String QArith Qcanon ZArith Bool Arith.\nFrom Polar Require Import Qcx CRing ExpPoly ClosedForm History.\n"
           "Import ListNotations.\nOpen Scope string_scope.\n"
           "Fixpoint leq (a b : list string) : bool := match a, b with [] , [] => true | x :: a', y :: b' => String.eqb x y && leq a' b' | _, _ => false end.\n"
           "Fixpoint meq (a b : list (list Qc)) : bool := match a, b with [] , [] => true | x :: a', y :: b' => vec_eqb (R:=Qc_cring) x y && meq a' b' | _, _ => false end.\n")
    for j, st in enumerate(name_cases):
        tags = P.lst(['"%s"' % (t if t is not None else "u") for t in (tag_seq if len(st["names"]) == len(tag_seq) else tag_seq[:len(st["names"])])])
        names = P.lst(['"%s"' % x for x in st["names"]])
        files.append((f"n20_{j}", hdr + f"Eval vm_compute in [leq (names_from {tags} {st['counter_before']}) {names}; "
                                        f"Nat.eqb (counter_after {tags} {st['counter_before']}) {st['counter_after']}].\n"))
    pc = []
    for j, (text, label, g, h) in enumerate(perm_cases[:ctx.pick(40, 200)]):
        try:
            k = len(g["monomials"])
            sigma = [g["monomials"].index(m) for m in h["monomials"]]
            # the constant column of an inhomogeneous system keeps its place
            dim = len(g["matrix"])
            sigma += list(range(k, dim))
            A1 = P.lst([P.lst([P.q_coq(Fraction(x)) for x in row]) for row in g["matrix"]])
            A2 = P.lst([P.lst([P.q_coq(Fraction(x)) for x in row]) for row in h["matrix"]])
            v1 = P.lst([P.q_coq(Fraction(x)) for x in g["vector"]])
            v2 = P.lst([P.q_coq(Fraction(x)) for x in h["vector"]])
            sg = P.lst([str(i) + "%nat" for i in sigma])
            files.append((f"s20_{j}", hdr + f"Eval vm_compute in [is_permb {sg} {dim}; meq (pmat (R:=Qc_cring) {sg} {A1}) {A2}; "
                                            f"vec_eqb (R:=Qc_cring) (permute (R:=Qc_cring) {sg} {v1}) {v2}].\n"))
            pc.append((f"s20_{j}", text, label, g, h))
        except (ValueError, ZeroDivisionError):
            continue
    _t = time.time()
    outs = lib.coq_run_many(ctx, files, timeout=120)
    steps_s["coq-ties"] = round(time.time() - _t, 1)
    nstat = {"names:model=code": 0, "names:differs": 0, "system-order:permuted-consistently": 0, "system-order:not-a-permutation": 0}
    for j, st in enumerate(name_cases):
        okc, o = outs[f"n20_{j}"]
        bl = lib.parse_bool_list(o) if okc else None
        ctx.coverage["obligations"] += 1
        if bl and all(bl):
            ctx.coverage["discharged"] += 1
            nstat["names:model=code"] += 1
        else:
            nstat["names:differs"] += 1
            ctx.violation("names-model", {"polar": st, "coq": (o or "")[-500:]},
                          f"utils.identifiers.get_unique_var from counter {st['counter_before']} returned {st['names']} "
                          f"(counter afterwards {st['counter_after']}), the model History.names_from differs", no_input=True)
    for name, text, label, g, h in pc:
        okc, o = outs[name]
        bl = lib.parse_bool_list(o) if okc else None
        ctx.coverage["obligations"] += 1
        if bl and all(bl):
            ctx.coverage["discharged"] += 1
            nstat["system-order:permuted-consistently"] += 1
        else:
            nstat["system-order:not-a-permutation"] += 1
            ctx.violation(f"system-order:{text}:{g['goal']}:{label}", {"program_text": text, "history_second": label, "goal": g["goal"], "first": g, "second": h},
                          f"the systems built for E({g['goal']}) in two histories list the same monomials in different order but are not "
                          f"consistently permuted copies of each other\n{text}", no_input=True)
    ctx.coverage["model_ties"] = nstat
    # ---- permuted copies of Polar's systems through the real solvers -------------------------------------
    stasks, smeta = [], []
    for bi, rec in enumerate(refs):
        for g in rec.get("goals", [])[:1]:
            if "matrix" not in g or len(g["monomials"]) < 2 or len(g["monomials"]) > 5:
                continue
            k = len(g["monomials"])
            inhom = len(g["matrix"]) > k
            sigma = list(range(k))
            rng.shuffle(sigma)
            if sigma == list(range(k)):
                sigma = sigma[1:] + sigma[:1]
            for sg in (list(range(k)), sigma):
                mons = [f"x{i}" for i in range(k)]
                A = [[g["matrix"][sg[a]][sg[b]] for b in range(k)] + ([g["matrix"][sg[a]][k]] if inhom else []) for a in range(k)]
                v = [g["vector"][sg[a]] for a in range(k)]
                for force in (False, True):
                    stasks.append({"kind": "solve", "mons": mons, "A": A, "v": v, "force_cyclic": force, "nvals": 8, "timeout": 60})
                    smeta.append((bi, g["goal"], tuple(sg), force))
    _t = time.time()
    sres = lib.run_tasks(stasks, timeout=60)
    steps_s["permuted-systems"] = round(time.time() - _t, 1)
    grouped = {}
    for (bi, goal, sg, force), t, r in zip(smeta, stasks, sres):
        grouped.setdefault((bi, goal, force), []).append((sg, t, r))
    pstat = {"agree": 0, "solver-error": 0}
    for (bi, goal, force), lst in grouped.items():
        if len(lst) != 2 or any("error" in r for _, _, r in lst):
            pstat["solver-error"] += 1
            continue
        (s0, t0, r0), (s1, t1, r1) = lst
        vals0, vals1 = r0["instances"][0]["values"], r1["instances"][0]["values"]
        ctx.count({"A": t0["A"], "v": t0["v"], "s": s1, "f": force}, nontrivial=True)
        ctx.coverage["obligations"] += 1
        bad = None
        for n in range(min(len(vals0), len(vals1))):
            for a in range(len(s1)):
                if vals1[n][a] != vals0[n][s1[a]]:
                    bad = (n, a, vals1[n][a], vals0[n][s1[a]])
                    break
            if bad:
                break
        if bad:
            ctx.violation(f"solver-order:{t0['A']}:{t0['v']}:{s1}:{force}", {"system": {"A": t0["A"], "v": t0["v"]}, "permutation": list(s1), "force_cyclic": force,
                                                                               "n": bad[0], "component": bad[1], "value_permuted_system": bad[2],
                                                                               "value_original_system": bad[3]},
                          f"solving the system with its monomials listed in order {list(s1)} gives {bad[2]} for component {bad[1]} at n={bad[0]}, "
                          f"the original order gives {bad[3]} (A={t0['A']}, v={t0['v']})")
        else:
            ctx.coverage["discharged"] += 1
            pstat["agree"] += 1
    ctx.coverage["permuted_systems_through_real_solvers"] = pstat
    # ---- polar.py a.prob b.prob as a subprocess ----------------------------------------------------------
    _t = time.time()
    cli_stat = part_cli(ctx, progs)
    steps_s["cli-subprocesses"] = round(time.time() - _t, 1)
    ctx.coverage["cli_subprocess"] = cli_stat
    tms = os.times()
    ctx.coverage["cpu_seconds_children"] = round(tms.children_user + tms.children_system, 1)
    ctx.coverage["rule"] = ("programs from harness/gen.py (finite variables f*, accumulators a*: all programs share variable names, so stale caches keyed on "
                            "names would be visible) plus a corpus (tag-named variable, conditioned draw, irrational roots, three goals), kept when a "
                            "fresh process analyses them; one evaluation = one comparison of the record of the same analysis in two histories "
                            "(fresh process with PYTHONHASHSEED=0 vs: second of two runs, after 1-4 other programs, each permutation of the <= 3 goals, "
                            "PlotAction-style prefixes, PYTHONHASHSEED 1..3), all non-trivial; distinct by (program text, the two histories); plus "
                            "permuted copies of Polar's systems solved by both solvers and polar.py subprocess runs on two files")
    ctx.coverage["trusted_base"] += ["harness/tasks_history.py: the steps follow GoalsAction.__call__ / PlotAction.__call__ / ArgumentParser.parse_args literally and reset nothing",
                                     "alpha-normalisation of generated names by first occurrence (regex _<letters><digits>)",
                                     "sympy in the worker to evaluate closed forms exactly at n <= 6"]
    ctx.assumptions += ["CPython set / dict iteration order and the purity of lru_cache'd functions are validated by the differential runs only (not proved)",
                        "histories, permutations and seeds are sampled: <= 4 predecessors, <= 3 goals, PYTHONHASHSEED in {0,1,2,3}",
                        "in-process sequences the polar.py CLI cannot produce (PlotAction followed by GoalsAction, two parser invocations) are compared like the others "
                        "(the leaks found there were repaired in /repo b41df71)"]


ANSI = re.compile(r"\x1b\[[0-9;]*m")


def run_polar(files, flags, timeout=150):
    env = dict(os.environ)
    env["PYTHONPATH"] = lib.REPO
    env["PYTHONHASHSEED"] = "0"
    try:
        r = subprocess.run(["timeout", str(timeout), lib.PY, os.path.join(lib.REPO, "polar.py")] + files + flags, cwd=lib.REPO, env=env,
                           stdout=subprocess.PIPE, stderr=subprocess.PIPE, text=True)
    except Exception as e:  # noqa
        return None, str(e), -1
    return ANSI.sub("", r.stdout), r.stderr[-1500:], r.returncode


def split_results(out):
    """blocks of printed goal lines, one block per benchmark ('- Analysis Result -' header)"""
    blocks = out.split("- Analysis Result -")[1:]
    res = []
    for b in blocks:
        lines = [ln.strip() for ln in b.splitlines() if re.match(r"^\s*(E\(|Solution is|[A-Za-z_]\w* = )", ln) or "gröbner" in ln or re.match(r"^\s*.* = 0$", ln)]
        res.append([alpha(ln) for ln in lines])
    return res


def part_cli(ctx, progs):
    stat = {}
    d = tempfile.mkdtemp(prefix="c20cli_", dir=ctx.scratch)
    pairs = []
    cand = [(i, p) for i, p in enumerate(progs) if p[2] not in ("conditioned-draw",) and "raw" not in p[0]]
    for j in range(60):
        if len(cand) < 2 or len(pairs) >= ctx.pick(3, 8):
            break
        a, b = ctx.rng.sample(cand, 2)
        common = sorted(set(P.prog_vars(a[1][0])) & set(P.prog_vars(b[1][0])))
        if not common:
            continue
        pairs.append((a, b, [f"E({common[0]})", f"E({common[-1]}**2)"]))
    jobs = []
    for a, b, goals in pairs:
        fa, fb = os.path.join(d, f"p{a[0]}.prob"), os.path.join(d, f"p{b[0]}.prob")
        for f, pr in ((fa, a[1]), (fb, b[1])):
            with open(f, "w") as fh:
                fh.write(ptext(pr[0]))
        jobs.append(("goals", a, b, fa, fb, ["--goals"] + goals))
    # --invariants without goals: the goals of the second file must be its own variables
    if len(cand) >= 2:
        a, b = cand[0], cand[-1]
        fa, fb = os.path.join(d, "inv_a.prob"), os.path.join(d, "inv_b.prob")
        with open(fa, "w") as fh:
            fh.write("x = 0\nwhile true:\n    x = x + 1 {1/2} x - 1\nend\n")
        with open(fb, "w") as fh:
            fh.write("u = 1\nw = 1\nwhile true:\n    u = 2*u\n    w = 4*w\nend\n")
        jobs.append(("invariants", (None, None), (None, None), fa, fb, ["--invariants"]))
    from concurrent.futures import ThreadPoolExecutor
    calls = []
    for kind, a, b, fa, fb, flags in jobs:
        calls += [([fa, fb], flags), ([fa], flags), ([fb], flags)]
    with ThreadPoolExecutor(max_workers=9) as ex:
        outs = list(ex.map(lambda c: run_polar(c[0], c[1]), calls))
    for j, (kind, a, b, fa, fb, flags) in enumerate(jobs):
        (o2, e2, c2), (oa, ea, ca), (ob, eb, cb) = outs[3 * j:3 * j + 3]
        ctx.count({"a": open(fa).read(), "b": open(fb).read(), "f": flags}, nontrivial=True)
        ctx.coverage["obligations"] += 1
        two = split_results(o2 or "")
        single = [(split_results(oa or "") or [[]])[0], (split_results(ob or "") or [[]])[0]]
        while len(two) < 2:
            two.append(["<no output: exit code %s>" % c2])
        okk = (two[0] == single[0] and two[1] == single[1] and (c2 == 0) == (ca == 0 and cb == 0))
        if okk:
            ctx.coverage["discharged"] += 1
            stat[kind + ":same"] = stat.get(kind + ":same", 0) + 1
            continue
        stat[kind + ":differs"] = stat.get(kind + ":differs", 0) + 1
        which = 0 if two[0] != single[0] else 1
        sig = KNOWN_INV_GOALS if (kind == "invariants" and which == 1) else f"cli-two-files:{open(fa).read()}:{open(fb).read()}:{flags}"
        new = ctx.violation(sig, {"file_a": open(fa).read(), "file_b": open(fb).read(), "flags": flags, "two_files_output": two, "single_file_outputs": single,
                                  "exit_codes": {"a b": c2, "a": ca, "b": cb}, "stderr_two_files": (e2 or "")[-600:]},
                            f"polar.py a.prob b.prob {' '.join(flags)} reports for {'a' if which == 0 else 'b'}.prob {two[which][:3]} (exit {c2}), "
                            f"the single-file run reports {single[which][:3]} (exit {ca if which == 0 else cb})")
        if not new:
            ctx.coverage["discharged"] += 1
    return stat
