"""C11 — central moments, cumulants, tail bounds and expansions match the exact law.

tie (T)    : translate_stats.py re-reads utils/statistics.py, cli/common.py:get_all_moments and
             the bound expressions of cli/actions/goals_action.py from lib.REPO on every run and
             writes coq/gen/StatsGen.v; props/C11.v proves the property theorems ABOUT these
             generated definitions (for all orders, all finite laws).
proof      : lib.coq_check_props (props/C11.vo, Print Assumptions gate).
tie (K)    : the generated Coq definitions are evaluated in the kernel (vm_compute) on the same
             inputs as the real Python functions and compared (comb grid incl. the wrong values,
             conversions, bound lists); Hermite/Bell polynomials and both expansion classes
             are compared with independent definitions (orders <= 8).
oracle     : random finite laws (<= 5 atoms, rational): exact raw moments -> REAL functions in a
             Polar worker -> compared with central moments by definition and cumulants by the
             log-series of the exponential generating function (harness, independent of Polar's
             recursion); printed tail bounds vs exact tail probabilities by enumeration; a few
             end-to-end Polar runs on loop programs whose law at n is known exactly.
A violation is reported only when the PROPERTY fails on a concrete input (value differs from
the exact law's / a bound is invalid); a broken proof or model/implementation mismatch with no
such input is reported with no_input=True."""
import math
import re
from fractions import Fraction as Fr

import lib
import translate_stats

# signature classes of the two defects repaired in /repo (2370b33, 437ee40); no longer listed as known:
# their return is a VIOLATION with the concrete input
SIG_COMB = "comb:float-true-division:n>=57"
SIG_CENTRAL_HI = "centrals:order>=57:comb-float-division"
SIG_CUMULANT_HI = "cumulants:order>=58:comb-float-division"
SIG_CENTRAL1 = "centrals[1]=mean"


# ---- exact arithmetic on finite laws (independent of Polar) ---------------------------
def fs(x):
    x = Fr(x)
    return f"{x.numerator}/{x.denominator}"


def rand_law(rng, nonneg=False, lo=None, maxatoms=5):
    k = rng.randint(1, maxatoms)
    vals = set()
    while len(vals) < k:
        v = Fr(rng.randint(0 if nonneg else -6, 6), rng.choice([1, 1, 1, 2, 3, 4]))
        if lo is not None:
            v = lo + abs(v)
        vals.add(v)
    ws = [rng.randint(1, 6) for _ in vals]
    tot = sum(ws)
    return [(Fr(w, tot), v) for w, v in zip(ws, sorted(vals))]


def E(law, f):
    return sum((w * f(v) for w, v in law), Fr(0))


def raw_moments(law, K):
    return [E(law, lambda v, k=k: v ** k) for k in range(1, K + 1)]


def central_exact(law, i):
    mu = E(law, lambda v: v)
    return E(law, lambda v: (v - mu) ** i)


def series_mul(a, b, n):
    return [sum((a[j] * b[i - j] for j in range(i + 1)), Fr(0)) for i in range(n + 1)]


def cumulants_logseries(moms):
    """kappa_1..kappa_K = n! [t^n] log(1 + sum m_k t^k / k!),  log(1+u) = -sum_j (-u)^j / j"""
    K = len(moms)
    a = [Fr(1)] + [Fr(m) / math.factorial(k + 1) for k, m in enumerate(moms)]
    w = [-x for x in a]
    w[0] = Fr(0)
    acc = [Fr(0)] * (K + 1)
    p = [Fr(1)] + [Fr(0)] * K
    for j in range(1, K + 1):
        p = series_mul(p, w, K)
        for i in range(K + 1):
            acc[i] -= p[i] / j
    return [acc[n] * math.factorial(n) for n in range(1, K + 1)]


def moments_expseries(cums):
    """m_1..m_K from kappa_1..kappa_K through exp of the cumulant generating series"""
    K = len(cums)
    c = [Fr(0)] + [Fr(x) / math.factorial(k + 1) for k, x in enumerate(cums)]
    acc = [Fr(1)] + [Fr(0)] * K
    p = [Fr(1)] + [Fr(0)] * K
    for j in range(1, K + 1):
        p = series_mul(p, c, K)
        for i in range(K + 1):
            acc[i] += p[i] / math.factorial(j)
    return [acc[n] * math.factorial(n) for n in range(1, K + 1)]


def conv_law(l1, l2):
    d = {}
    for w1, v1 in l1:
        for w2, v2 in l2:
            d[v1 + v2] = d.get(v1 + v2, Fr(0)) + w1 * w2
    return [(w, v) for v, w in sorted(d.items())]


# ---- Coq side ---------------------------------------------------------------------------
COQ_HDR = ("From Coq Require Import List ZArith QArith Qcanon.\nFrom Polar Require Import Qcx Stats StatsFps StatsHermite.\n"
           "From PolarGen Require Import StatsGen.\nImport ListNotations.\nLocal Open Scope Qc_scope.\n")


def coq_dict(moms):
    K = len(moms)
    return "[" + "; ".join(f"({k}%nat, {lib.cq(moms[k - 1])})" for k in range(K, 0, -1)) + "]"


def parse_pair_lists(out):
    res = []
    for m in re.finditer(r"=\s*(\[.*?\])\s*:\s*list \(Z \* positive\)", out, re.S):
        res.append([Fr(int(a), int(b)) for a, b in
                    re.findall(r"\(\s*\(?\s*(-?\d+)\s*\)?\s*%Z\s*,\s*(\d+)\s*%positive\s*\)", m.group(1))])
    return res


def coq_eval(ctx, name, terms):
    """terms: Coq terms of type list Qc -> list of lists of Fractions (or None on error)"""
    if not getattr(ctx, "c11_have_model", True):
        return None, "generated model unavailable (translator / gen build failed)"
    if not terms:
        return [], ""
    body = COQ_HDR + "".join(f"Eval vm_compute in (map qpair {t}).\n" for t in terms)
    ok, out = lib.coq_run(ctx, name, body, timeout=600)
    if not ok:
        return None, out
    res = parse_pair_lists(out)
    if len(res) != len(terms):
        return None, out
    return res, out


class State:
    def __init__(self, ctx):
        self.ctx = ctx
        self.broken = []       # (what, detail) : proof / correspondence breaks without input (yet)
        self.found = 0         # semantic violations with concrete input (new, not known)

        self.per_part = {}     # part -> number of new violations reported

    def viol(self, sig, replay, what, part="misc", cap=4):
        """report a property violation on a concrete input; at most `cap` new ones per part are
        written (the rest is counted in the evidence only)"""
        known = any(k["property"] == self.ctx.prop and k["signature"] == sig for k in self.ctx.findings.get("known", []))
        if not known and self.per_part.get(part, 0) >= cap:
            self.found += 1
            self.ctx.coverage["suppressed_further_violations"] = self.ctx.coverage.get("suppressed_further_violations", 0) + 1
            return
        if self.ctx.violation(sig, replay, what):
            self.found += 1
            self.per_part[part] = self.per_part.get(part, 0) + 1

    def corr(self, equal, what, detail):
        """one correspondence instance model == implementation"""
        self.ctx.coverage["obligations"] += 1
        if equal:
            self.ctx.coverage["discharged"] += 1
        else:
            self.broken.append((what, detail))


# ---- A. comb ------------------------------------------------------------------------------
def part_comb(st):
    ctx = st.ctx
    N = ctx.pick(70, 130)
    pairs = [[n, k] for n in range(0, N + 1) for k in range(0, n + 2)]
    chunks = [pairs[i:i + 1500] for i in range(0, len(pairs), 1500)]
    res = lib.run_tasks([{"kind": "stats_comb", "pairs": c} for c in chunks], timeout=120, jobs=6)
    real = {}
    for c, r in zip(chunks, res):
        if "values" not in r:
            st.broken.append(("comb task failed", r))
            return {}
        for (n, k), v in zip(c, r["values"]):
            real[(n, k)] = v
    first_bad = None
    nbad = 0
    for (n, k), v in sorted(real.items()):
        ctx.count(("comb", n, k), nontrivial=(2 <= k <= n - 2))
        if v != str(math.comb(n, k)):
            nbad += 1
            if first_bad is None:
                first_bad = (n, k, v)
            sig = SIG_COMB if n >= 57 else f"comb({n},{k})"
            st.viol(sig, {"function": "utils.statistics.comb", "n": n, "k": k, "polar": v, "true": str(math.comb(n, k))},
                    f"utils.statistics.comb({n},{k}) = {v}, binomial coefficient is {math.comb(n, k)}", part="comb")
    ctx.coverage["comb_first_wrong"] = list(first_bad) if first_bad else None
    ctx.coverage["comb_wrong_upto_%d" % N] = nbad
    if not getattr(ctx, "c11_have_model", True):
        return real
    # model (translated comb with the exact float model) == implementation, including wrong values
    lo, hi = ctx.pick((50, 66), (40, 100))
    grid = [(n, k) for n in range(lo, hi + 1) for k in range(0, n + 2)] + [(n, k) for n in range(0, 12) for k in range(0, n + 2)]
    body = COQ_HDR + "Eval vm_compute in (map (fun p : nat * nat => comb (fst p) (snd p)) [" + \
        "; ".join(f"({n}%nat, {k}%nat)" for n, k in grid) + "]).\n"
    ok, out = lib.coq_run(ctx, "c11_comb", body, timeout=600)
    vals = re.findall(r"\(?(-?\d+)\)?%Z", out.split("list Z")[0]) if ok else []
    if not ok or len(vals) != len(grid):
        st.broken.append(("comb model evaluation failed", out[-800:]))
    else:
        diff = [(g, v, real[g]) for g, v in zip(grid, vals) if real.get(g) != v]
        st.corr(not diff, "translated comb (exact model of int/int true division) differs from the real comb",
                {"first": diff[:3]})
        ctx.sample({"tie": "Coq comb model == real comb", "points": len(grid),
                    "example": {"n": 57, "k": 25, "both": real.get((57, 25))}})
    return real


# ---- B/C. conversions ---------------------------------------------------------------------
def part_conversions(st):
    ctx = st.ctx
    rng = ctx.rng
    K = ctx.pick(8, 60)
    nlaws = ctx.pick(60, 120)
    laws = [[(Fr(1, 2), Fr(0)), (Fr(1, 3), Fr(1)), (Fr(1, 6), Fr(4))]]
    laws += [rand_law(rng) for _ in range(nlaws)]
    orders = [K if (i % 3 == 0) else rng.randint(2, K) for i in range(len(laws))]
    # regression witness of the repaired comb defect: Bernoulli(1/2), 58 moments (real code, every tier)
    laws.append([(Fr(1, 2), Fr(0)), (Fr(1, 2), Fr(1))])
    orders.append(58)
    tasks = [{"kind": "stats_convert", "moments": [fs(m) for m in raw_moments(l, k)]} for l, k in zip(laws, orders)]
    res = lib.run_tasks(tasks, timeout=300, jobs=10)
    model_cases = []
    for idx, (law, Kk, r) in enumerate(zip(laws, orders, res)):
        moms = raw_moments(law, Kk)
        lawj = [[fs(w), fs(v)] for w, v in law]
        if "centrals" not in r or "error" in r.get("centrals", {}) or "error" in r.get("cumulants", {}):
            st.viol(f"convert-crash:{lawj}:{Kk}", {"law": lawj, "K": Kk, "result": r},
                    f"raw_moments_to_centrals/cumulants failed on the moments of {lawj} (K={Kk})")
            continue
        cen, cum = r["centrals"], r["cumulants"]
        ctx.count(("conv", lawj, Kk), nontrivial=len(law) >= 2)
        want_keys_c = [1] + list(range(2, Kk + 1))
        want_keys_k = list(range(1, Kk + 1))
        if sorted(cen["keys"]) != want_keys_c or sorted(cum["keys"]) != want_keys_k:
            st.viol(f"convert-keys:{lawj}:{Kk}", {"law": lawj, "K": Kk, "centrals_keys": cen["keys"],
                                                   "cumulants_keys": cum["keys"]},
                    f"conversion of {Kk} moments returns orders {cen['keys']} / {cum['keys']}")
            continue
        true_k = cumulants_logseries(moms)
        seen_c = seen_k = False      # per law: only the lowest failing order below the known-defect range
        for i in range(1, Kk + 1):
            pc = Fr(cen["values"][str(i)])
            tc = central_exact(law, i)
            if pc != tc and not (seen_c and 2 <= i < 57):
                if i == 1:
                    sig = SIG_CENTRAL1
                elif i >= 57:
                    sig = SIG_CENTRAL_HI
                else:
                    sig = f"central:{lawj}:{i}"
                    seen_c = True
                st.viol(sig, {"law": lawj, "order": i, "polar": fs(pc), "exact": fs(tc), "moments": tasks[idx]["moments"][:i]},
                        f"raw_moments_to_centrals: order {i} of law {lawj}: Polar {fs(pc)}, exact E[(X-mu)^{i}] = {fs(tc)}",
                        part="centrals")
            pk = Fr(cum["values"][str(i)])
            tk = true_k[i - 1]
            if pk != tk and not (seen_k and i < 58):
                if i >= 58:
                    sig = SIG_CUMULANT_HI
                else:
                    sig = f"cumulant:{lawj}:{i}"
                    seen_k = True
                st.viol(sig, {"law": lawj, "order": i, "polar": fs(pk), "exact": fs(tk), "moments": tasks[idx]["moments"][:i]},
                        f"raw_moments_to_cumulants: order {i} of law {lawj}: Polar {fs(pk)}, exact cumulant {fs(tk)}",
                        part="cumulants")
        if idx < 3:
            ctx.sample({"law": lawj, "K": Kk, "centrals": {k: cen["values"][k] for k in list(cen["values"])[:5]},
                        "cumulants": {k: cum["values"][k] for k in list(cum["values"])[:5]}, "agrees_with_exact": True})
        if idx < ctx.pick(10, 12) or idx == len(laws) - 1:
            model_cases.append((idx, law, Kk, moms, cen, cum))
    # model == implementation on the same inputs (kernel evaluation of the generated definitions)
    terms = []
    for idx, law, Kk, moms, cen, cum in model_cases:
        d = coq_dict(moms)
        ks = "[" + "; ".join(f"{i}%nat" for i in range(1, Kk + 1)) + "]"
        terms.append(f"(map (dget (raw_moments_to_centrals {d})) {ks})")
        terms.append(f"(map (dget (raw_moments_to_cumulants {d})) {ks})")
    out, log = coq_eval(ctx, "c11_conv", terms)
    if out is None:
        if ctx.c11_have_model:
            st.broken.append(("conversion model evaluation failed", log[-800:]))
    else:
        for j, (idx, law, Kk, moms, cen, cum) in enumerate(model_cases):
            pc = [Fr(cen["values"][str(i)]) for i in range(1, Kk + 1)]
            pk = [Fr(cum["values"][str(i)]) for i in range(1, Kk + 1)]
            st.corr(out[2 * j] == pc, "generated raw_moments_to_centrals differs from the real function",
                    {"moments": [fs(m) for m in moms], "model": [fs(x) for x in out[2 * j]], "real": [fs(x) for x in pc]})
            st.corr(out[2 * j + 1] == pk, "generated raw_moments_to_cumulants differs from the real function",
                    {"moments": [fs(m) for m in moms], "model": [fs(x) for x in out[2 * j + 1]], "real": [fs(x) for x in pk]})


# ---- D. tail bounds --------------------------------------------------------------------------
def parse_upper(printed):
    items = re.findall(r"^\s+\((\d+)\) (\S+)\s*$", printed, re.M)
    m = re.search(r"\| n=0\) <= (\S+) ", printed)
    return [(int(j), Fr(v)) for j, v in items], (Fr(m.group(1)) if m else None)


def parse_lower(printed):
    m = re.search(r"^P\(x > \S+\) >= (\S+)\s*$", printed, re.M)
    m2 = re.search(r"\| n=0\) >= (\S+) ", printed)
    return (Fr(m.group(1)) if m else None), (Fr(m2.group(1)) if m2 else None)


def part_bounds(st):
    ctx = st.ctx
    rng = ctx.rng
    n = ctx.pick(60, 400)
    cases = []
    for i in range(n):
        if i % 2 == 0:
            law = rand_law(rng, nonneg=True)
            K = rng.randint(1, 6)
            a = rng.choice([v for _, v in law if v > 0] + [Fr(rng.randint(1, 12), rng.choice([1, 2, 3]))])
            cases.append(("upper", law, K, a))
        else:
            a = Fr(rng.randint(-4, 4), rng.choice([1, 2]))
            law = rand_law(rng, lo=a)
            if all(v == a for _, v in law):      # E (X-a)^2 = 0: 0/0 in Python, excluded
                law = [(Fr(1, 2), a), (Fr(1, 2), a + 1)]
            cases.append(("lower", law, 2, a))
    # degenerate but legal shapes: threshold on an atom, single atom, a = 0 for the lower bound
    cases.append(("upper", [(Fr(1), Fr(1, 2))], 3, Fr(1, 2)))
    cases.append(("upper", [(Fr(1, 2), Fr(0)), (Fr(1, 3), Fr(1)), (Fr(1, 6), Fr(4))], 3, Fr(2)))
    cases.append(("lower", [(Fr(1, 2), Fr(0)), (Fr(1, 3), Fr(1)), (Fr(1, 6), Fr(4))], 2, Fr(0)))
    cases.append(("lower", [(Fr(1, 2), Fr(0)), (Fr(1, 3), Fr(1)), (Fr(1, 6), Fr(4))], 2, Fr(-1)))
    tasks = [{"kind": "stats_bounds", "which": w, "a": fs(a) if a.denominator != 1 else str(a.numerator), "K": K,
              "moments": [fs(m) for m in raw_moments(law, max(K, 2))]} for w, law, K, a in cases]
    res = lib.run_tasks(tasks, timeout=120, jobs=10)
    model_terms, model_expect = [], []
    for (w, law, K, a), t, r in zip(cases, tasks, res):
        lawj = [[fs(x), fs(v)] for x, v in law]
        ctx.count(("bound", w, lawj, K, fs(a)), nontrivial=len(law) >= 2)
        if "printed" not in r:
            st.viol(f"bound-crash:{w}:{lawj}:{fs(a)}:{K}", {"law": lawj, "a": fs(a), "K": K, "result": r},
                    f"tail bound ({w}) handler failed for law {lawj}, a={fs(a)}")
            continue
        moms = raw_moments(law, max(K, 2))
        if w == "upper":
            p = E(law, lambda v: Fr(1) if v >= a else Fr(0))
            try:
                items, at0 = parse_upper(r["printed"])
            except Exception:
                items, at0 = [], None
            if not items or at0 is None:
                st.broken.append(("printed upper bounds not understood", r["printed"][:400]))
                continue
            for j, b in items:
                if b < p:
                    st.viol(f"upper-bound-invalid:{lawj}:{fs(a)}:{j}",
                            {"law": lawj, "a": fs(a), "label": j, "bound": fs(b), "P(X>=a)": fs(p), "printed": r["printed"]},
                            f"printed bound ({j}) = {fs(b)} < P(X >= {fs(a)}) = {fs(p)} for the non-negative law {lawj}",
                            part="upper")
            if at0 < p:
                st.viol(f"upper-bound-min-invalid:{lawj}:{fs(a)}",
                        {"law": lawj, "a": fs(a), "bound": fs(at0), "P(X>=a)": fs(p), "printed": r["printed"]},
                        f"printed minimum bound {fs(at0)} < P(X >= {fs(a)}) = {fs(p)} for the non-negative law {lawj}", part="upper")
            want = [(j, moms[j - 1] / a ** j) for j in range(1, K + 1)]
            st.corr(items == want and at0 == min(b for _, b in want),
                    "printed upper bounds differ from [E X^j / a^j, j = 1..K] (labels in this order) / their minimum",
                    {"law": lawj, "a": fs(a), "printed": r["printed"], "expected": [[j, fs(b)] for j, b in want]})
            if len(model_terms) < ctx.pick(24, 80):
                model_terms.append(f"(tail_bound_upper {lib.cq(a)} {coq_dict(moms[:K])})")
                model_expect.append(("upper", [b for _, b in items], lawj, fs(a)))
            if len(ctx.coverage["samples"]) < 5:
                ctx.sample({"law": lawj, "a": fs(a), "printed_upper_bounds": [[j, fs(b)] for j, b in items],
                            "exact_P(X>=a)": fs(p)})
        else:
            p = E(law, lambda v: Fr(1) if v > a else Fr(0))
            try:
                b, at0 = parse_lower(r["printed"])
            except Exception:
                b, at0 = None, None
            if b is None or at0 is None:
                st.broken.append(("printed lower bound not understood", r["printed"][:400]))
                continue
            for val, where in ((b, "closed form"), (at0, "at n")):
                if val > p:
                    st.viol(f"lower-bound-invalid:{lawj}:{fs(a)}",
                            {"law": lawj, "a": fs(a), "bound": fs(val), "P(X>a)": fs(p), "printed": r["printed"]},
                            f"printed lower bound {fs(val)} > P(X > {fs(a)}) = {fs(p)} for the law {lawj} with X - a >= 0", part="lower")
                    break
            want = (moms[0] - a) ** 2 / (moms[1] - 2 * a * moms[0] + a * a)
            st.corr(b == want and at0 == want, "printed lower bound differs from (E X - a)^2 / (E X^2 - 2 a E X + a^2)",
                    {"law": lawj, "a": fs(a), "printed": r["printed"], "expected": fs(want)})
            if len(model_terms) < ctx.pick(24, 80):
                model_terms.append(f"[tail_bound_lower {lib.cq(a)} {coq_dict(moms[:2])}]")
                model_expect.append(("lower", [b], lawj, fs(a)))
    out, log = coq_eval(ctx, "c11_bounds", model_terms)
    if out is None:
        if ctx.c11_have_model:
            st.broken.append(("bound model evaluation failed", log[-800:]))
    else:
        for got, (w, exp, lawj, a) in zip(out, model_expect):
            st.corr(got == exp, f"generated tail_bound_{w} differs from what the real handler prints",
                    {"law": lawj, "a": a, "model": [fs(x) for x in got], "real": [fs(x) for x in exp]})


# ---- E. end to end -----------------------------------------------------------------------------
def part_e2e(st):
    ctx = st.ctx
    rng = ctx.rng
    n = ctx.pick(8, 30)
    tasks, metas = [], []
    for i in range(n):
        law = rand_law(rng, nonneg=True, maxatoms=3)
        if len(law) < 2:
            law = [(Fr(1, 2), Fr(0)), (Fr(1, 2), Fr(rng.randint(1, 4)))]
        draw = " ".join(f"{v} {{{w}}}" for w, v in law[:-1]) + f" {law[-1][1]}"
        accumulate = (i % 2 == 1)
        prog = "x = 0\ny = 0\nwhile true:\n    x = " + draw + "\n" + ("    y = y + x\n" if accumulate else "") + "end\n"
        var = "y" if accumulate else "x"
        at_n = rng.randint(1, 3)
        K = rng.randint(2, 4)
        a = rng.choice([v for _, v in law if v > 0])
        goals = [f"c{k}({var})" for k in range(2, K + 1)] + [f"k{k}({var})" for k in range(1, K + 1)] + \
                [f"P({var} >= {a}) <= ?", f"P({var} > 0) >= ?"]
        tasks.append({"kind": "stats_e2e", "program": prog, "goals": goals, "at_n": at_n, "K": K, "timeout": 120})
        lw = law
        if accumulate:
            for _ in range(at_n - 1):
                lw = conv_law(lw, law)
        metas.append((prog, var, at_n, K, a, lw))
    res = lib.run_tasks(tasks, timeout=120, jobs=8)
    for t, (prog, var, at_n, K, a, lw), r in zip(tasks, metas, res):
        ctx.count(("e2e", prog, at_n), nontrivial=True)
        if "printed" not in r:
            st.broken.append(("end-to-end run failed", {"program": prog, "result": r}))
            continue
        pr = r["printed"]
        moms = raw_moments(lw, K)
        tk = cumulants_logseries(moms)

        def at(label):
            m = re.search(re.escape(label) + r" \| n=%d\) (?:=|<=|>=) (\S+) " % at_n, pr)
            return Fr(m.group(1)) if m else None
        checks = [(f"c{k}({var}", central_exact(lw, k), "eq") for k in range(2, K + 1)] + \
                 [(f"k{k}({var}", tk[k - 1], "eq") for k in range(1, K + 1)] + \
                 [(f"P({var} >= {a}", E(lw, lambda v: Fr(1) if v >= a else Fr(0)), "ge"),
                  (f"P({var} > 0", E(lw, lambda v: Fr(1) if v > 0 else Fr(0)), "le")]
        for label, truth, mode in checks:
            got = at(label)
            if got is None:
                st.broken.append(("end-to-end output not understood", {"label": label, "printed": pr[:1500]}))
                continue
            bad = (got != truth) if mode == "eq" else (got < truth if mode == "ge" else got > truth)
            if bad:
                st.viol(f"e2e:{prog}:{label}:{at_n}", {"program": prog, "goal": label + ")", "n": at_n, "polar": fs(got),
                                                       "exact": fs(truth), "printed": pr},
                        f"Polar reports {label} | n={at_n}) = {fs(got)}; exact law gives {fs(truth)} ({mode})", part="e2e")
        ctx.coverage["obligations"] += 1
        ctx.coverage["discharged"] += 1


# ---- F. Hermite / Bell ----------------------------------------------------------------------------
def hermite_ref(n):
    h0, h1 = {0: Fr(1)}, {1: Fr(1)}
    if n == 0:
        return h0
    for k in range(1, n):
        nxt = {}
        for d, c in h1.items():
            nxt[d + 1] = nxt.get(d + 1, Fr(0)) + c
        for d, c in h0.items():
            nxt[d] = nxt.get(d, Fr(0)) - k * c
        h0, h1 = h1, {d: c for d, c in nxt.items() if c != 0}
    return h1


def bell_ref(n):
    """complete exponential Bell polynomial by summing over set partitions' block-size multisets:
    coefficient of prod x_i^{j_i} (sum i j_i = n) is n! / prod (i!^{j_i} j_i!)"""
    out = {}

    def rec(i, rest, js):
        if i > n:
            if rest == 0:
                c = Fr(math.factorial(n))
                for s, j in enumerate(js, start=1):
                    c /= Fr(math.factorial(s) ** j * math.factorial(j))
                out[tuple(js)] = c
            return
        for j in range(rest // i + 1):
            rec(i + 1, rest - i * j, js + [j])
    rec(1, n, [])
    return out


def part_polys(st):
    ctx = st.ctx
    N = 8
    res = lib.run_tasks([{"kind": "stats_polys", "n": n} for n in range(0, N + 1)], timeout=120, jobs=5)
    # the Coq He_n (about which C11_hermite_* are proved) == Polar's prob_hermite_poly(n, x)
    model, log = coq_eval(ctx, "c11_hermite", [f"(hermite {n})" for n in range(0, N + 1)])
    if model is None:
        if ctx.c11_have_model:
            st.broken.append(("hermite model evaluation failed", log[-600:]))
    else:
        for n, (coefs, r) in enumerate(zip(model, res)):
            if "hermite" in r:
                got = {int(k): Fr(v) for k, v in r["hermite"].items()}
                st.corr({d: c for d, c in enumerate(coefs) if c != 0} == got,
                        "Coq hermite n differs from prob_hermite_poly(n, x)", {"n": n, "polar": r["hermite"]})
    for n, r in enumerate(res):
        ctx.count(("poly", n), nontrivial=n >= 2)
        if "hermite" not in r:
            st.viol(f"special-polys-crash:{n}", {"n": n, "result": r}, f"prob_hermite_poly/ce_bell_poly failed for n={n}", part="polys")
            continue
        got = {int(k): Fr(v) for k, v in r["hermite"].items()}
        if got != hermite_ref(n):
            st.viol(f"hermite:{n}", {"n": n, "polar": r["hermite"], "reference": {k: fs(v) for k, v in hermite_ref(n).items()}},
                    f"prob_hermite_poly({n}, x) is not He_{n} (He_k+1 = x He_k - k He_k-1)", part="polys")
        if n >= 1:
            gb = {tuple(int(e) for e in k.split(",")): Fr(v) for k, v in r["bell"].items()}
            if gb != bell_ref(n):
                st.viol(f"bell:{n}", {"n": n, "polar": r["bell"], "reference": {str(k): fs(v) for k, v in bell_ref(n).items()}},
                        f"ce_bell_poly({n}, x1..x{n}) is not the complete exponential Bell polynomial B_{n}", part="polys")
        ctx.coverage["obligations"] += 1
        ctx.coverage["discharged"] += 1


# ---- G. expansions ------------------------------------------------------------------------------------
def gauss_moments(mu, s2, n):
    g = [Fr(1), mu]
    for k in range(1, n):
        g.append(mu * g[k] + k * s2 * g[k - 1])
    return g


def cf_textbook(cums):
    """Cornish-Fisher quantile polynomial in z for 3, 4, 5 cumulants (Abramowitz-Stegun 26.2.49 grouping)"""
    K = len(cums)
    mu, s2 = cums[0], cums[1]
    sig = Fr(math.isqrt(s2.numerator), math.isqrt(s2.denominator))
    g = [cums[r - 1] / sig ** r for r in range(3, K + 1)]   # gamma_1, gamma_2, gamma_3
    w = {1: Fr(1)}

    def add(poly, c):
        for d, x in poly.items():
            w[d] = w.get(d, Fr(0)) + c * x
    add({2: 1, 0: -1}, g[0] / 6)
    if K >= 4:
        add({3: 1, 1: -3}, g[1] / 24)
        add({3: 2, 1: -5}, -g[0] ** 2 / 36)
    if K >= 5:
        add({4: 1, 2: -6, 0: 3}, g[2] / 120)
        add({4: 1, 2: -5, 0: 2}, -g[0] * g[1] / 24)
        add({4: 12, 2: -53, 0: 17}, g[0] ** 3 / 324)
    q = {d: sig * c for d, c in w.items()}
    q[0] = q.get(0, Fr(0)) + mu
    return {d: c for d, c in q.items() if c != 0}


def part_expansions(st):
    ctx = st.ctx
    rng = ctx.rng
    n = ctx.pick(10, 40)
    cases = []
    for i in range(n):
        K = 2 + i % ctx.pick(5, 7)       # 2..6 quick, 2..8 thorough
        s = Fr(rng.randint(1, 4), rng.choice([1, 2, 3]))
        cums = [Fr(rng.randint(-4, 4), rng.choice([1, 2])), s * s] + \
               [Fr(rng.randint(-5, 5), rng.choice([1, 2, 3])) for _ in range(K - 2)]
        cases.append(cums)
    res = lib.run_tasks([{"kind": "stats_expansions", "cumulants": [fs(c) for c in cs], "timeout": 200} for cs in cases],
                        timeout=200, jobs=10)
    shape_cases = []
    for cums, r in zip(cases, res):
        K = len(cums)
        cj = [fs(c) for c in cums]
        ctx.count(("expansion", cj), nontrivial=K >= 3)
        if "gc_poly" not in r:
            st.viol(f"gram-charlier-crash:{cj}", {"cumulants": cj, "result": r}, f"GramCharlierExpansion failed on cumulants {cj}", part="gram-charlier")
        else:
            pol = {int(d): Fr(c) for d, c in r["gc_poly"].items()}
            g = gauss_moments(cums[0], cums[1], K + max(pol) + 1)
            mom = [sum((c * g[d + m] for d, c in pol.items()), Fr(0)) for m in range(0, K + 1)]
            want = [Fr(1)] + moments_expseries(cums)
            shape_cases.append((cums, pol))
            if mom != want:
                first = next(m for m in range(K + 1) if mom[m] != want[m])
                st.viol(f"gram-charlier:{cj}", {"cumulants": cj, "density_polynomial_factor": r["gc_poly"], "moment_order": first,
                                                "of_density": fs(mom[first]), "from_cumulants": fs(want[first])},
                        f"Gram-Charlier density for cumulants {cj}: raw moment {first} of the density is {fs(mom[first])}, "
                        f"the cumulants give {fs(want[first])}", part="gram-charlier")
            else:
                ctx.coverage["obligations"] += 1
                ctx.coverage["discharged"] += 1
        if 3 <= K <= 5:
            if "cf_poly" not in r:
                st.viol(f"cornish-fisher-crash:{cj}", {"cumulants": cj, "result": r}, f"CornishFisherExpansion failed on cumulants {cj}", part="cornish-fisher")
            else:
                got = {int(d): Fr(c) for d, c in r["cf_poly"].items()}
                ref = cf_textbook(cums)
                if got != ref:
                    st.viol(f"cornish-fisher:{cj}", {"cumulants": cj, "polar": r["cf_poly"], "textbook": {d: fs(c) for d, c in ref.items()}},
                            f"Cornish-Fisher polynomial for cumulants {cj} differs from the textbook expansion of order {K}", part="cornish-fisher")
                else:
                    ctx.coverage["obligations"] += 1
                    ctx.coverage["discharged"] += 1
            if len(ctx.coverage["samples"]) < 6 and K == 4:
                ctx.sample({"cumulants": cj, "cornish_fisher_polynomial_in_z": r.get("cf_poly"), "equals_textbook_order4": True})
    gc_shape_tie(st, shape_cases)


def poly_compose_affine(pol, mu, sig):
    """coefficients (in z) of P(mu + sig z)"""
    out = {}
    for d, c in pol.items():
        for j in range(d + 1):
            out[j] = out.get(j, Fr(0)) + c * math.comb(d, j) * sig ** j * mu ** (d - j)
    return out


def gc_shape_tie(st, shape_cases):
    """Polar's density factor, in the standardised variable, is 1 + sum_{i=3..K} c_i He_i(z) with
    c_i = B_i(0,0,k3..ki)/(i! sigma^i): the shape about which C11_gram_charlier_partial is proved"""
    ctx = st.ctx
    terms, expect = [], []
    for cums, pol in shape_cases[:ctx.pick(8, 30)]:
        K = len(cums)
        mu, s2 = cums[0], cums[1]
        sig = Fr(math.isqrt(s2.numerator), math.isqrt(s2.denominator))
        cs = {}
        for i in range(3, K + 1):
            xs = [Fr(0), Fr(0)] + list(cums[2:i])
            b = Fr(0)
            for js, coeff in bell_ref(i).items():
                t = coeff
                for x, j in zip(xs, js):
                    t *= x ** j
                b += t
            cs[i] = b / (math.factorial(i) * sig ** i)
        cfun = "(fun i : nat => match i with " + " ".join(f"| {i}%nat => {lib.cq(c)}" for i, c in cs.items()) + " | _ => 0 end)"
        terms.append(f"(gc_poly {cfun} {K})")
        q = poly_compose_affine(pol, mu, sig)
        expect.append(({d: c for d, c in q.items() if c != 0}, [fs(c) for c in cums]))
    out, log = coq_eval(ctx, "c11_gcshape", terms)
    if out is None:
        if ctx.c11_have_model:
            st.broken.append(("gc_poly model evaluation failed", log[-600:]))
        return
    for coefs, (q, cj) in zip(out, expect):
        st.corr({d: c for d, c in enumerate(coefs) if c != 0} == q,
                "GramCharlierExpansion's polynomial factor is not 1 + sum c_i He_i((x-mu)/sigma) with the Bell coefficients",
                {"cumulants": cj})


def run(ctx):
    st = State(ctx)
    ctx.coverage["trusted_base"] += [
        "harness/translate_stats.py (Python ast -> Gallina, fail-closed subset; .expand()/.simplify()/sympify are "
        "value-preserving identities; dict = insertion-ordered association list; KeyError not modelled)",
        "int // int is Z.div (floor division); should a float true division reappear in the translated code it is modelled "
        "by Polar.Stats.py_truediv (correctly rounded 53-bit quotient, exponent range not modelled); the translated comb "
        "is compared with the real comb on a grid every run",
        "harness oracles: exact Fraction arithmetic; cumulants by log-series of the EGF; tail probabilities by enumeration",
        "parsers of Polar's printed bounds (regular expressions on the CLI output)",
    ]
    ctx.assumptions += [
        "laws are finitely supported with rational weights/values (theorems: all such laws, all orders; weights may be signed for the conversions)",
        "the raw moments handed to the conversions are exact (that is property C01); here they are computed exactly from the law",
        "tail bounds: the printed assumption 'X (resp. X - a) is non-negative' and a > 0; --after_loop limits (limit_seq) not modelled",
        "Gram-Charlier / Cornish-Fisher: validated on rational cumulant vectors with rational sigma, 2..6 (8) cumulants; "
        "Cornish-Fisher beyond 5 cumulants has no independent specification and is not checked",
    ]
    # 1. translator (every run)
    try:
        path, changed = translate_stats.main()
        ctx.coverage["translated"] = {"file": "coq/gen/StatsGen.v", "changed_since_last_run": changed}
        translated = True
    except translate_stats.Abort as e:
        st.broken.append(("translator aborted (construct outside the subset)", str(e)))
        translated = False
    except Exception as e:  # noqa
        st.broken.append(("translator failed", repr(e)))
        translated = False
    # 2. proofs about the generated definitions
    if translated:
        ok, log = lib.coq_check_props(ctx)
        if not ok:
            errs = [l for l in log.splitlines() if "Error" in l or l.startswith("File")]
            st.broken.append(("props/C11.v (or a theory it needs) no longer checks against the generated definitions",
                              "\n".join(errs[-6:]) + "\n" + log[-1500:]))
            proofs_ok = False
        else:
            proofs_ok = True
    else:
        ctx.coverage["obligations"] += len(lib.props_obligations("C11"))
        proofs_ok = False
    # 3. correspondence + oracle (also the search when 1/2 broke).  The kernel evaluations of the
    #    generated definitions need a compiled gen/StatsGen.vo
    ctx.c11_have_model = bool(translated and (proofs_ok or lib.coq_make(["gen/StatsGen.vo"])[0]))
    part_comb(st)
    part_conversions(st)
    part_bounds(st)
    part_e2e(st)
    part_polys(st)
    part_expansions(st)
    ctx.coverage["rule"] = (
        "evaluations = comb grid points + random finite laws (<=5 atoms, rational; conversions to order %d) + tail-bound cases "
        "(real handlers, printed output) + end-to-end Polar runs + special polynomials n<=8 + expansion cases; non-trivial = "
        ">=2 atoms / 2<=k<=n-2 / >=3 cumulants; distinct by input. obligations = property theorems (Print Assumptions "
        "gate) + model-vs-implementation instances + validated expansion/polynomial/e2e instances" % ctx.pick(8, 60))
    ctx.coverage["broken"] = sorted(set(w for w, _ in st.broken))
    ctx.coverage["new_violations_by_part"] = dict(st.per_part)
    if st.broken and st.found == 0:
        # dedupe by message
        seen = set()
        for what, detail in st.broken:
            if what in seen:
                continue
            seen.add(what)
            ctx.violation("broken:" + what, {"what": what, "detail": detail},
                          what + " -- no input on which the property itself fails was found", no_input=True)
