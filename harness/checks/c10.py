"""C10 — reported sensitivities are the parameter derivatives of the exact moments.

proof : props/C10.v — dual numbers are a ring; P(x + eps) = (P(x), P'(x)); the extended system
        [[A,0],[A',A]],(v,v') iterates to (A^n v, d/dp A^n v) for ALL polynomial systems, parameter
        values and n (deriv_system); model of DiffRecBuilder.get_recurrence / get_initial_value and
        of the dependency classification with diffrec_model_correct / dep_closure_sound; verified
        validators check_sens_model, check_sens_direct, check_diffcf; methods_agree.
tie   : the real CLI path (-sens, -sens_diff) is run on generated programs with symbolic
        parameters (tasks_sens.py); Polar's extended system, its classification of monomials, its
        closed forms are fed to the validators, evaluated by the Coq kernel at rational parameter
        points (acceptance: 'for all n' at that point).
oracle: independent of every Polar object: exact moments of the SOURCE program under Sem.run
        at K rational values of the parameter, exact Lagrange interpolation in the parameter
        (degree bound computed from the source text, extra nodes must agree), formal derivative
        of the interpolant, compared with both methods' values for n <= N."""
import re
from fractions import Fraction

import lib
import exppoly
import gen
import oracle
import progast as P
from checks import c04

PARAMS = ["p", "q"]
F = Fraction
c = P.const
v = P.var


# ---- expressions helpers -------------------------------------------------------------------
def sub(a, b):
    return ("sub", a, b)


def add(a, b):
    return ("add", a, b)


def mul(a, b):
    return ("mul", a, b)


def map_expr(e, f):
    k = e[0]
    if k in ("const",):
        return e
    if k == "var":
        return f(e)
    if k in ("add", "sub", "mul"):
        return (k, map_expr(e[1], f), map_expr(e[2], f))
    if k == "neg":
        return (k, map_expr(e[1], f))
    if k == "pow":
        return (k, map_expr(e[1], f), e[2])
    raise ValueError(e)


def map_cond(cd, f):
    k = cd[0]
    if k in ("true", "false"):
        return cd
    if k == "atom":
        return ("atom", map_expr(cd[1], f), cd[2], map_expr(cd[3], f))
    if k == "not":
        return ("not", map_cond(cd[1], f))
    return (k, map_cond(cd[1], f), map_cond(cd[2], f))


def map_rhs(r, f):
    if r[0] == "draw":
        d = r[1]
        if d[0] == "bern":
            return ("draw", ("bern", map_expr(d[1], f)))
        if d[0] == "cat":
            return ("draw", ("cat", [map_expr(x, f) for x in d[1]]))
        if d[0] == "cont":
            return ("draw", ("cont", d[1], [map_expr(x, f) for x in d[2]]))
        return r
    return ("choice", [(map_expr(pr, f), map_expr(e, f)) for pr, e in r[1]])


def map_stmt(s, f):
    k = s[0]
    if k == "assign":
        return ("assign", s[1], map_rhs(s[2], f))
    if k == "simult":
        return ("simult", [(x, map_rhs(r, f)) for x, r in s[1]])
    return ("if", [(map_cond(cd, f), [map_stmt(x, f) for x in b]) for cd, b in s[1]],
            [map_stmt(x, f) for x in s[2]] if s[2] is not None else None)


def instantiate(prog, subs):
    """replace parameters by rational constants everywhere"""
    def f(e):
        return c(subs[e[1]]) if e[1] in subs else e
    return {"types": prog.get("types", []), "init": [map_stmt(s, f) for s in prog["init"]],
            "guard": map_cond(prog["guard"], f), "body": [map_stmt(s, f) for s in prog["body"]]}


def used_params(prog):
    seen = set()

    def f(e):
        if e[1] in PARAMS:
            seen.add(e[1])
        return e
    instantiate_like = [map_stmt(s, f) for s in prog["init"] + prog["body"]]  # noqa: F841
    map_cond(prog["guard"], f)
    return sorted(seen)


def has_param(e):
    found = []

    def f(x):
        if x[1] in PARAMS:
            found.append(x[1])
        return x
    map_expr(e, f)
    return bool(found)


# ---- degree bound of E[M]_n as a polynomial in one parameter (from the source text) ----------
class NotPolynomial(Exception):
    pass


def deg_e(e, P0, dv):
    k = e[0]
    if k == "const":
        return 0
    if k == "var":
        if e[1] == P0:
            return 1
        return dv.get(e[1], 0)
    if k in ("add", "sub"):
        return max(deg_e(e[1], P0, dv), deg_e(e[2], P0, dv))
    if k == "mul":
        return deg_e(e[1], P0, dv) + deg_e(e[2], P0, dv)
    if k == "neg":
        return deg_e(e[1], P0, dv)
    if k == "pow":
        return e[2] * deg_e(e[1], P0, dv)
    raise ValueError(e)


def deg_cond(cd, P0, dv):
    k = cd[0]
    if k in ("true", "false"):
        return 0
    if k == "atom":
        return max(deg_e(cd[1], P0, dv), deg_e(cd[3], P0, dv))
    if k == "not":
        return deg_cond(cd[1], P0, dv)
    return max(deg_cond(cd[1], P0, dv), deg_cond(cd[2], P0, dv))


def deg_rhs(r, P0, dv):
    """-> (degree of the path probability contributed, degree bound of the value)"""
    if r[0] == "draw":
        d = r[1]
        if d[0] == "bern":
            return deg_e(d[1], P0, dv), 0
        if d[0] == "cat":
            return max(deg_e(x, P0, dv) for x in d[1]), 0
        if d[0] == "cont":
            raise NotPolynomial("continuous draw: outside the executable reference semantics")
        return 0, 0
    return max(deg_e(pr, P0, dv) for pr, _ in r[1]), max(deg_e(e, P0, dv) for _, e in r[1])


def deg_block(b, P0, dv):
    """-> (probability degree, new dv)"""
    pd = 0
    dv = dict(dv)
    for s in b:
        if s[0] == "assign":
            a, d = deg_rhs(s[2], P0, dv)
            pd += a
            dv[s[1]] = d
        elif s[0] == "simult":
            new = {}
            for x, r in s[1]:
                a, d = deg_rhs(r, P0, dv)
                pd += a
                new[x] = d
            dv.update(new)
        else:
            outs = []
            for cd, bb in s[1]:
                if deg_cond(cd, P0, dv) > 0:
                    raise NotPolynomial("condition depends on the parameter's value")
                outs.append(deg_block(bb, P0, dv))
            outs.append(deg_block(s[2], P0, dv) if s[2] is not None else (0, dict(dv)))
            pd += max(o[0] for o in outs)
            keys = set()
            for _, d in outs:
                keys |= set(d)
            dv = {x: max(d.get(x, 0) for _, d in outs) for x in keys}
    return pd, dv


def degree_bounds(prog, P0, mono, N):
    """[D_0..D_N]: E[mono] after n iterations is a polynomial of degree <= D_n in P0"""
    pd, dv = deg_block(prog["init"], P0, {})
    out = []
    for n in range(N + 1):
        if deg_cond(prog["guard"], P0, dv) > 0:
            raise NotPolynomial("guard depends on the parameter's value")
        out.append(pd + sum(k * dv.get(x, 0) for x, k in mono.items()))
        a, dv2 = deg_block(prog["body"], P0, dv)
        # the loop may also be frozen: keep the maximum
        dv = {x: max(dv.get(x, 0), dv2.get(x, 0)) for x in set(dv) | set(dv2)}
        pd += a
    return out


# ---- exact polynomial interpolation ----------------------------------------------------------
def pmul_lin(poly, a):
    """poly * (X - a)"""
    out = [F(0)] * (len(poly) + 1)
    for i, co in enumerate(poly):
        out[i + 1] += co
        out[i] -= a * co
    return out


def interpolate(xs, ys):
    """coefficient list (low -> high) of the unique polynomial of degree < len(xs) through the points"""
    n = len(xs)
    res = [F(0)] * n
    for i in range(n):
        num = [F(1)]
        den = F(1)
        for j in range(n):
            if j != i:
                num = pmul_lin(num, xs[j])
                den *= xs[i] - xs[j]
        for k2, co in enumerate(num):
            res[k2] += ys[i] * co / den
    return res


def peval(poly, x):
    r = F(0)
    for co in reversed(poly):
        r = r * x + co
    return r


def pderiv(poly):
    return [k * co for k, co in enumerate(poly)][1:]


# ---- program shapes ----------------------------------------------------------------------------
def corpus():
    out = []

    def prog(init, body, guard=("true",)):
        return {"types": [], "init": init, "guard": guard, "body": body}

    A = lambda x, e: ("assign", x, P.det(e))  # noqa: E731
    # 1. parameter only in the initial value; contraction
    out.append((prog([A("x", v("p"))], [A("x", add(mul(c(F(1, 2)), v("x")), c(1)))]), [{"x": 1}, {"x": 2}], "init-param"))
    # 2. parameter as coefficient (closed form has p**n) and in the initial value
    out.append((prog([A("x", v("p"))], [A("x", add(mul(v("p"), v("x")), c(1)))]), [{"x": 1}], "coeff-param+init-param+symbolic-base"))
    # 3. Bernoulli parameter, accumulator, second moment and mixed moment
    out.append((prog([A("x", c(0)), A("f", c(0))],
                     [("assign", "f", ("draw", ("bern", v("p")))), A("x", add(v("x"), v("f")))]),
                [{"x": 1}, {"x": 2}, {"x": 1, "f": 1}], "bernoulli-param"))
    # 4. three-way choice with two parameters (random walk)
    out.append((prog([A("x", c(0))],
                     [("assign", "x", ("choice", [(v("p"), add(v("x"), c(1))), (v("q"), sub(v("x"), c(1))),
                                                  (sub(sub(c(1), v("p")), v("q")), v("x"))]))]),
                [{"x": 1}, {"x": 2}], "choice-two-params"))
    # 5. dependence only through a condition
    out.append((prog([A("y", c(0)), A("f", c(0))],
                     [("assign", "f", ("draw", ("bern", v("p")))),
                      ("if", [(("atom", v("f"), "==", c(1)), [A("y", add(v("y"), c(2)))])], [A("y", sub(v("y"), c(1)))])]),
                [{"y": 1}, {"y": 2}], "dependence-through-condition"))
    # 6. dependent times independent variable; independent goal
    out.append((prog([A("x", c(0)), A("z", c(0)), A("g", c(0)), A("f", c(0))],
                     [("assign", "g", ("draw", ("bern", c(F(1, 3))))), ("assign", "f", ("draw", ("bern", v("p")))),
                      A("x", add(v("x"), v("f"))), A("z", add(v("z"), mul(v("x"), v("g"))))]),
                [{"z": 1}, {"g": 1, "x": 1}, {"g": 1}], "dependent*independent"))
    # 7. product of parameters, parameter squared in a coefficient, both in init
    out.append((prog([A("x", mul(v("p"), v("q"))), A("y", c(1))],
                     [A("x", add(v("x"), mul(mul(v("p"), v("p")), v("y")))), A("y", add(mul(c(F(1, 2)), v("y")), v("q")))]),
                [{"x": 1}, {"x": 1, "y": 1}], "param-product+square"))
    # 8. stopping loop: guard on a Bernoulli(p) flag
    out.append((prog([A("s", c(0)), A("x", c(0))],
                     [("assign", "s", ("draw", ("bern", v("p")))), A("x", add(v("x"), c(1)))],
                     guard=("atom", v("s"), "==", c(0))),
                [{"x": 1}, {"x": 2}], "guard+bernoulli-param+symbolic-base"))
    # 9. categorical with parameter, value used as coefficient
    out.append((prog([A("k", c(0)), A("x", c(1))],
                     [("assign", "k", ("draw", ("cat", [v("p"), sub(c(1), v("p"))]))),
                      A("x", add(mul(v("k"), v("x")), c(1)))]),
                [{"x": 1}], "categorical-param+symbolic-base"))
    # 10. cyclic system (swap) with parameter
    out.append((prog([A("x", c(1)), A("y", v("q"))],
                     [("simult", [("x", P.det(add(v("y"), v("p")))), ("y", P.det(v("x")))])]),
                [{"x": 1}, {"x": 1, "y": 1}], "cyclic+param"))
    # 11. parameter in choice probability and in the chosen values; dependent finite variable in a condition
    out.append((prog([A("x", c(0)), A("f", c(0)), A("w", c(0))],
                     [("assign", "f", ("choice", [(v("p"), c(1)), (sub(c(1), v("p")), c(0))])),
                      ("if", [(("atom", v("f"), "==", c(1)), [A("w", add(v("w"), v("q")))])], None),
                      ("assign", "x", ("choice", [(c(F(1, 2)), add(v("x"), v("w"))), (c(F(1, 2)), mul(v("p"), v("x")))]))]),
                [{"x": 1}, {"w": 2}], "choice-param+values+symbolic-base"))
    # 12. initial value drawn with parameter, body parameter-free
    out.append((prog([("assign", "x", ("choice", [(v("p"), c(2)), (sub(c(1), v("p")), c(0))])), A("y", c(0))],
                     [A("y", add(v("y"), v("x"))), A("x", mul(c(F(1, 2)), v("x")))]),
                [{"y": 1}, {"y": 2}], "init-choice-param"))
    # 12b. the parameter reaches a variable only through a CHAIN of initial assignments (y random with parameter p,
    # x computed from y in the initial part); the body updates x without p or p-dependent variables
    out.append((prog([("assign", "y", ("draw", ("bern", v("p")))), A("x", mul(c(3), v("y"))), A("z", c(0))],
                     [A("z", add(v("z"), v("x"))), A("x", mul(c(F(1, 2)), v("x")))]),
                [{"x": 1}, {"z": 1}, {"x": 2}], "init-chain-param"))
    out.append((prog([A("y", v("p")), ("simult", [("x", P.det(mul(c(2), v("y")))), ("z", P.det(v("q")))]), A("w", c(0))],
                     [A("w", add(v("w"), mul(v("x"), v("z")))), A("x", add(mul(c(F(1, 3)), v("x")), c(1))), A("y", add(v("y"), c(1)))]),
                [{"w": 1}, {"x": 1}], "init-chain-param-simultaneous"))
    # 13./14. continuous families whose moments are polynomial in the parameter (validators only:
    # the executable reference semantics has no continuous laws)
    out.append((prog([A("x", c(0)), A("u", c(0))],
                     [("assign", "u", ("draw", ("cont", "Normal", [v("p"), c(1)]))), A("x", add(v("x"), mul(v("q"), v("u"))))]),
                [{"x": 1}, {"x": 2}], "continuous-normal-param"))
    out.append((prog([A("x", c(1)), A("u", c(0))],
                     [("assign", "u", ("draw", ("cont", "Uniform", [c(0), v("p")]))), A("x", add(mul(c(F(1, 2)), v("x")), v("u")))]),
                [{"x": 1}, {"x": 2}], "continuous-uniform-param"))
    return out


class SG:
    """random small programs: finite variables f* (draws / choices with parameter-dependent
    probabilities, possibly assigned under a condition on an earlier finite variable) and
    accumulators a* with linear updates whose coefficients mention parameters and finite variables"""

    def __init__(self, rng):
        self.rng = rng
        self.features = set()
        self.budget = 3  # occurrences of parameters in probabilities/coefficients of the body

    def par(self):
        return v(self.rng.choice(PARAMS))

    def prob(self):
        r = self.rng.random()
        if self.budget > 0 and r < 0.6:
            self.budget -= 1
            self.features.add("prob-param")
            x = self.par()
            return x if self.rng.random() < 0.7 else mul(c(F(1, 2)), x)
        return c(self.rng.choice(gen.PROBS))

    def coef(self):
        r = self.rng.random()
        if self.budget > 0 and r < 0.35:
            self.budget -= 1
            self.features.add("coeff-param")
            return self.par()
        return c(self.rng.choice([1, 1, 2, -1, F(1, 2)]))

    def program(self):
        rng = self.rng
        fin = [f"f{i}" for i in range(rng.randint(1, 2))]
        acc = [f"a{i}" for i in range(rng.randint(1, 2))]
        init = []
        for f in fin:
            init.append(("assign", f, P.det(c(0))))
        for a in acc:
            r = rng.random()
            if r < 0.35:
                self.features.add("init-param")
                e = self.par() if rng.random() < 0.6 else add(mul(c(2), self.par()), c(1))
            else:
                e = c(rng.choice([0, 1, 2, -1]))
            init.append(("assign", a, P.det(e)))
        body = []
        fin_dep = set()
        for i, f in enumerate(fin):
            r = rng.random()
            pr = self.prob()
            if r < 0.45:
                st = ("assign", f, ("draw", ("bern", pr)))
                self.features.add("bernoulli")
            elif r < 0.6:
                st = ("assign", f, ("draw", ("cat", [pr, sub(c(1), pr)])))
                self.features.add("categorical")
            else:
                st = ("assign", f, ("choice", [(pr, c(1)), (sub(c(1), pr), c(0))]))
                self.features.add("choice")
            if has_param(pr):
                fin_dep.add(f)
            if i > 0 and rng.random() < 0.5:
                self.features.add("finite-under-condition")
                st = ("if", [(("atom", v(fin[0]), "==", c(rng.choice([0, 1]))), [st])], [("assign", f, P.det(c(0)))])
                if fin[0] in fin_dep:
                    fin_dep.add(f)
            body.append(st)
        for i, a in enumerate(acc):
            if rng.random() < 0.12 and self.budget > 0:
                self.budget -= 1
                self.features.add("symbolic-base")
                selfc = None
                terms = [mul(self.par(), v(a))]
            else:
                selfc = rng.choice([1, 1, 1, F(1, 2), 2, -1])
                terms = [mul(c(selfc), v(a))]
            r = rng.random()
            if r < 0.5:
                terms.append(mul(self.coef(), v(rng.choice(fin))))
            elif r < 0.7:
                terms.append(self.coef())
            else:
                terms.append(mul(v(rng.choice(fin)), v(rng.choice(fin))))
            if i > 0 and rng.random() < 0.7:
                self.features.add("acc-uses-acc")
                terms.append(mul(v(rng.choice(fin)) if rng.random() < 0.5 else self.coef(), v(acc[0])))
                if rng.random() < 0.3:
                    self.features.add("acc*finite-monomial")
                    terms.append(mul(c(F(1, 2)), mul(v(rng.choice(fin)), v(acc[0]))))
            e = terms[0]
            for t in terms[1:]:
                e = add(e, t)
            r = rng.random()
            if r < 0.25:
                self.features.add("acc-under-condition")
                f = rng.choice(fin)
                body.append(("if", [(("atom", v(f), "==", c(1)), [("assign", a, P.det(e))])], None))
                if f in fin_dep and selfc != 1:
                    self.features.add("symbolic-base")
            elif r < 0.45:
                self.features.add("acc-choice")
                pr = self.prob()
                body.append(("assign", a, ("choice", [(pr, e), (sub(c(1), pr), v(a))])))
                if has_param(pr) and selfc != 1:
                    self.features.add("symbolic-base")
            else:
                body.append(("assign", a, P.det(e)))
        self.fin, self.acc = fin, acc
        return {"types": [], "init": init, "guard": ("true",), "body": body}

    def goals(self):
        rng = self.rng
        out = [{rng.choice(self.acc): 1}]
        r = rng.random()
        if r < 0.4:
            out.append({rng.choice(self.acc): 2})
        elif r < 0.7:
            out.append({rng.choice(self.acc): 1, rng.choice(self.fin): 1})
        return out


# ---- Coq case files ------------------------------------------------------------------------------
def dec(x):
    if isinstance(x, list):
        return (dec(x[0]), dec(x[1]))
    return Fraction(x)


def coq_instance(kind, A, inst, pname, tag):
    """kind 'a': validators of the sensitivity recurrences; 'b': check_diffcf.
    -> (typed definitions, list of boolean terms); tag makes the names unique in a file"""
    cf = inst["cf"]
    gens = cf["gens"]
    kg = len(gens)
    ring = exppoly.coq_ring(gens)
    el = lambda s: exppoly.coq_elem(exppoly.embed(Fraction(s), kg))  # noqa: E731
    cl = exppoly.coq_list
    PA = cl([cl([cl([el(x) for x in pol]) for pol in row]) for row in inst["PA"]])
    Pv = cl([cl([el(x) for x in pol]) for pol in inst["Pv"]])
    x = el(inst["point"][pname])
    Fs = cl([exppoly.coq_epoly([(dec(b), [dec(co) for co in cs]) for b, cs in f]) for f in cf["general"]])
    sp = cl([cl([exppoly.coq_elem(dec(co)) for co in row]) for row in cf["specials"]])
    k = len(inst["Pv"])
    R = f"R{tag}"
    defs = (f"Definition {R} : cring := {ring}.\n"
            f"Definition PA{tag} : list (list (list {R})) := {PA}.\n"
            f"Definition Pv{tag} : list (list {R}) := {Pv}.\n"
            f"Definition x{tag} : {R} := {x}.\n"
            f"Definition F{tag} : list (epoly {R}) := {Fs}.\n"
            f"Definition sp{tag} : list (list {R}) := {sp}.\n")
    PA, Pv, x, Fs, sp = f"PA{tag}", f"Pv{tag}", f"x{tag}", f"F{tag}", f"sp{tag}"
    if kind == "b":
        return defs, [f"check_diffcf {k} {PA} {Pv} {x} {Fs} {sp}"]
    S = cl([cl([el(y) for y in row]) for row in inst["S"]])
    s = cl([el(y) for y in inst["s"]])
    dep = cl(["true" if d else "false" for d in A["dep"]])
    iota = cl([str(i) + "%nat" for i in A["iota"]])
    Z = cl(["false"] * k + ["false" if d else "true" for d in A["dep"]])
    defs += (f"Definition S{tag} : list (list {R}) := {S}.\n"
             f"Definition s{tag} : list {R} := {s}.\n"
             f"Definition dep{tag} : list bool := {dep}.\n"
             f"Definition iota{tag} : list nat := {iota}.\n"
             f"Definition Z{tag} : list bool := {Z}.\n")
    S, s, dep, iota, Z = f"S{tag}", f"s{tag}", f"dep{tag}", f"iota{tag}", f"Z{tag}"
    return defs, [
        f"dep_closed {dep} {PA} {Pv}",
        f"check_sub (evalM (model_ext {dep} {PA}) {x}) (evalV (model_init {Pv}) {x}) {S} {s} {iota} (map (fun _ => false) (model_init {Pv}))",
        f"check_sub (block (evalM {PA} {x}) (evalM (derivM {PA}) {x})) (evalV {Pv} {x} ++ evalV (derivV {Pv}) {x}) {S} {s} {iota} {Z}",
        f"check_solution {S} {s} {Fs} {sp}",
        f"check_sens_model {dep} {PA} {Pv} {x} {S} {s} {iota} {Fs} {sp}",
        f"check_sens_direct {k} {PA} {Pv} {x} {S} {s} {iota} {Z} {Fs} {sp}",
    ]


COQ_HDR = ("From Coq Require Import List Bool QArith Qcanon.\n"
           "From Polar Require Import Qcx CRing ExpPoly ClosedForm Sens SensModel.\nImport ListNotations.\n")


def run_validators(ctx, cases):
    """cases: list of dicts with 'terms' (list of Coq bool terms).  Fills case['bools'] (or None)."""
    per = 8
    files = []
    for j in range(0, len(cases), per):
        body = COQ_HDR
        for i, cs in enumerate(cases[j:j + per]):
            defs, terms = cs["mk"](f"_{i}")
            body += defs + f"Definition c{i} : list bool := [" + ";\n  ".join(terms) + "].\n"
        body += "".join(f"Eval vm_compute in c{i}.\n" for i in range(len(cases[j:j + per])))
        files.append((f"c10_{j // per}", body))
    res = lib.coq_run_many(ctx, files, timeout=300)
    for j in range(0, len(cases), per):
        ok, o = res[f"c10_{j // per}"]
        chunk = cases[j:j + per]
        lists = re.findall(r"=\s*\[(.*?)\]\s*:\s*list bool", o, re.S) if ok else []
        for i, cs in enumerate(chunk):
            if len(lists) != len(chunk):
                cs["bools"] = None
                cs["coq_error"] = o[-800:]
            else:
                cs["bools"] = [t.strip() == "true" for t in lists[i].split(";")] if lists[i].strip() else []


# ---- oracle -----------------------------------------------------------------------------------------
NODES = [F(1, 2), F(1, 4), F(3, 4), F(1, 5), F(2, 5), F(4, 5), F(1, 8), F(3, 8), F(5, 8), F(7, 8), F(1, 10), F(3, 10),
         F(7, 10), F(9, 10), F(1, 16), F(5, 16), F(9, 16), F(13, 16), F(1, 20), F(11, 20), F(2, 3), F(1, 6), F(5, 6),
         F(1, 7), F(3, 7), F(1, 9), F(1, 11), F(1, 12)]


def oracle_file(prog, goals, pname, fixed, nodes, N):
    vs = P.prog_vars(prog)
    body = P.COQ_HEADER.replace("Syntax Sem", "Syntax Sem Types Search")
    vl = P.lst(['"%s"' % x for x in vs])
    body += f"Definition ms0 : list mono := {P.lst([P.mono_coq(m) for m in goals])}.\n"
    for i, x in enumerate(nodes):
        subs = dict(fixed)
        subs[pname] = x
        body += f"Definition p{i} : prog := {P.prog_coq(instantiate(prog, subs))}.\n"
        body += f"Eval vm_compute in (src_moments_c {vl} p{i} ms0 {N}).\n"
    body += f"Eval vm_compute in (src_moments p0 ms0 {min(2, N)}).\n"
    return body


# ---- central-moment / cumulant goals under -sens_diff (the printed derivative against an independent symbolic oracle) ----
CUM_PROBES = [
    # (text, step alternatives [(probability in p, increment)], start)
    ("x = 0\nwhile true:\n    x = x + 2 {p} x - 1\nend\n", [("p", 2), ("1 - p", -1)], 0),
    ("x = 1\nwhile true:\n    x = x + 1 {p/2} x + 3 {1/2} x\nend\n", [("p/2", 1), ("1/2", 3), ("1/2 - p/2", 0)], 1),
]


def cumulant_probe(ctx):
    """goals c4(x), k4(x), k3(x), c2(x) with -sens_diff p: d/dp of the exact central moments / cumulants of the random walk x_n,
    computed here from the exact law (weights in Z[p], sympy), n = 0..3"""
    import sympy as sp
    p, n_sym = sp.Symbol("p"), sp.Symbol("n")
    goals = ["c2(x)", "k3(x)", "c4(x)", "k4(x)"]
    tasks = [{"kind": "sens_cli_text", "text": t, "goals": goals, "method": "-sens_diff", "param": "p", "timeout": 150} for t, _, _ in CUM_PROBES]
    res = lib.run_tasks(tasks, timeout=150)
    st = {"probes": len(tasks), "goal_values_agree": 0, "inconclusive": 0}
    ctx.coverage["cumulant_goals_sens_diff"] = st
    for (text, alts, x0), r in zip(CUM_PROBES, res):
        if "error" in r or r.get("returncode") != 0:
            st["inconclusive"] += 1
            continue
        out = re.sub(r"\x1b\[[0-9;]*m", "", r["stdout"])
        law = {sp.Integer(x0): sp.Integer(1)}
        truth = []          # per n: {goal: d/dp value}
        for n in range(4):
            m = [sp.expand(sum(w * x ** k for x, w in law.items())) for k in range(5)]
            mu = m[1]
            c = {k: sp.expand(sum(sp.binomial(k, j) * m[j] * (-mu) ** (k - j) for j in range(k + 1))) for k in (2, 3, 4)}
            vals = {"c2(x)": c[2], "k3(x)": c[3], "c4(x)": c[4], "k4(x)": sp.expand(c[4] - 3 * c[2] ** 2)}
            truth.append({g: sp.expand(sp.diff(v, p)) for g, v in vals.items()})
            new = {}
            for x, w in law.items():
                for pr, inc in alts:
                    new[x + inc] = sp.expand(new.get(x + inc, 0) + w * sp.sympify(pr))
            law = new
        for g in goals:
            mm = re.search(r"^∂" + re.escape(g) + r" = (.*)$", out, re.M)
            ctx.coverage["obligations"] += 1
            ctx.count({"cum": text, "g": g}, nontrivial=True)
            if not mm:
                ctx.violation(f"sens-diff-cumulant:no-result:{text}:{g}", {"program_text": text, "goal": g, "stdout": out[-1500:]},
                              f"-sens_diff p prints no derivative for the goal {g}\n{text}", no_input=True)
                continue
            parts = mm.group(1).split("; ")
            bad = None
            for n in range(4):
                e = sp.sympify(parts[n]) if n < len(parts) - 1 else sp.sympify(parts[-1]).subs(n_sym, n)
                if sp.expand(e - truth[n][g]) != 0:
                    bad = (n, str(sp.expand(e)), str(truth[n][g]))
                    break
            if bad:
                ctx.violation(f"sens-diff-cumulant:{text}:{g}", {"program_text": text, "goal": g, "param": "p", "n": bad[0], "printed": mm.group(1),
                                                                 "polar_value": bad[1], "true_derivative": bad[2]},
                              f"-sens_diff p for the goal {g}: the printed derivative is {bad[1]} at n={bad[0]}, the derivative of the exact "
                              f"{'cumulant' if g.startswith('k') else 'central moment'} is {bad[2]}\n{text}")
            else:
                ctx.coverage["discharged"] += 1
                st["goal_values_agree"] += 1


def run(ctx):
    ok, log = lib.coq_check_props(ctx)
    if not ok:
        ctx.violation("proof-broken", {"theorem": "props/C10.v", "log": log[-3000:]}, "props/C10.v no longer checks", no_input=True)
        return
    lib.coq_make(["theories/Search.vo"])
    ctx.coverage["trusted_base"] += [
        "harness/progast.py printers (the same AST is printed as Polar text and, with the parameters instantiated, as a Coq term)",
        "harness/exppoly.py decomposition of closed forms and harness/tasks_sens.py extraction of polynomial entries (the validators re-evaluate both)",
        "exact Lagrange interpolation over Fractions in harness/checks/c10.py (degree bound from the source text; surplus nodes must agree)",
        "generated case files evaluated by vm_compute in the kernel (no extraction)",
    ]
    ctx.assumptions += [
        "E[M]_n is the polynomial (A(p)^n v(p))_M in the parameter at every parameter value (C03/C01: Polar's original system is exact); the "
        "formal derivative of that polynomial is the partial derivative of the moment — checked independently through the interpolation oracle for n <= N",
        "validators run at rational parameter points (theorem instance: all n at that point); all parameters other than the analysed one are fixed rationals",
        "parameters enter polynomially (probabilities, coefficients, Bernoulli/Categorical parameters, initial values); conditions do not compare with parameters",
        "the step from SensivitiyAnalyzer.get_dependent_variables (variable level) to dep_closed (system level) is validated per instance, not proved for all programs",
    ]
    N = ctx.pick(4, 6)
    KMAX = ctx.pick(13, 22)
    n_rand = ctx.pick(5, 60)
    n_gen = ctx.pick(1, 30)
    progs = list(corpus())
    if ctx.quick:
        # Polar's own solving is slow when a power's base is symbolic: one goal for those programs
        progs = [(p, goals[:1] if "symbolic-base" in tag else goals[:2], tag) for p, goals, tag in progs]
    n_sym = ctx.pick(1, 15)
    while n_rand > 0 or n_sym > 0:
        g = SG(ctx.rng)
        p = g.program()
        if not used_params(p):
            continue
        if "symbolic-base" in g.features:
            if n_sym == 0:
                continue
            n_sym -= 1
            progs.append((p, g.goals()[:1], "random:" + "+".join(sorted(g.features))))
        else:
            if n_rand == 0:
                continue
            n_rand -= 1
            progs.append((p, g.goals(), "random:" + "+".join(sorted(g.features))))
    tries = 0
    while n_gen > 0 and tries < 400:
        tries += 1
        g = gen.G(ctx.rng, params=True, guard=False, max_depth=1, allow_simult=False, n_fin=ctx.rng.randint(1, 2), n_acc=ctx.rng.randint(1, 2))
        p = g.program()
        if not used_params(p):
            continue
        gl = [m for m in g.goals(2) if any(x.startswith("a") for x in m)][:1] or g.goals(1)
        progs.append((p, gl, "gen.G:symbolic-base+" + "+".join(sorted(g.features))))
        n_gen -= 1
    # points: the analysed parameter takes two values, the other parameter is fixed
    P0S = [F(1, 3), F(3, 5)]
    OTHER = {"p": F(3, 7), "q": F(2, 9)}  # chosen not to collide with 1-x, x/2 of the points or the constants used
    tasks, meta = [], []
    for pi, (p, goals, tag) in enumerate(progs):
        text = P.prog_text(p)
        pnames = used_params(p)
        if ctx.quick and "symbolic-base" in tag:
            pnames = pnames[:1]  # Polar's solving is slow on these: one parameter in the quick tier
        for pname in pnames:
            for m in goals:
                pts = []
                for x0 in P0S:
                    pt = {k2: str(val) for k2, val in OTHER.items()}
                    pt[pname] = str(x0)
                    pts.append(pt)
                tasks.append({"kind": "sens", "text": text, "goal": gen.goal_text(m), "param": pname, "points": pts,
                              "nvals": N + 1, "timeout": ctx.pick(80, 150)})
                meta.append((pi, pname, m))
    order = sorted(range(len(tasks)), key=lambda i: 0 if "symbolic-base" in progs[meta[i][0]][2] else 1)
    tasks = [tasks[i] for i in order]
    meta = [meta[i] for i in order]
    results = lib.run_tasks(tasks, timeout=ctx.pick(80, 150))
    print(f"[C10] polar tasks: {len(tasks)} in {ctx.elapsed():.0f}s", flush=True)
    ctx.coverage["slowest_tasks_s"] = sorted([(r.get("seconds", -1), r.get("seconds_a", -1), progs[m[0]][2], t["goal"], t["param"])
                                               for m, t, r in zip(meta, tasks, results)], reverse=True)[:6]
    # ---- oracle: one interpolation family per (program, parameter) ----
    omap = {}

    def oracle_round(keys, Ncap, rnd, timeout):
        ofiles = []
        for pi, pname in keys:
            p, goals, tag = progs[pi]
            fixed = {k2: val for k2, val in OTHER.items() if k2 != pname}
            try:
                bounds = [degree_bounds(instantiate(p, fixed), pname, m, Ncap) for m in goals]
            except NotPolynomial as e:
                omap[(pi, pname)] = {"skip": str(e)}
                continue
            # largest n such that every goal's bound fits into the node budget
            Nn = Ncap
            while Nn >= 0 and max(b[Nn] for b in bounds) + 3 > KMAX:
                Nn -= 1
            if Nn < 1:
                omap[(pi, pname)] = {"skip": "degree bound too large"}
                continue
            K = max(b[Nn] for b in bounds) + 3
            nodes = NODES[:K]
            omap[(pi, pname)] = {"bounds": bounds, "N": Nn, "nodes": nodes, "file": f"orc{rnd}_{pi}_{pname}", "fixed": fixed}
            ofiles.append((f"orc{rnd}_{pi}_{pname}", oracle_file(p, goals, pname, fixed, nodes, Nn)))
        oouts = lib.coq_run_many(ctx, ofiles, timeout=timeout)
        print(f"[C10] oracle files (round {rnd}): {len(ofiles)} done at {ctx.elapsed():.0f}s", flush=True)
        again = []
        for key in keys:
            om = omap[key]
            if "skip" in om:
                continue
            okc, o = oouts[om["file"]]
            rs = oracle.parse_results(o) if okc else []
            K = len(om["nodes"])
            if len(rs) != K + 1 or any(len(r) != om["N"] + 1 for r in rs[:K]):
                om["skip"] = "oracle timeout or error"
                again.append(key)
                continue
            if rs[0][:len(rs[K])] != rs[K]:
                raise RuntimeError("oracle self-check failed: compacted and plain semantics disagree")
            # interpolate per goal and n
            goals = progs[key[0]][1]
            polys = []
            for gi in range(len(goals)):
                per_n = []
                for n in range(om["N"] + 1):
                    D = om["bounds"][gi][n]
                    xs = om["nodes"][:D + 1]
                    ys = [rs[i][n][gi] for i in range(D + 1)]
                    pol = interpolate(xs, ys)
                    for i in range(D + 1, K):
                        if peval(pol, om["nodes"][i]) != rs[i][n][gi]:
                            raise RuntimeError(f"interpolation self-check failed (degree bound {D} unsound?) for\n{P.prog_text(progs[key[0]][0])}")
                    per_n.append(pol)
                polys.append(per_n)
            om["polys"] = polys
        return again

    allkeys = sorted({(m[0], m[1]) for m in meta})
    again = oracle_round(allkeys, N, 0, ctx.pick(90, 240))
    if again:
        # state space too large for N iterations inside the time limit: fewer iterations
        oracle_round(again, 2, 1, ctx.pick(60, 240))
    # ---- evaluate ----
    cases = []
    errs, feats, stat = {}, {}, {}
    n_oracle_ok = {"a": 0, "b": 0}
    n_agree = 0
    for (pi, pname, m), t, r in zip(meta, tasks, results):
        p, goals, tag = progs[pi]
        text = t["text"]
        gname = t["goal"]
        for f in tag.split(":")[-1].split("+"):
            if f:
                feats[f] = feats.get(f, 0) + 1
        if "error" in r:
            errs[r.get("etype", r["error"])] = errs.get(r.get("etype", r["error"]), 0) + 1
            continue
        om = omap.get((pi, pname), {"skip": "none"})
        gi = goals.index(m)
        vals = {}
        for meth in ("a", "b"):
            R = r.get(meth, {})
            if "exception" in R:
                k2 = f"{meth}:{R['exception']['etype']}@{R['exception'].get('raiser', '')}"
                errs[k2] = errs.get(k2, 0) + 1
                continue
            if "unsupported" in R:
                errs[f"{meth}:unsupported"] = errs.get(f"{meth}:unsupported", 0) + 1
                ctx.violation(f"unexpected-cli-behaviour:{text}:{gname}:{pname}", {"program_text": text, "goal": gname, "param": pname, "why": R["unsupported"]},
                              f"method {meth}: {R['unsupported']}", no_input=True)
                continue
            for ii, inst in enumerate(R.get("instances", [])):
                x0 = Fraction(inst["point"][pname])
                vv = inst.get("values")
                vals[(meth, ii)] = vv
                ctx.count({"t": text, "g": gname, "p": pname, "m": meth, "x": str(x0)},
                          nontrivial=len(R.get("ext_monomials", R.get("orig_monomials", []))) >= 3)
                # (ii) independent oracle
                bad = None
                if "polys" in om and vv:
                    for n in range(min(om["N"] + 1, len(vv))):
                        if vv[n].startswith("~"):
                            continue
                        true_d = peval(pderiv(om["polys"][gi][n]), x0)
                        if Fraction(vv[n]) != true_d:
                            bad = (n, vv[n], true_d, peval(om["polys"][gi][n], x0))
                            break
                    if bad is None:
                        n_oracle_ok[meth] += 1
                        if ii == 0:
                            ctx.sample({"program": text, "goal": f"E({gname})", "param": pname, "method": "-sens" if meth == "a" else "-sens_diff",
                                        "sensitivity": R["sens"], "point": inst["point"],
                                        "exact_derivatives_n0..": [str(peval(pderiv(om["polys"][gi][n]), x0)) for n in range(om["N"] + 1)]})
                bad_new = True
                if bad is not None:
                    flag = "-sens" if meth == "a" else "-sens_diff"
                    bad_new = ctx.violation(f"sens-mismatch:{flag}:{text}:{gname}:{pname}",
                                  {"program_text": text, "goal": gname, "param": pname, "method": flag, "n": bad[0], "point": inst["point"],
                                   "polar_value": bad[1], "exact_derivative": str(bad[2]), "exact_moment": str(bad[3]),
                                   "polar_sensitivity": R["sens"], "dep_vars": R.get("dep_vars"), "ext_rec_dict": R.get("ext_rec_dict"),
                                   "ext_init_dict": R.get("ext_init_dict"), "flat_program": R.get("flat_text")},
                                  f"{flag} {pname}: dE({gname})/d{pname} at n={bad[0]}, {inst['point']}: Polar gives {bad[1]}, the exact derivative "
                                  f"of the exact moment is {bad[2]}\n{text}")
                # (i) validators
                if "cf" in inst and "PA" in inst:
                    try:
                        mk = (lambda tg, meth=meth, R=R, inst=inst, pname=pname: coq_instance(meth, R, inst, pname, tg))
                        mk("_t")
                        cases.append({"mk": mk, "meth": meth, "text": text, "goal": gname, "param": pname, "point": inst["point"],
                                      "bad": bad, "bad_new": bad_new, "R": R, "inst": inst})
                    except Exception as e:  # noqa
                        stat["not-printable"] = stat.get("not-printable", 0) + 1
                else:
                    stat["unsupported:" + meth] = stat.get("unsupported:" + meth, 0) + 1
                    ctx.coverage["unvalidated_instances"] = ctx.coverage.get("unvalidated_instances", 0) + 1
        # (iii) both methods agree
        for ii in range(2):
            va, vb = vals.get(("a", ii)), vals.get(("b", ii))
            if va and vb:
                diff = [n for n in range(min(len(va), len(vb))) if not va[n].startswith("~") and not vb[n].startswith("~")
                        and Fraction(va[n]) != Fraction(vb[n])]
                if diff:
                    ctx.violation(f"methods-disagree:{text}:{gname}:{pname}",
                                  {"program_text": text, "goal": gname, "param": pname, "n": diff[0], "sens": va[diff[0]], "sens_diff": vb[diff[0]],
                                   "point": r["a"]["instances"][ii]["point"]},
                                  f"-sens and -sens_diff disagree on dE({gname})/d{pname} at n={diff[0]}: {va[diff[0]]} vs {vb[diff[0]]}\n{text}")
                else:
                    n_agree += 1
    run_validators(ctx, cases)
    print(f"[C10] validator cases: {len(cases)} done at {ctx.elapsed():.0f}s", flush=True)
    for cs in cases:
        ctx.coverage["obligations"] += 1
        b = cs["bools"]
        meth = cs["meth"]
        if b is None:
            stat["coq-error"] = stat.get("coq-error", 0) + 1
            ctx.violation(f"validator-error:{cs['text']}:{cs['goal']}:{cs['param']}", {"program_text": cs["text"], "goal": cs["goal"], "log": cs.get("coq_error")},
                          "validator case file did not compile", no_input=True)
            continue
        if meth == "b":
            key = "diffcf:" + ("accepted" if b[0] else "rejected")
            stat[key] = stat.get(key, 0) + 1
            if b[0]:
                ctx.coverage["discharged"] += 1
            elif cs["bad"] is not None:
                if not cs["bad_new"]:
                    ctx.coverage["discharged"] += 1  # instance decided: known finding
            else:
                ctx.violation(f"diffcf-unvalidated:{cs['text']}:{cs['goal']}:{cs['param']}",
                              {"program_text": cs["text"], "goal": cs["goal"], "param": cs["param"], "point": cs["point"], "sens_diff": cs["R"]["sens"]},
                              f"differentiated closed forms of E({cs['goal']}) do not validate against the extended system at {cs['point']}, "
                              f"but no differing n <= {N} was found", no_input=True)
            continue
        names = ["dep_closed", "sub_model", "sub_direct", "solution", "sens_model", "sens_direct"]
        for nm, val in zip(names, b):
            key = f"{nm}:{'ok' if val else 'FAIL'}"
            stat[key] = stat.get(key, 0) + 1
        if b[4] and b[5]:
            ctx.coverage["discharged"] += 1
            continue
        if cs["bad"] is not None:
            if not cs["bad_new"]:
                ctx.coverage["discharged"] += 1  # instance decided: known finding
            continue  # already reported with a failing input
        broken = [nm for nm, val in zip(names, b) if not val]
        ctx.violation(f"sens-unvalidated:{'+'.join(broken)}:{cs['text']}:{cs['goal']}:{cs['param']}",
                      {"program_text": cs["text"], "goal": cs["goal"], "param": cs["param"], "point": cs["point"], "failed": broken,
                       "dep": cs["R"].get("dep"), "dep_vars": cs["R"].get("dep_vars"), "orig_monomials": cs["R"].get("orig_monomials"),
                       "ext_rec_dict": cs["R"].get("ext_rec_dict"), "ext_init_dict": cs["R"].get("ext_init_dict"),
                       "orig_matrix": cs["R"].get("orig_matrix"), "orig_vector": cs["R"].get("orig_vector")},
                      f"sensitivity recurrences for E({cs['goal']}) w.r.t. {cs['param']}: validator parts {broken} fail at {cs['point']} "
                      f"(model of DiffRecBuilder / extended system / closed form), but no differing n <= {N} was found\n{cs['text']}", no_input=True)
    if not ctx.replay:
        cumulant_probe(ctx)
    ctx.coverage["rule"] = (
        "programs: hand-written corpus of sensitivity shapes (parameter in initial value, coefficient, Bernoulli/Categorical parameter, choice "
        "probabilities and values, dependence through a condition, dependent*independent monomials, guard, cyclic system) + random programs (SG) + "
        "gen.G(params=True); per (program, parameter in {p,q}, goal monomial of degree <= 2) both CLI methods; two rational values of the analysed "
        f"parameter; oracle: exact interpolation for n <= {N}; non-trivial = system with >= 3 unknowns; distinct by (text, goal, parameter, method, point)")
    ctx.coverage["feature_histogram"] = feats
    ctx.coverage["polar_errors"] = errs
    ctx.coverage["validator_status"] = stat
    ctx.coverage["oracle_agreements"] = n_oracle_ok
    ctx.coverage["methods_agree_instances"] = n_agree
    ctx.coverage["oracle_skipped"] = {f"{k2[0]}:{k2[1]}": om["skip"] for k2, om in omap.items() if "skip" in om}
    ctx.coverage["programs"] = len(progs)
    ctx.coverage["tasks"] = len(tasks)
