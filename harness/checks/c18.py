"""C18 — loops within the documented restrictions are accepted and analysable; a refusal is an
error, never a wrong or partial result.

proof : props/C18.v — in_class (the README's "Loop Restrictions" as a boolean on source programs),
        graph_model (get_defective_nodes = reachable from a cycle with a non-linear edge, all finite
        graphs), the monomial worklist (system closed, rows exact, refusal_is_error, termination with
        an explicit fuel bound inside a closed universe), refutation witnesses on the models of
        atom_cond / ConstantsTransformer / _get_last_assign_index.
tie   : (a) classgen programs, class membership decided by evaluating the Coq in_class in the
        kernel; the real Polar normalises them and analyses every monomial of degree <= 2 over the
        source variables (time limit per program); (b) every closed form Polar returns, for either
        stream, is compared with the exact moments of the source program under Sem.run;
        (c) the recurrence dictionaries Polar returns are checked to be closed; (d) the real
        utils.graph.Graph against the Coq model and an independent reachability oracle on random
        labelled graphs; (e) the Coq worklist on Polar's own flat programs against Polar's systems.
search: the generated program IS the failing input (refusal inside the class / wrong value at n)."""
import itertools
import os
import re
import threading
import time
from fractions import Fraction

import classgen
import core
import gen
import lib
import oracle
import progast as P
from checks import c01, c05

HEADER = ("From Coq Require Import List String QArith Qcanon ZArith.\n"
          "From Polar Require Import Qcx Dist Syntax Sem Types Poly Graph InClass.\n"
          "Import ListNotations.\nOpen Scope string_scope.\n")

PARTS = ["initialised", "params-constant", "value-analysis-converged", "conditions-finite", "no-nonlinear-cycle"]

K12 = "refusal:NormalizingException@conditions_normalizer.py:_try_abstract_failed_condition:nested-if-reassigning-its-own-condition-variable:_old-copy-untyped"
K16 = "refusal:NormalizingException@conditions_normalizer.py:_try_abstract_failed_condition:categorical-expanded-inside-a-branch:_c-draw-untyped"
K17 = "refusal:ArithmConversionException@atom_cond.py:to_arithm:non-integer-finite-value-in-condition"
K18 = "refusal:KeyError@rec_builder.py:_get_last_assign_index:goal-over-folded-loop-constant"
K19 = "refusal:NormalizingException@atom_cond.py:get_normalized:fixed-loop-constant-as-atom-variable"
K20 = "refusal:NormalizingException@conditions_normalizer.py:_try_abstract_failed_condition:simultaneous-assignment-inside-a-branch-of-a-condition-variable:_t-temporary-untyped"
K21 = "refusal:NormalizingException@conditions_normalizer.py:_try_abstract_failed_condition:finite-variable-reassigned-from-itself:unconditional-version-typed-with-its-default"
K22 = "refusal:NormalizingException@conditions_normalizer.py:_try_abstract_failed_condition:finite-variable-reassigned-from-itself:guarded-version-typed-with-its-default"
K20B = "not-effective:simultaneous-assignment-inside-a-branch-of-a-finite-variable:_t-temporary-untyped:finite-coefficient-counted-as-infinite"
KNOWN_SHAPES = {K20B: "simult-in-branch", K21: "multi-assign-finite", K22: "multi-assign-finite", K20: "simult-in-branch", K12: "nested-reassign", K16: "categorical-in-branch", K17: "nonint-values", K18: "goal-over-constant", K19: "const-in-cond"}


# ---- class membership, decided in the kernel --------------------------------------------------
def types_coq(p):
    return P.lst([f'("{x}", {P.lst([P.q_coq(q) for q in vals])})' for x, vals in p.get("types", [])])


def inclass_files(progs, per_file=8):
    files = []
    for k in range(0, len(progs), per_file):
        body = HEADER
        for j, p in enumerate(progs[k:k + per_file]):
            body += f"Definition p{j} : prog := {P.prog_coq(p)}.\nDefinition D{j} : tenv := {types_coq(p)}.\n"
            body += f"Eval vm_compute in (in_class_parts p{j} D{j}).\n"
            body += (f"Eval vm_compute in (match loop_env p{j} D{j} with Some T => (map fst T, defective_vars p{j} D{j} T) "
                     f"| None => ([], []) end).\n")
        files.append((f"inclass_{k // per_file}", body))
    return files


def parse_inclass(out):
    out = re.sub(r"\s+", " ", out)     # Coq breaks lines anywhere
    bools = [[x.strip() == "true" for x in m.group(1).split(";")] for m in re.finditer(r"=\s*\[([^\]]*)\]\s*:\s*list bool", out)]
    pairs = []
    for m in re.finditer(r"=\s*\(\s*(\[[^\]]*\])\s*,\s*(\[[^\]]*\])\s*\)\s*:\s*list (?:var|string) \* list (?:var|string)", out, re.S):
        pairs.append((re.findall(r'"([^"]*)"', m.group(1)), re.findall(r'"([^"]*)"', m.group(2))))
    return bools, pairs


def decide_class(ctx, progs):
    files = inclass_files(progs)
    outs = lib.coq_run_many(ctx, files, timeout=240)
    res = []
    for k, (name, _) in enumerate(files):
        ok, o = outs[name]
        n = min(8, len(progs) - 8 * k)
        bools, pairs = parse_inclass(o) if ok else ([], [])
        if len(bools) != n or len(pairs) != n:
            res += [None] * n
        else:
            res += [{"parts": b, "typed": t, "defective": d} for b, (t, d) in zip(bools, pairs)]
    return res


# ---- naming a refusal ---------------------------------------------------------------------------
def refusal_signature(p, opts, text, goal, stage, exc):
    et, fn, msg = exc["etype"], exc["raiser"], exc["msg"]
    if et == "NormalizingException" and fn == "conditions_normalizer.py:_try_abstract_failed_condition":
        if re.search(r"Can't normalize condition .*\b_old\d+\b", msg) and classgen.nested_if_reassigns_own_condition(p):
            return K12
        if re.search(r"Can't normalize condition .*\b_c\d+\b", msg) and opts.get("transform_categoricals") and classgen.choice_inside_branch(p):
            return K16
        if re.search(r"Can't normalize condition ", msg) and classgen.simult_in_branch_assigns_condition_variable(p):
            return K20
        found, uncond = classgen.self_updating_reassignment(p)
        if re.search(r"Can't normalize condition ", msg) and found:
            return K21 if uncond else K22
    if et == "ArithmConversionException" and fn == "atom_cond.py:to_arithm":
        if re.fullmatch(r"Atom \w+ == -?\d+/\d+ is not normalized", msg) and classgen.has_nonint_constant(p):
            return K17
    if et == "KeyError" and fn == "rec_builder.py:_get_last_assign_index" and goal is not None:
        name = msg.strip("'\"")
        if name in classgen.fixed_constants(p) and name in goal:
            return K18
    if et == "NormalizingException" and fn == "atom_cond.py:get_normalized":
        if re.fullmatch(r"Atom -?\d+(/\d+)? (==|<=|>=|<|>) -?\d+ cannot be normalized because it's not reduced", msg) \
                and classgen.constant_as_atom_variable(p):
            return K19
    return f"refusal:{et}@{fn}:{stage}:{text}" + (f":{goal}" if goal else "")


# ---- (c) closedness of a returned recurrence dictionary, from the structural dump ----------------
def system_not_closed(gr, symbols):
    if "rec_dict" not in gr:
        return None
    sym = set(symbols)

    def key(mon):
        return tuple(sorted((x, k) for x, k in mon if x not in sym))
    keys = set()
    for kd, _ in gr["rec_dict"]:
        if len(kd) != 1:
            return f"key is not a monomial: {kd}"
        keys.add(key(kd[0][1]))
    for kd, vd in gr["rec_dict"]:
        for co, mon in vd:
            m = key(mon)
            if m and m not in keys:
                return f"monomial {dict(m)} on the right-hand side of {dict(key(kd[0][1]))} has no equation"
    return None


# ---- (d) graph correspondence --------------------------------------------------------------------
def spec_defective(adj):
    """independent oracle: Floyd-Warshall closure; defective = reachable from v for a non-linear
    edge v -> u with u reaching v"""
    V = len(adj)
    r = [[i == j or adj[i][j] > 0 for j in range(V)] for i in range(V)]
    for k in range(V):
        for i in range(V):
            for j in range(V):
                if r[i][k] and r[k][j]:
                    r[i][j] = True
    bad = set()
    for v in range(V):
        for u in range(V):
            if adj[v][u] == 2 and r[u][v]:
                bad |= {i for i in range(V) if r[v][i]}
    return sorted(bad)


def random_graph(rng):
    V = rng.randint(1, 7)
    dens = rng.choice([0.15, 0.3, 0.5])
    nl = rng.choice([0.1, 0.3, 0.6])
    return [[(2 if rng.random() < nl else 1) if rng.random() < dens else 0 for _ in range(V)] for _ in range(V)]


def graph_part(ctx, n_graphs, only=None):
    rng = ctx.rng
    graphs = [[[2]], [[1]], [[0, 2], [1, 0]], [[0, 1], [1, 0]], [[0, 2, 0], [0, 0, 1], [0, 0, 0]],
              [[0, 1, 0], [0, 0, 1], [2, 0, 0]], [[0, 1, 0, 0], [1, 0, 0, 0], [0, 0, 0, 2], [0, 0, 0, 0]]]
    while len(graphs) < n_graphs:
        graphs.append(random_graph(rng))
    if only is not None:
        graphs = [only, only]
    tasks = [{"kind": "graph", "adj": g, "weak_after": i % 2 == 1, "timeout": 30} for i, g in enumerate(graphs)]
    results = lib.run_tasks(tasks, timeout=30, jobs=4)
    body = HEADER
    for g in graphs:
        rows = P.lst([P.lst([f"{x}%nat" for x in row]) for row in g])
        body += f"Eval vm_compute in (defective_of {rows}).\n"
    ok, out = lib.coq_run(ctx, "graphs", body, timeout=300)
    out = re.sub(r"\s+", " ", out)
    model = [[int(x) for x in re.findall(r"(\d+)%nat", m.group(1))]
             for m in re.finditer(r"=\s*\[([^\]]*)\]\s*:\s*list nat", out)] if ok else []
    if len(model) != len(graphs):
        ctx.violation("graph-model-evaluation", {"log": out[-2000:]}, "the Coq model of get_defective_nodes could not be evaluated", no_input=True)
        return
    n_nl = 0
    for g, r, md in zip(graphs, results, model):
        spec = spec_defective(g)
        nontrivial = any(x == 2 for row in g for x in row) and any(x == 1 for row in g for x in row)
        ctx.count({"graph": g}, nontrivial=nontrivial)
        ctx.coverage["obligations"] += 1
        n_nl += bool(spec)
        if md != spec:
            ctx.violation(f"graph-model-vs-spec:{g}", {"adj": g, "model": md, "spec": spec},
                          f"Coq model of get_defective_nodes gives {md}, the reachability specification {spec} on {g}", no_input=True)
            continue
        if "exception" in r or "error" in r:
            ctx.violation(f"graph-exception:{g}", {"adj": g, "result": r}, f"Graph.get_defective_nodes failed on {g}: {r}")
            continue
        if r["stored"] != g:
            ctx.violation(f"graph-add-edge:{g}", {"adj": g, "stored": r["stored"]},
                          f"Graph.add_edge does not store the maximal label at adj[u][v]: asked {g}, stored {r['stored']}")
            continue
        if r["defective"] != spec:
            ctx.violation(f"graph-defective:{g}", {"adj": g, "polar": r["defective"], "model": md, "spec": spec},
                          f"Graph.get_defective_nodes on adjacency {g} returns {r['defective']}; nodes reachable from a cycle "
                          f"with a non-linear edge are {spec} (Coq model: {md})")
            continue
        ctx.coverage["discharged"] += 1
    ctx.coverage["graphs"] = {"compared": len(graphs), "with_defective_nodes": n_nl}


# ---- (e) the Coq worklist on Polar's flat programs -------------------------------------------------
def mono_of_dump(d):
    return {x: k for x, k in d[0][1]}


def worklist_part(ctx, cases):
    """cases: (text, flat dump, goal monomial dict, polar monomials [dict], symbols)"""
    files = []
    kept = []
    for j, (text, flat, m, pm, symbols) in enumerate(cases):
        try:
            fp = core.flat_coq(flat)
            T = core.types_coq(flat["types"])
        except core.NotModelled:
            continue
        fuel = len(pm) + 2
        body = core.WP_HEADER.replace("Wp Search", "Wp InClassWorklist")
        body += f"Definition fp0 : flatprog := {fp}.\nDefinition T0 : tenv := {T}.\n"
        body += (f"Eval vm_compute in (match recurrences_fp cm0 {fuel} fp0 T0 {P.mono_coq(m)} with "
                 f"Some sys => (true, map fst sys) | None => (false, []) end).\n")
        body += (f"Eval vm_compute in (match recurrences_fp cm0 {fuel} fp0 T0 {P.mono_coq(m)} with "
                 f"Some sys => universe_closedb (polar_step cm0 fp0 T0) (map fst sys) | None => false end).\n")
        # the simplest class: every variable of the flat program finitely typed
        nt = core.numeric_types(flat["types"])
        size = 1
        for vs in nt.values():
            size *= max(1, len(vs))
        allfin = set(flat["variables"]) <= set(nt) and not symbols and size <= 64
        if allfin:
            body += "Eval vm_compute in (universe_closedb (polar_step cm0 fp0 T0) (reduced_universe T0), prod_sizes T0).\n"
        files.append((f"wl_{j}", body))
        kept.append((text, m, pm, symbols, allfin, {x: vs[0] for x, vs in nt.items() if len(set(vs)) == 1}))
    outs = lib.coq_run_many(ctx, files, timeout=ctx.pick(75, 300))
    agree = 0
    n_fin = 0
    for (name, _), (text, m, pm, symbols, allfin, single) in zip(files, kept):
        ok, o = outs[name]
        o = re.sub(r"\s+", " ", o)
        mm = re.search(r"=\s*\((true|false),\s*(\[.*?\])\)\s*:\s*bool \* list", o, re.S) if ok else None
        closed = re.search(r"=\s*(true|false)\s*:\s*bool", o) if ok else None
        if not mm:
            ctx.coverage.setdefault("worklist_unevaluated", 0)
            ctx.coverage["worklist_unevaluated"] += 1
            continue
        sym = set(symbols)
        model_ms = set()
        for one in re.finditer(r"\[((?:\(\"[^\"]*\",\d+(?:%nat)?\);?)*)\]", re.sub(r"\s+", "", mm.group(2))[1:-1]):
            items = re.findall(r'\("([^"]*)",\s*(\d+)', one.group(1))
            if items:
                model_ms.add(tuple(sorted((x, int(k)) for x, k in items if x not in sym)))
        polar_ms = {tuple(sorted((x, k) for x, k in d.items() if x not in sym)) for d in pm}
        # a variable with a singleton type is a constant: the model reduces it away (x^k mod (x - v) = v^k), Polar's
        # Finite.reduce_power keeps the first power; compare modulo these constant factors
        def modulo_constants(ms):
            out = set()
            for mono_ in ms:
                if any(x in single and single[x] == 0 for x, _ in mono_):
                    continue
                out.add(tuple((x, k) for x, k in mono_ if x not in single))
            out.discard(())
            return out
        model_ms, polar_ms = modulo_constants(model_ms), modulo_constants(polar_ms)
        if mm.group(1) != "true":
            ctx.violation(f"worklist-model-fuel:{text}:{m}", {"program_text": text, "goal": m, "polar_monomials": sorted(polar_ms)},
                          f"Polar returned a system of {len(pm)} monomials for {m} but the Coq worklist does not terminate "
                          f"within {len(pm) + 2} steps on Polar's flat program", no_input=True)
            continue
        if model_ms != polar_ms:
            ctx.violation(f"worklist-monomials:{text}:{m}",
                          {"program_text": text, "goal": m, "polar_monomials": sorted(polar_ms), "model_monomials": sorted(model_ms)},
                          f"the monomials of Polar's system for {m} differ from the least closed set computed by the Coq worklist on "
                          f"Polar's flat program: only Polar {sorted(polar_ms - model_ms)}, only model {sorted(model_ms - polar_ms)}\n{text}",
                          no_input=True)
            continue
        ctx.coverage["obligations"] += 1
        if closed is None or closed.group(1) == "true":
            agree += 1
            ctx.coverage["discharged"] += 1
        else:
            ctx.violation(f"worklist-universe:{text}:{m}", {"program_text": text, "goal": m},
                          f"the system returned by the Coq worklist for {m} is not a closed universe (contradicts C18_returned_system_bounds_fuel)", no_input=True)
        fm = re.search(r"=\s*\((true|false),\s*(\d+)(?:%nat)?\)\s*:\s*bool \* nat", o) if allfin else None
        if allfin and fm is None:
            ctx.coverage.setdefault("worklist_unevaluated", 0)
            ctx.coverage["worklist_unevaluated"] += 1
        elif allfin:
            ctx.coverage["obligations"] += 1
            if fm.group(1) == "true":
                n_fin += 1
                ctx.coverage["discharged"] += 1
                if len(pm) > int(fm.group(2)):
                    ctx.violation(f"finite-class-bound:{text}:{m}", {"program_text": text, "goal": m, "bound": int(fm.group(2)), "system": len(pm)},
                                  f"Polar's system for {m} has {len(pm)} monomials, more than the bound prod |T x| = {fm.group(2)}\n{text}", no_input=True)
            else:
                ctx.violation(f"finite-class-universe:{text}", {"program_text": text, "log": o[-1500:]},
                              f"the universe of type-reduced monomials is not closed under get_recurrence (model) for the all-finite flat "
                              f"program of\n{text}", no_input=True)
    ctx.coverage["worklist_systems_agreeing"] = agree
    ctx.coverage["finite_class_universes_closed"] = n_fin


# ---- main ------------------------------------------------------------------------------------------
def goal_texts(p, rng):
    vs = P.prog_vars(p)
    ms = classgen.monomials(vs, 2, 12, rng)
    return ms, [gen.goal_text(m) for m in ms]


def n_assignments(p):
    """number of assignment statements of a source program (size measure for the time limits)"""
    def cnt(block):
        k = 0
        for st_ in block:
            if st_[0] == "assign":
                k += 1
            elif st_[0] == "simult":
                k += len(st_[1])
            elif st_[0] == "if":
                k += sum(cnt(b) for _, b in st_[1]) + (cnt(st_[2]) if st_[2] else 0)
        return k
    return cnt(p["init"]) + cnt(p["body"])


# A time-out is read as "does not terminate" only for programs small enough that the unchanged tree needs seconds
# (every hand-written shape has at most 12 assignments).  Polar's cost grows steeply with the number of branches
# (the 45-assignment all-finite program of the thorough tier needs 500 s per moment and DOES finish): beyond the
# bound a time-out is inconclusive, counted, never a verdict.
SMALL_PROGRAM = 14


def abstraction_fits(values_sym, exact_vals):
    """is there an assignment of constants in [0, 1] to the abstraction probabilities under which the symbolic values
    equal the exact ones at n = 0..N?  True / False / None (undecided: sympy could not solve)"""
    import sympy as sp
    eqs = []
    syms = set()
    for s, e in zip(values_sym, exact_vals):
        d = sp.sympify(s) - sp.Rational(e.numerator, e.denominator)
        d = sp.expand(d)
        if d == 0:
            continue
        if not d.free_symbols:
            return False
        syms |= d.free_symbols
        eqs.append(d)
    if not eqs:
        return True
    try:
        sols = sp.solve(eqs, sorted(syms, key=str), dict=True)
    except Exception:
        return None
    for sol in sols:
        vals = [sol.get(x) for x in syms]
        if all(val is None or (val.is_real and 0 <= val <= 1) or val.free_symbols for val in vals):
            return True
    return False


def run(ctx):
    ok, log = lib.coq_check_props(ctx)
    if not ok:
        ctx.violation("proof-broken", {"theorem": "props/C18.v", "log": log[-3000:]}, "props/C18.v no longer checks", no_input=True)
        return
    lib.coq_make(["theories/Search.vo", "theories/InClassWorklist.vo"])
    rng = ctx.rng
    timing = {"coq_props": round(ctx.elapsed(), 1)}
    t_ = time.time()
    n_in = ctx.pick(70, 560)
    n_out = ctx.pick(24, 120)
    N = 5
    cases = [(p, o, s, "in") for p, o, s in classgen.witnesses()]
    rd = lib.replay_data(ctx)
    if rd is not None:
        if "adj" in rd:
            graph_part(ctx, 0, only=rd["adj"])
            return
        if "prog_json" not in rd:
            ctx.violation("replay-not-replayable", {"file": ctx.replay}, "this replay file names a broken proof / correspondence, not an input", no_input=True)
            return
        cases = [(P.from_json(rd["prog_json"]), rd.get("options") or {}, rd.get("shape", "replay"), "in")]
        n_in = n_out = 0
    for i in range(n_in):
        p, o, s = classgen.IN_SHAPES[i % len(classgen.IN_SHAPES)](rng)
        cases.append((p, o, s, "in"))
    for i in range(n_out):
        p, o, s = classgen.OUT_SHAPES[i % len(classgen.OUT_SHAPES)](rng)
        cases.append((p, o, s, "out"))
    goals = [goal_texts(p, rng) for p, _, _, _ in cases]
    texts = [P.prog_text(p) for p, _, _, _ in cases]

    # class membership (Coq) in parallel with the Polar runs
    box = {}
    th = threading.Thread(target=lambda: box.update(cls=decide_class(ctx, [c[0] for c in cases])))
    th.start()
    tasks = [{"kind": "accept", "text": t, "opts": c[1], "goals": g[1], "nvals": N + 1, "timeout": 60}
             for t, c, g in zip(texts, cases, goals)]
    results = lib.run_tasks(tasks, timeout=60)
    # a time-out of a whole program: re-run the normalisation alone and every monomial alone (60 s each);
    # only a task that times out on its own is a time-out in the sense of the property
    slow = [i for i, r in enumerate(results) if r.get("error") == "timeout"][:ctx.pick(6, 40)]
    retry = [(i, None) for i in slow] + [(i, gi) for i in slow for gi in range(len(goals[i][1]))]
    rres = lib.run_tasks([{"kind": "accept", "text": texts[i], "opts": cases[i][1], "goals": [] if gi is None else [goals[i][1][gi]],
                           "nvals": N + 1, "timeout": 60} for i, gi in retry], timeout=60) if retry else []
    n_slow_resolved = 0
    for i in slow:
        base = [rr for (ii, gi), rr in zip(retry, rres) if ii == i and gi is None][0]
        if "goals" not in base:
            if "error" not in base:
                results[i] = base          # an exception of the normalisation
            continue
        merged = dict(base)
        merged["goals"] = []
        for (ii, gi), rr in zip(retry, rres):
            if ii == i and gi is not None:
                if rr.get("goals"):
                    merged["goals"].append(rr["goals"][0])
                else:
                    merged["goals"].append({"goal": goals[i][1][gi], "timeout": True, "detail": rr.get("error") or rr.get("exception")})
        results[i] = merged
        n_slow_resolved += 1
    th.join()
    timing["polar_and_class"] = round(time.time() - t_, 1)
    t_ = time.time()
    cls = box.get("cls") or [None] * len(cases)

    # exact oracle for every program with at least one numeric result
    ocases, omap = [], []
    for i, (c, r) in enumerate(zip(cases, results)):
        if "goals" in r and classgen.is_discrete(c[0]) and any("values" in g for g in r["goals"]):
            ocases.append((c[0], goals[i][0], N))
            omap.append(i)
    exact = dict(zip(omap, oracle.exact_moments(ctx, ocases, timeout=200))) if ocases else {}

    timing["oracle"] = round(time.time() - t_, 1)
    t_ = time.time()
    shape_stat = {}
    exc_hist = {}
    class_stat = {"in_class": 0, "out_of_class": 0, "undecided": 0, "in-stream-not-in_class": 0, "out-stream-in_class": 0}
    part_fail = {}
    n_values_ok = 0
    wl_cases = []
    attributed_cache = {}

    def bump(d, k):
        d[k] = d.get(k, 0) + 1

    for i, ((p, opts, shape, stream), r) in enumerate(zip(cases, results)):
        text = texts[i]
        cl = cls[i]
        if cl is None:
            bump(class_stat, "undecided")
            inclass = False
        else:
            inclass = all(cl["parts"])
            bump(class_stat, "in_class" if inclass else "out_of_class")
            if stream == "in" and not inclass:
                bump(class_stat, "in-stream-not-in_class")
                for name, b in zip(PARTS, cl["parts"]):
                    if not b:
                        bump(part_fail, f"{shape}:{name}")
            if stream == "out" and inclass:
                bump(class_stat, "out-stream-in_class")
        st = shape_stat.setdefault(shape, {"programs": 0, "in_class": 0, "accepted": 0, "monomials": 0, "closed_forms": 0,
                                           "refused_known": 0, "refused_other": 0, "timeouts": 0})
        st["programs"] += 1
        st["in_class"] += bool(inclass)
        ms, gts = goals[i]
        ctx.count({"t": text, "o": opts}, nontrivial=shape not in ("generic",) or len(ms) > 2)
        replay = {"program_text": text, "prog_json": P.to_json(p), "options": opts, "shape": shape, "in_class": inclass,
                  "in_class_parts": dict(zip(PARTS, cl["parts"])) if cl else None}

        # -- whole-program outcomes
        if r.get("error") == "timeout":
            st["timeouts"] += 1
            bump(exc_hist, "timeout")
            if inclass and n_assignments(p) <= 2 * SMALL_PROGRAM:
                ctx.violation(f"timeout:{text}", replay, f"in-class program ({shape}): normalisation alone does not finish within 60 s\n{text}")
            elif inclass:
                st["slow_inconclusive"] = st.get("slow_inconclusive", 0) + 1
            continue
        if "error" in r:
            bump(exc_hist, "worker-" + r["error"])
            ctx.violation(f"worker:{r['error']}:{text}", replay, f"the Polar worker died ({r['error']}) on\n{text}", no_input=True)
            continue
        if "exception" in r:
            e = r["exception"]
            bump(exc_hist, f"{e['etype']}@{e['raiser']}")
            if inclass:
                sig = refusal_signature(p, opts, text, None, r["stage"], e)
                st["refused_known" if sig in KNOWN_SHAPES else "refused_other"] += 1
                ctx.violation(sig, dict(replay, stage=r["stage"], exception=e),
                              f"program inside the documented class ({shape}) refused by {r['stage']}: {e['etype']} in {e['raiser']}: {e['msg']}\n{text}")
            continue
        st["accepted"] += 1
        if inclass and r.get("abstracted"):
            found, uncond = classgen.self_updating_reassignment(p)
            sig = (K21 if uncond else K22) if found else f"abstracted-condition:{text}"
            ctx.violation(sig, dict(replay, abstracted=r["abstracted"]),
                          f"a condition of a program inside the documented class ({shape}) is abstracted by a Bernoulli with an unknown "
                          f"probability {r['abstracted']}: every result is partial (symbolic in _prob)\n{text}")

        # -- acceptance-level correspondences
        if cl is not None:
            polar_def = set(r["defective"]) & set(P.prog_vars(p))
            if not polar_def <= set(cl["defective"]):
                untyped_t = any(re.fullmatch(r"_t\d+", x) and x not in r["finite_variables"] for x in r["variables"])
                k20b = untyped_t and classgen.simult_in_branch_assigns_condition_variable(p, among=cl["typed"])
                ctx.violation(K20B if k20b else f"defective-vars:{text}", dict(replay, polar_defective=sorted(polar_def), model_defective=cl["defective"]),
                              f"Polar classifies {sorted(polar_def - set(cl['defective']))} as defective, the model of the dependency graph "
                              f"on the source program does not\n{text}", no_input=True)
        ex = exact.get(i)
        for gi, gr in enumerate(r["goals"]):
            gname = gr["goal"]
            st["monomials"] += 1
            if gr.get("timeout"):
                st["timeouts"] += 1
                bump(exc_hist, "timeout")
                if inclass and n_assignments(p) <= SMALL_PROGRAM:
                    ctx.violation(f"timeout:{text}:{gname}", dict(replay, goal=gname),
                                  f"E({gname}) of an in-class program ({shape}) is not analysed within 60 s\n{text}")
                elif inclass:
                    st["slow_inconclusive"] = st.get("slow_inconclusive", 0) + 1
                continue
            if "refused" in gr:
                bump(exc_hist, "not-effective(solvability_check)")
                if inclass:
                    untyped_t = any(re.fullmatch(r"_t\d+", x) and x not in r["finite_variables"] for x in r["variables"])
                    k20b = cl is not None and untyped_t and classgen.simult_in_branch_assigns_condition_variable(p, among=cl["typed"])
                    st["refused_known" if k20b else "refused_other"] += 1
                    ctx.violation(K20B if k20b else f"not-effective:{text}:{gname}", dict(replay, goal=gname, defective=r["defective"]),
                                  f"E({gname}) is refused as not effective although the program is in the class (no non-linear cycle)\n{text}")
                continue
            if "exception" in gr:
                e = gr["exception"]
                bump(exc_hist, f"{e['etype']}@{e['raiser']}")
                if inclass:
                    sig = refusal_signature(p, opts, text, gname, gr["stage"], e)
                    st["refused_known" if sig in KNOWN_SHAPES else "refused_other"] += 1
                    ctx.violation(sig, dict(replay, goal=gname, stage=gr["stage"], exception=e),
                                  f"E({gname}) of a program inside the documented class ({shape}) refused by {gr['stage']}: "
                                  f"{e['etype']} in {e['raiser']}: {e['msg']}\n{text}")
                continue
            st["closed_forms"] += 1
            # (c) the system is closed
            bad = system_not_closed(gr, r["symbols"])
            ctx.coverage["obligations"] += 1
            if bad:
                ctx.violation(f"partial-system:{text}:{gname}", dict(replay, goal=gname, rec_dict=gr.get("rec_dict")),
                              f"the recurrence system Polar returned for E({gname}) is not closed: {bad}\n{text}")
                continue
            ctx.coverage["discharged"] += 1
            if "rec_dict" in gr and "unsupported" not in r["flat"] and gi < 2 \
                    and classgen.is_discrete(p) and not r["abstracted"]:
                try:
                    wl_cases.append((shape, (text, r["flat"], ms[gi], [mono_of_dump(k) for k, _ in gr["rec_dict"]], r["symbols"])))
                except Exception:
                    pass
            # (b) a result must be right
            if ex is not None and "values_sym" in gr and "values" not in gr:
                # result symbolic in the probabilities of abstracted conditions: SOME constant probabilities must fit
                fit = abstraction_fits(gr["values_sym"], [ex[n][gi] for n in range(N + 1)])
                ctx.coverage["obligations"] += 1
                if fit is False:
                    ctx.violation(f"wrong-result:abstraction-no-constant-probability:{text}:{gname}",
                                  dict(replay, goal=gname, closed_form=gr["sol"], abstracted=r["abstracted"], values_in_prob=gr["values_sym"][:N + 1],
                                       reference_values=[str(ex[n][gi]) for n in range(N + 1)], flat_program=r.get("flat_text")),
                                  f"E({gname}): Polar returned {gr['sol']} with {r['abstracted']}; no constant value of the abstraction "
                                  f"probabilities reproduces the exact expectations {[str(ex[n][gi]) for n in range(N + 1)]} "
                                  f"({'in-class' if inclass else 'out-of-class'} program, shape {shape})\n{text}")
                else:
                    ctx.coverage["discharged"] += 1
                    st["abstraction_fits"] = st.get("abstraction_fits", 0) + 1
                continue
            if ex is None or "values" not in gr:
                continue
            badn = None
            for n in range(N + 1):
                s = gr["values"][n]
                if s.startswith("~"):
                    continue
                if Fraction(s) != ex[n][gi]:
                    badn = (n, Fraction(s), ex[n][gi])
                    break
            if badn is None:
                n_values_ok += 1
                ctx.sample({"program": text, "shape": shape, "in_class": inclass, "goal": f"E({gname})", "closed_form": gr["sol"],
                            "exact_moments_n0..": [str(ex[n][gi]) for n in range(N + 1)]})
                continue
            if i not in attributed_cache:
                attributed_cache[i] = ("unsupported" not in r["flat"]) and c01.attribute_to_typer(ctx, r["flat"], r.get("original_loop_guard"))
            sig = c05.KNOWN_SITE if attributed_cache[i] else f"wrong-result:{text}:{gname}"
            ctx.violation(sig, dict(replay, goal=gname, n=badn[0], polar_value=str(badn[1]), reference_value=str(badn[2]),
                                    closed_form=gr["sol"], flat_program=r.get("flat_text")),
                          f"E({gname}): Polar returned the closed form {gr['sol']} which gives {badn[1]} at n={badn[0]}; the exact "
                          f"expectation is {badn[2]} ({'in-class' if inclass else 'out-of-class'} program, shape {shape})\n{text}")

    # every known defect must have been re-found by its minimal witness (or be repaired)
    wit = classgen.witnesses()
    refound = {k: (k in ctx.known_hits) for k in KNOWN_SHAPES}
    ctx.coverage["known_defects_refound"] = {k.split(":")[-1]: v for k, v in refound.items()}

    timing["analysis"] = round(time.time() - t_, 1)
    t_ = time.time()
    if rd is None:
        graph_part(ctx, ctx.pick(60, 600))
    timing["graphs"] = round(time.time() - t_, 1)
    t_ = time.time()
    small = lambda c: len(c[1]["body"]) <= ctx.pick(7, 10)       # Coq's list-based polynomial arithmetic is slow on long bodies
    fin = [c for sh, c in wl_cases if sh == "all-finite" and small(c)][:ctx.pick(5, 40)]
    oth = [c for sh, c in wl_cases if sh != "all-finite" and len(c[1]["body"]) <= 12]
    rng.shuffle(oth)
    worklist_part(ctx, fin + oth[:ctx.pick(14, 100)])
    timing["worklist"] = round(time.time() - t_, 1)
    ctx.coverage["timing_s"] = timing

    for st in shape_stat.values():
        st["acceptance_rate"] = round(st["accepted"] / st["programs"], 3) if st["programs"] else None
        st["closed_form_rate"] = round(st["closed_forms"] / st["monomials"], 3) if st["monomials"] else None
    ctx.coverage["rule"] = ("programs from harness/classgen.py: 9 minimal witnesses + 15 in-class shapes (constants in conditions, nested branches "
                            "reassigning their condition variables, non-integer finite values, goals over loop constants, simultaneous assignment in "
                            "branches, categorical expansion in a branch, multiple assignment of finite variables, guards, linear cycles, acyclic "
                            "non-linear dependencies, variable location parameters, 3..6-valued finite variables, all-finite programs, gen.G programs) + 7 out-of-class shapes; class membership = "
                            "InClass.in_class evaluated in the kernel; all monomials of degree <= 2 over the source variables (<= 12 per program); "
                            f"time limit 60 s per program; closed forms vs exact moments under Sem.run for n <= {N}; distinct by (text, options); "
                            "non-trivial = named shape or > 2 monomials; plus random labelled graphs (<= 7 nodes) and Polar-built systems for the worklist model")
    ctx.coverage["programs_over_60s_in_total_rerun_per_monomial"] = n_slow_resolved
    ctx.coverage["per_shape"] = shape_stat
    ctx.coverage["class_decision"] = class_stat
    ctx.coverage["in_stream_rejected_by_in_class_because"] = part_fail
    ctx.coverage["exception_histogram"] = exc_hist
    ctx.coverage["closed_forms_agreeing_with_reference"] = n_values_ok
    ctx.coverage["programs_with_exact_reference"] = sum(1 for v_ in exact.values() if v_ is not None)
    ctx.coverage["trusted_base"] += ["harness/progast.py printers (the same AST is printed as Polar text and as a Coq term of type Syntax.prog)",
                                     "harness/tasks_core.classify_exception (type and innermost non-harness frame of the traceback)",
                                     "InClass.in_class is a decidable SUFFICIENT condition for the README's restrictions (value analysis proved sound at "
                                     "loop heads, C18_value_analysis_sound; a too-large class would show up as legitimate refusals reported as violations)"]
    ctx.assumptions += ["programs and monomials are sampled; acceptance of ALL in-class programs is not a theorem (no Coq model of the nine passes); "
                        "what is proved for all inputs: the graph model, the worklist closure/termination-in-a-closed-universe, the atom/constant models",
                        f"'a refusal is never a wrong result' is tested against the exact semantics for n <= {N} on finite discrete programs; "
                        "continuous and symbolic results are only checked for being produced",
                        "a time-out (60 s) on an out-of-class program counts as 'no result', on an in-class program as a violation"]
