"""C05 — inferred finite types contain every value a variable can ever take.

proof : props/C05.v (check_types_sound, pointwise version) — acceptance by the executable
        validator implies typedness of every reachable state in every iteration.
tie   : Polar's own flat program and Polar's own typedefs (after normalize_program, for
        several fixed-point budgets) are fed to the validator, evaluated by the Coq kernel.
search: exact enumeration of the reachable states of the flat program (Sem.frun) to depth N,
        looking for a value outside its type."""
import re
from fractions import Fraction

import lib
import core
import gen
import progast as P


def run_polar(ctx, progs, budgets):
    tasks = []
    meta = []
    for i, (p, goals, tag) in enumerate(progs):
        for b in budgets:
            tasks.append({"kind": "analyze", "text": P.prog_text(p), "goals": [], "solve": False, "snapshots": True,
                          "opts": {"type_fp_iterations": b}, "timeout": 60})
            meta.append((i, b))
    return meta, lib.run_tasks(tasks, timeout=60)


def parse_search(out):
    """output of Eval type_search: list (per n) of list of (var, (num, den))"""
    m = re.search(r"=\s*(\[.*\])\s*:\s*list \(list \(var \* \(Z \* positive\)\)\)", out, re.S)
    if not m:
        return None
    txt = re.sub(r"\((-\d+)\)", r"\1", m.group(1).replace("%Z", "").replace("%positive", "").replace("%string", ""))
    rows, depth, cur = [], 0, None
    for tok in re.finditer(r'\[|\]|\(\s*"([^"]*)"\s*,\s*\(\s*(-?\d+)\s*,\s*(\d+)\s*\)\s*\)', txt):
        t = tok.group(0)
        if t == "[":
            depth += 1
            if depth == 2:
                cur = []
        elif t == "]":
            if depth == 2:
                rows.append(cur)
            depth -= 1
        else:
            cur.append((tok.group(1), Fraction(int(tok.group(2)), int(tok.group(3)))))
    return rows


def implied(c, G):
    """harness-side reading of 'condition is implied by the loop guard' (mirrors
    Condition.is_implied_by_loop_guard incl. And/Or looking at their first operand only)"""
    if c == ["true"]:
        return True
    if G is not None and G != ["true"] and c == G:
        return True
    if c[0] in ("and", "or"):
        return implied(c[1], G)
    return False


KNOWN_SITE = "Assignment.get_support:default-dropped-when-condition-implied-by-loop-guard"


def run(ctx):
    ok, log = lib.coq_check_props(ctx)
    if not ok:
        ctx.violation("proof-broken", {"theorem": "props/C05.v", "log": log[-3000:]}, "props/C05.v no longer checks", no_input=True)
        return
    lib.coq_make(["theories/Search.vo"])
    n_prog = ctx.pick(60, 600)
    budgets = ctx.pick([100, 3], [100, 1, 2, 3, 5])
    depth = ctx.pick(5, 7)
    progs = lib.replay_programs(ctx) or (list(gen.corpus()) + list(gen.types_corpus()))
    feats = {}
    while len(progs) < n_prog and not ctx.replay:
        g = gen.G(ctx.rng, guard=(ctx.rng.random() < 0.7), allow_nested_reassign=False, rational=(len(progs) % 4 == 3))
        p = g.program()
        progs.append((p, [], "+".join(sorted(g.features))))
    meta, results = run_polar(ctx, progs, budgets)
    cases = []
    errs = {}
    for (i, b), r in zip(meta, results):
        p, _, tag = progs[i]
        for f in tag.split("+"):
            feats[f] = feats.get(f, 0) + 1
        if "error" in r or "exception" in r:
            k = r.get("error") or r["exception"]["etype"]
            errs[k] = errs.get(k, 0) + 1
            continue
        flat = r.get("flat", {})
        if "unsupported" in flat:
            errs["unsupported-dump"] = errs.get("unsupported-dump", 0) + 1
            continue
        try:
            term = f"(check_types {core.flat_coq(flat)} {core.types_coq(flat['types'])})"
            G = r.get("original_loop_guard")
            drops = ["true" if implied(a["cond"], G) and a["default"] != a["var"] else "false" for a in flat["body"]]
            term2 = f"(check_types_drop {core.flat_coq(flat)} {P.lst(drops)} {core.types_coq(flat['types'])})"
        except core.NotModelled as e:
            errs["not-modelled"] = errs.get("not-modelled", 0) + 1
            continue
        cases.append({"i": i, "budget": b, "flat": flat, "term": term, "term2": term2, "text": P.prog_text(p), "tag": tag,
                      "pj": P.to_json(p),
                      "flat_text": r.get("flat_text")})
    files = []
    per = 10
    for j in range(0, len(cases), per):
        body = core.FLAT_HEADER
        chunk = cases[j:j + per]
        for k, c in enumerate(chunk):
            body += f"Definition c{k} : bool := {c['term']}.\n"
        body += "Eval vm_compute in [" + "; ".join(f"c{k}" for k in range(len(chunk))) + "].\n"
        files.append((f"c05_{j // per}", body))
    outs = lib.coq_run_many(ctx, files)
    rejected = []
    for j in range(0, len(cases), per):
        okc, o = outs[f"c05_{j // per}"]
        bl = lib.parse_bool_list(o) if okc else None
        chunk = cases[j:j + per]
        for k, c in enumerate(chunk):
            ctx.coverage["obligations"] += 1
            ntyped = len(core.numeric_types(c["flat"]["types"]))
            ctx.count({"t": c["text"], "b": c["budget"]}, nontrivial=ntyped >= 2)
            if not okc and o.startswith("TIMEOUT"):
                ctx.coverage["obligations"] -= 1
                ctx.coverage["validator_time_limit"] = ctx.coverage.get("validator_time_limit", 0) + 1
            elif bl is None or len(bl) != len(chunk):
                c["status"] = "coq-error"
                c["why"] = o[-800:]
                rejected.append(c)
            elif bl[k]:
                ctx.coverage["discharged"] += 1
                ctx.sample({"program": c["text"], "flat": c["flat_text"], "fp_iterations": c["budget"],
                            "validator": "check_types accepted => typed in all iterations"})
            else:
                c["status"] = "rejected"
                rejected.append(c)
    # search for a concrete value outside its type; attribute to the known call site iff the
    # types are a post-fixpoint of the transfer function that drops guard-implied defaults
    sfiles = []
    for k, c in enumerate(rejected):
        body = core.FLAT_HEADER.replace("Sem Types", "Sem Types Search")
        body += f"Eval vm_compute in [{c['term2']}].\n"
        sfiles.append((f"a05_{k}", body))
        vs = sorted({a["var"] for a in c["flat"]["init"] + c["flat"]["body"]})
        vl = P.lst(['"%s"' % v for v in vs])
        body = core.FLAT_HEADER.replace("Sem Types", "Sem Types Search")
        body += f"Eval vm_compute in (type_search {vl} {core.flat_coq(c['flat'])} {core.types_coq(c['flat']['types'])} {depth}).\n"
        sfiles.append((f"s05_{k}", body))
    souts = lib.coq_run_many(ctx, sfiles, timeout=120)
    for k, c in enumerate(rejected):
        okc, o = souts[f"s05_{k}"]
        oka, oa = souts[f"a05_{k}"]
        rows = parse_search(o) if okc else None
        bl2 = lib.parse_bool_list(oa) if oka else None
        at_known_site = bool(bl2 and bl2[0])
        wit = None
        if rows:
            for n, row in enumerate(rows):
                if row:
                    wit = (n, row[0][0], row[0][1])
                    break
        if wit:
            n, x, v = wit
            sig = KNOWN_SITE if at_known_site else f"untyped-value:{c['text']}"
            new = ctx.violation(sig, {"program_text": c["text"], "prog_json": c["pj"], "flat_program": c["flat_text"], "variable": x, "value": str(v),
                                      "iteration": n, "types": c["flat"]["types"], "fp_iterations": c["budget"]},
                                f"variable {x} holds {v} after {n} iterations, outside its inferred type "
                                f"{dict((a, b) for a, b in c['flat']['types']).get(x)} (fp_iterations={c['budget']})")
            if not new:
                ctx.coverage["discharged"] += 1
        elif at_known_site:
            # sound but not provable by the flow-insensitive validator at the known call site:
            # not a theorem instance, not an alarm
            ctx.coverage["obligations"] -= 1
            ctx.coverage["unvalidated_at_known_site"] = ctx.coverage.get("unvalidated_at_known_site", 0) + 1
        else:
            ctx.violation(f"types-not-validated:{c['text']}", {"program_text": c["text"], "prog_json": c["pj"], "flat_program": c["flat_text"],
                                                                "types": c["flat"]["types"], "status": c["status"], "why": c.get("why")},
                          f"check_types {c['status']} Polar's types but no reachable state within {depth} iterations is outside them",
                          no_input=True)
    # the MODEL of the typer algorithm (Typer.typer_run; props/C05_Typer.v: its result is a post-fixpoint of the sound transfer
    # function) evaluated in the kernel on the snapshot before TypeInferer and compared with Polar's inferred types
    if not ctx.replay:
        ok2, log2 = lib.coq_check_props(ctx, prop="C05_Typer")
        if not ok2:
            ctx.violation("proof-broken:C05_Typer", {"theorem": "props/C05_Typer.v", "log": log2[-3000:]}, "props/C05_Typer.v no longer checks", no_input=True)
        else:
            import typer_model
            typer_model.run_model(ctx, [{"text": P.prog_text(progs[i][0]), "opts": {"type_fp_iterations": b}, "snapshots": r.get("snapshots") or []}
                                        for (i, b), r in zip(meta, results) if "error" not in r])
    ctx.coverage["rule"] = ("programs from harness/gen.py (acceptance-aware: finite variables in conditions, guards, nested if/elif/else, "
                            "multi-assignment, simultaneous assignment, draws) plus the hand-written corpus, each normalised by Polar under "
                            f"type_fp_iterations in {budgets}; non-trivial = at least 2 typed variables; distinct by (text, budget)")
    ctx.coverage["feature_histogram"] = feats
    ctx.coverage["polar_errors"] = errs
    ctx.coverage["accepted_by_polar"] = len(cases)
    ctx.coverage["trusted_base"] += ["harness/tasks_core.py structural dump of Polar's flat program and typedefs (reads the real objects)"]
    ctx.assumptions += ["types for symbolic (non-numeric) value sets are dropped by Polar and not validated",
                        "programs with continuous draws / Sin,Cos,Exp assignments: those variables are untyped and skipped"]
