"""C09 — moments after termination equal the expectation at loop exit.

proof : props/C09.v — about the reference semantics Sem.v, for all programs / n / states: the
        state is frozen once the guard is false, paths stopped at time n contribute exactly
        their exit state to every later law, the stopped mass is monotone, the ratio
        E[M 1_stopped]/P(stopped) is the expectation under the conditional law; on flat
        programs with validated types the moments of M*arith(not G') are E[M 1_{not G'}]
        (cond_moment_exact); validator check_exit (all n) for Polar's numerator/denominator
        closed forms; geom_limit (Coquelicot) for the limit; collapse_guard_refuted.
tie   : generated guarded programs are run through the REAL --after_loop path in a Polar worker
        (harness/tasks_afterloop.py).  (a) the conditional sequence returned by
        cli.common.get_moment_given_termination / get_all_moments_given_termination is compared
        with the exact conditional moments of the SOURCE program under Sem.run (Coq, vm_compute,
        harness-independent of Polar) for n <= N; numerator/denominator closed forms are
        validated for ALL n by AfterLoop.check_exit on Polar's flat program, types, systems and
        closed forms; (b) the printed after-loop value is compared with the limit implied by the
        validated closed forms when they have the shape of AfterLoopLimit (decaying bases), and
        with exact values at larger n otherwise (validation).
search: the same comparison: first (program, goal, n) where Polar's value differs from the
        exact one."""
from fractions import Fraction
import math
import re

import lib
import core
import gen
import exppoly
import progast as P

KNOWN_COLLAPSE = "after_loop:conditions-on-collapsed-guard"
KNOWN_NO_LIMIT = "after_loop:limit-not-taken:integer-symbol-n"


# ---- programs ---------------------------------------------------------------------------
def c(q):
    return P.const(Fraction(q))


v = P.var


def asg(x, e):
    return ("assign", x, P.det(e))


def bern(x, p):
    return ("assign", x, ("draw", ("bern", c(p))))


def choice(x, alts):
    return ("assign", x, ("choice", [(c(p), e) for p, e in alts]))


def eq(x, k):
    return ("atom", v(x), "==", c(k))


def shapes():
    """hand-written shapes named by the property: guards over one/two finite variables, guard
    combined with a first-level if (collapse), a.s. termination and termination with
    probability < 1, exit expectations that are finite, constant, or divergent.
    Each entry: (program, goals, tag); goals are ('E', mono) | ('c', k, mono) | ('k', k, mono)"""
    out = []
    F = Fraction
    # geometric stop, counter
    out.append(({"types": [], "init": [asg("x", c(0)), asg("y", c(0))], "guard": eq("x", 0),
                 "body": [bern("x", F(1, 2)), asg("y", ("add", v("y"), c(1)))]},
                [("E", {"y": 1}), ("E", {"y": 2}), ("c", 2, {"y": 1}), ("k", 2, {"y": 1}), ("E", {"x": 1})], "geometric+counter"))
    # the collapse witness of DESIGN section 6 (#10)
    out.append(({"types": [], "init": [asg("x", c(0)), bern("c", F(1, 2))], "guard": eq("x", 0),
                 "body": [("if", [(eq("c", 1), [bern("x", F(1, 2))])], None)]},
                [("E", {"x": 1}), ("E", {"c": 1})], "collapse-witness"))
    # its non-collapsed twin: terminates with probability 1/2
    out.append(({"types": [], "init": [asg("x", c(0)), asg("y", c(0)), bern("c", F(1, 2))], "guard": eq("x", 0),
                 "body": [asg("y", ("add", v("y"), c(1))), ("if", [(eq("c", 1), [bern("x", F(1, 2))])], None)]},
                [("E", {"x": 1}), ("E", {"y": 1}), ("E", {"c": 1}), ("c", 2, {"y": 1})], "terminates-with-prob-1/2"))
    # collapse with a second shape: nested single ifs
    out.append(({"types": [], "init": [asg("x", c(0)), bern("c", F(1, 3)), bern("d", F(1, 2))], "guard": eq("x", 0),
                 "body": [("if", [(eq("c", 1), [("if", [(eq("d", 1), [bern("x", F(1, 2))])], None)])], None)]},
                [("E", {"x": 1})], "collapse-nested"))
    # guard over two variables
    out.append(({"types": [], "init": [asg("x", c(0)), asg("z", c(0)), asg("y", c(0))],
                 "guard": ("not", ("and", eq("x", 1), eq("z", 1))),
                 "body": [bern("x", F(1, 2)), bern("z", F(1, 3)), asg("y", ("add", v("y"), v("x")))]},
                [("E", {"y": 1}), ("E", {"x": 1, "z": 1}), ("k", 2, {"y": 1})], "two-variable-guard"))
    out.append(({"types": [], "init": [asg("x", c(0)), bern("z", F(1, 2)), asg("y", c(1))],
                 "guard": ("and", eq("x", 0), eq("z", 1)),
                 "body": [bern("x", F(1, 4)), asg("y", ("add", v("y"), c(2)))]},
                [("E", {"y": 1}), ("E", {"y": 1, "z": 1}), ("c", 2, {"y": 1})], "two-variable-guard+stopped-at-0"))
    # guard with an inequality over a three-valued variable, two-stage chain (n*r^n terms)
    out.append(({"types": [], "init": [asg("s", c(0)), asg("y", c(0))], "guard": ("atom", v("s"), "<", c(2)),
                 "body": [asg("y", ("add", v("y"), v("s"))),
                          ("if", [(eq("s", 0), [choice("s", [(F(1, 2), c(1)), (F(1, 2), c(0))])])],
                           [choice("s", [(F(1, 2), c(2)), (F(1, 2), c(1))])])]},
                [("E", {"y": 1}), ("E", {"s": 1}), ("E", {"y": 2})], "inequality-guard+two-stage"))
    # already stopped at the start with probability 1/2
    out.append(({"types": [], "init": [bern("x", F(1, 2)), asg("y", c(0))], "guard": eq("x", 0),
                 "body": [bern("x", F(1, 3)), asg("y", ("add", v("y"), c(2)))]},
                [("E", {"y": 1}), ("c", 2, {"y": 1}), ("E", {"x": 1, "y": 1})], "stopped-at-0-with-prob-1/2"))
    # exit value depends on the exit state (non-constant exit expectation)
    out.append(({"types": [], "init": [asg("s", c(0)), asg("y", c(0))], "guard": eq("s", 0),
                 "body": [choice("s", [(F(1, 2), c(0)), (F(1, 6), c(1)), (F(1, 3), c(2))]), asg("y", ("add", v("y"), v("s")))]},
                [("E", {"s": 1}), ("E", {"s": 2}), ("c", 2, {"s": 1}), ("E", {"y": 1})], "exit-state-dependent"))
    # divergent exit expectations
    out.append(({"types": [], "init": [asg("x", c(0)), asg("y", c(1))], "guard": eq("x", 0),
                 "body": [asg("y", ("mul", c(2), v("y"))), bern("x", F(1, 2))]},
                [("E", {"y": 1})], "divergent-linear"))
    out.append(({"types": [], "init": [asg("x", c(0)), asg("y", c(1))], "guard": eq("x", 0),
                 "body": [asg("y", ("mul", c(3), v("y"))), bern("x", F(1, 2))]},
                [("E", {"y": 1})], "divergent-geometric"))
    out.append(({"types": [], "init": [asg("x", c(0)), asg("y", c(1))], "guard": eq("x", 0),
                 "body": [asg("y", ("mul", c(F(3, 2)), v("y"))), bern("x", F(1, 2))]},
                [("E", {"y": 1}), ("E", {"y": 2})], "finite-mean-divergent-second-moment"))
    # never terminates once started / guard false from the start
    out.append(({"types": [], "init": [bern("x", F(1, 3)), asg("y", c(0))], "guard": eq("x", 0),
                 "body": [asg("y", ("add", v("y"), c(1)))]},
                [("E", {"y": 1}), ("E", {"x": 1})], "guard-variable-never-changes"))
    return out


def goal_text(g):
    if g[0] == "E":
        return f"E({gen.goal_text(g[1])})"
    return f"{g[0]}{g[1]}({gen.goal_text(g[2])})"


def goal_mono(g):
    return g[1] if g[0] == "E" else g[2]


def goal_order(g):
    return 1 if g[0] == "E" else g[1]


def mono_pow(m, i):
    return {x: k * i for x, k in m.items()}


# ---- exact oracle (Coq) --------------------------------------------------------------------
def oracle_file(p, ms, N, cross=2):
    body = P.COQ_HEADER.replace("Syntax Sem", "Syntax Sem Types Search AfterLoop")
    vs = P.prog_vars(p)
    body += f"Definition p0 : prog := {P.prog_coq(p)}.\n"
    body += f"Definition ms0 : list mono := {P.lst([P.mono_coq(m) for m in ms])}.\n"
    vl = P.lst(['"%s"' % x for x in vs])
    body += f"Eval vm_compute in (exit_moments {vl} p0 ms0 {N}).\n"
    body += f"Eval vm_compute in (exit_moments_plain p0 ms0 {min(cross, N)}).\n"
    return body


def exact_exit_moments(ctx, cases, timeout=300):
    """cases: [(prog, [mono], N)] -> per case rows[n] = [P(stopped)_n, E[m_1; stopped]_n, ...] or None"""
    import oracle
    files = [(f"exit_{j}", oracle_file(p, ms, N)) for j, (p, ms, N) in enumerate(cases)]
    outs = lib.coq_run_many(ctx, files, timeout=timeout)
    res = []
    for j, (p, ms, N) in enumerate(cases):
        ok, o = outs[f"exit_{j}"]
        rs = oracle.parse_results(o) if ok else []
        if len(rs) != 2 or len(rs[0]) != N + 1 or any(len(r) != len(ms) + 1 for r in rs[0]):
            res.append(None)
            continue
        if rs[0][:len(rs[1])] != rs[1]:
            raise RuntimeError("oracle self-check failed: compacted and plain semantics disagree on\n" + P.prog_text(p))
        res.append(rs[0])
    return res


# ---- statistics conversions, independent of Polar (exact) -------------------------------------
def central_from_raw(m, k):
    """m: dict order -> raw moment (m[0] = 1); k-th central moment by the binomial formula"""
    mu = m[1]
    return sum(math.comb(k, j) * m[j] * (-mu) ** (k - j) for j in range(k + 1))


def cumulant_from_raw(m, k):
    """moment-cumulant recursion kappa_n = m_n - sum_{j=1}^{n-1} C(n-1, j-1) kappa_j m_{n-j}"""
    kap = {}
    for n in range(1, k + 1):
        kap[n] = m[n] - sum(math.comb(n - 1, j - 1) * kap[j] * m[n - j] for j in range(1, n))
    return kap[k]


def convert(kind, order, raws):
    m = dict(raws)
    m[0] = Fraction(1)
    if kind == "E":
        return m[1]
    if kind == "c":
        return central_from_raw(m, order)
    return cumulant_from_raw(m, order)


def parse_val(s):
    if s is None or s.startswith("~") or s.startswith("!") or s.startswith("?"):
        return None
    return Fraction(s)


# ---- Polar's dumps -> Coq terms for AfterLoop.check_exit -------------------------------------
def rename_cond(c, ren):
    def rexpr(d):
        return [[co, [[ren.get(x, x), k] for x, k in mon]] for co, mon in d]
    k = c[0]
    if k in ("true", "false"):
        return [k]
    if k == "atom":
        return ["atom", rexpr(c[1]), c[2], rexpr(c[3])]
    if k == "not":
        return ["not", rename_cond(c[1], ren)]
    return [k, rename_cond(c[1], ren), rename_cond(c[2], ren)]


def cond_dump_vars(c):
    k = c[0]
    if k in ("true", "false"):
        return set()
    if k == "atom":
        return {x for d in (c[1], c[3]) for _, mon in d for x, _ in mon}
    if k == "not":
        return cond_dump_vars(c[1])
    return cond_dump_vars(c[1]) | cond_dump_vars(c[2])


def old_copies(flat):
    """{aux: source variable} for the copies `_oldK = x` IfTransformer puts at the start of the body"""
    ren = {}
    for a in flat.get("body", []):
        if "if" in a:
            continue
        r = a.get("rhs")
        if a["var"].startswith("_old") and a["cond"] == ["true"] and r and r[0] == "choice" and len(r[1]) == 1:
            e = r[1][0][1]
            if len(e) == 1 and Fraction(e[0][0]) == 1 and len(e[0][1]) == 1 and e[0][1][0][1] == 1:
                ren[a["var"]] = e[0][1][0][0]
    return ren


def const_dump(q):
    q = Fraction(q)
    return [[f"{q.numerator}/{q.denominator}", []]] if q != 0 else []


def mono_of_dump(d):
    if len(d) != 1 or Fraction(d[0][0]) != 1:
        raise core.NotModelled(f"not a monomial: {d}")
    return {x: k for x, k in d[0][1]}


def dec(x):
    if isinstance(x, list):
        raise core.NotModelled("algebraic number")
    return Fraction(x)


def epoly_coq(f):
    return exppoly.coq_epoly([(dec(b), [dec(cf) for cf in cs]) for b, cs in f])


def program_defs(r):
    """Coq definitions fp0, T0, G0, Ss0 shared by all goals of one program; raises NotModelled"""
    flat = r["flat"]
    if "unsupported" in flat:
        raise core.NotModelled(flat["unsupported"])
    ext = [{"var": x, "cond": ["true"], "default": x, "rhs": ["choice", [[const_dump(1), const_dump(val)]]]}
           for x, val in r.get("init_extension", [])]
    flat2 = dict(flat)
    flat2["init"] = ext + list(flat["init"])
    if r.get("original_loop_guard") is None:
        raise core.NotModelled("guard dump")
    out = f"Definition fp0 : flatprog := {core.flat_coq(flat2)}.\n"
    out += f"Definition T0 : tenv := {core.types_coq(flat['types'])}.\n"
    out += f"Definition G0 : cond := {P.c_coq(core.cond_to_ast(r['original_loop_guard']))}.\n"
    ss = []
    for s in r["systems"]:
        inst = s["instance"]
        if "cf" not in inst:
            raise core.NotModelled("system closed forms: " + str(inst.get("unsupported")))
        if inst["cf"]["gens"]:
            raise core.NotModelled("algebraic closed forms")
        ms, ms_c, A_c, v_c = core.system_coq(s, inst)
        F = P.lst([epoly_coq(f) for f in inst["cf"]["general"]])
        sp = P.lst([P.lst([P.q_coq(dec(x)) for x in row]) for row in inst["cf"]["specials"]])
        ss.append(f"{{| s_ms := {ms_c}; s_A := {A_c}; s_v := {v_c}; s_F := {F}; s_sp := {sp} |}}")
    out += f"Definition Ss0 : list sysd := {P.lst(ss)}.\n"
    return out


def terms_coq(r, part, which):
    ts = []
    for co, mtxt, d in part[which + "_terms"]:
        m = mono_of_dump(d)
        j = part["term_system"][mtxt]
        dumps = r["systems"][j]["monomial_dumps"]
        ks = [i for i, dd in enumerate(dumps) if mono_of_dump(dd) == m]
        if not ks:
            raise core.NotModelled(f"monomial {mtxt} not in its system")
        ts.append(f"(({P.q_coq(Fraction(co))}, {P.mono_coq(m)}), ({j}%nat, {ks[0]}%nat))")
    return P.lst(ts), P.q_coq(Fraction(part[which + "_const"]))


def cf_coq(cf):
    if cf["gens"]:
        raise core.NotModelled("algebraic closed form")
    return epoly_coq(cf["general"][0]), P.lst([P.q_coq(dec(row[0])) for row in cf["specials"]])


def part_terms(r, part, mono):
    """Coq arguments of check_exit after fp0 T0 G0, or raises NotModelled"""
    if "exception" in part:
        raise core.NotModelled("part exception")
    for k in ("num_cf", "den_cf"):
        if k not in part:
            raise core.NotModelled(part.get(k + "_unsupported", "no closed form"))
    tsN, c0N = terms_coq(r, part, "num")
    tsD, c0D = terms_coq(r, part, "den")
    fN, spN = cf_coq(part["num_cf"])
    fD, spD = cf_coq(part["den_cf"])
    M = f"[(mkq 1 1, {P.mono_coq(mono)})]"
    return {"M": M, "N": f"{c0N} {tsN} {fN} {spN}", "D": f"{c0D} {tsD} {fD} {spD}", "fN": fN, "fD": fD,
            "tsN": tsN, "tsD": tsD, "c0N": c0N, "c0D": c0D, "spN": spN, "spD": spD}


EXIT_HEADER = ("From Coq Require Import List String QArith Qcanon ZArith.\n"
               "From Polar Require Import Qcx CRing ExpPoly ClosedForm Dist Syntax Sem Types Poly Pipeline Wp Search AfterLoop.\n"
               "Import ListNotations.\nOpen Scope string_scope.\n"
               "Definition cm0 : string -> list Qc -> nat -> Qc := fun _ _ _ => 0%Qc.\n")

LIMIT_DEFS = """
Definition decaying (r : Qc) : bool := Qc_ltb (- (1))%Qc r && Qc_ltb r 1%Qc.
"""


def parse_evals(out):
    """[(value text, type text)] of the Eval results printed by coqc, in order"""
    return [(m.group(1).strip(), m.group(2).strip()) for m in re.finditer(r"^\s+= (.*?)^\s+: ([^\n]*)$", out, re.M | re.S)]


def parse_opt_q(txt):
    m = re.match(r"Some\s*\(\s*\(?(-?\d+)\)?%?Z?\s*,\s*(\d+)%?(?:positive)?\s*\)", txt.replace("\n", " "))
    if not m:
        return None
    return Fraction(int(m.group(1)), int(m.group(2)))


# ---- shape of a closed form (python side, for divergence / diagnostics only) -------------------
def growth(cf):
    """classify the general part: ('const', a) | ('inf', sign) | None (unknown).  cf: enc_cf of one sequence"""
    if cf["gens"]:
        return None
    a = Fraction(0)
    dom = None  # (base, degree, coeff) of the dominant growing term
    for b, cs in cf["general"][0]:
        b = Fraction(b)
        cs = [Fraction(x) for x in cs]
        while cs and cs[-1] == 0:
            cs.pop()
        if not cs:
            continue
        if b == 1 and len(cs) == 1:
            a += cs[0]
        elif abs(b) < 1:
            continue
        elif b >= 1:
            key = (b, len(cs) - 1)
            if dom is None or key > dom[:2]:
                dom = (b, len(cs) - 1, cs[-1])
            elif key == dom[:2]:
                dom = (b, len(cs) - 1, dom[2] + cs[-1])
        else:
            return None
    if dom is None:
        return ("const", a)
    if dom[2] == 0:
        return None
    return ("inf", 1 if dom[2] > 0 else -1)


def eval_cond_ast(c, st):
    k = c[0]
    if k == "true":
        return True
    if k == "false":
        return False
    if k == "not":
        return not eval_cond_ast(c[1], st)
    if k == "and":
        return eval_cond_ast(c[1], st) and eval_cond_ast(c[2], st)
    if k == "or":
        return eval_cond_ast(c[1], st) or eval_cond_ast(c[2], st)
    a, b = eval_expr_ast(c[1], st), eval_expr_ast(c[3], st)
    return {"==": a == b, "<=": a <= b, ">=": a >= b, "<": a < b, ">": a > b}[c[2]]


def eval_expr_ast(e, st):
    k = e[0]
    if k == "const":
        return e[1]
    if k == "var":
        return st.get(e[1], Fraction(0))
    if k == "add":
        return eval_expr_ast(e[1], st) + eval_expr_ast(e[2], st)
    if k == "sub":
        return eval_expr_ast(e[1], st) - eval_expr_ast(e[2], st)
    if k == "mul":
        return eval_expr_ast(e[1], st) * eval_expr_ast(e[2], st)
    if k == "neg":
        return -eval_expr_ast(e[1], st)
    if k == "pow":
        return eval_expr_ast(e[1], st) ** e[2]
    raise ValueError(e)
