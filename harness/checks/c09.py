"""C09 — moments after termination equal the expectation at loop exit.

proof : props/C09.v — about the reference semantics Sem.v, for all programs / n / states: the
        state is frozen once the guard is false, paths stopped at time n contribute exactly
        their exit state to every later law, the stopped mass is monotone, the ratio
        E[M 1_stopped]/P(stopped) is the expectation under the conditional law; on flat
        programs with validated types the moments of M*arith(not G') are E[M 1_{not G'}]
        (cond_moment_exact); validator check_exit (all n) for Polar's numerator/denominator
        closed forms; geom_limit (Coquelicot) for the limit; collapse_guard_refuted.
tie   : generated guarded programs are run through the REAL --after_loop path in a Polar worker
        (harness/tasks_afterloop.py).  (a) the conditional sequence returned by
        cli.common.get_moment_given_termination / get_all_moments_given_termination is compared
        with the exact conditional moments of the SOURCE program under Sem.run (Coq, vm_compute,
        harness-independent of Polar) for n <= N; numerator/denominator closed forms are
        validated for ALL n by AfterLoop.check_exit on Polar's flat program, types, systems and
        closed forms; (b) the printed after-loop value is compared with the limit implied by the
        validated closed forms when they have the shape of AfterLoopLimit (decaying bases), and
        with exact values at larger n otherwise (validation).
search: the same comparison: first (program, goal, n) where Polar's value differs from the
        exact one."""
from fractions import Fraction
import math
import re

import lib
import core
import gen
import exppoly
import progast as P

KNOWN_COLLAPSE = "after_loop:conditions-on-collapsed-guard"
KNOWN_NO_LIMIT = "after_loop:limit-not-taken:integer-symbol-n"


# ---- programs ---------------------------------------------------------------------------
def c(q):
    return P.const(Fraction(q))


v = P.var


def asg(x, e):
    return ("assign", x, P.det(e))


def bern(x, p):
    return ("assign", x, ("draw", ("bern", c(p))))


def choice(x, alts):
    return ("assign", x, ("choice", [(c(p), e) for p, e in alts]))


def eq(x, k):
    return ("atom", v(x), "==", c(k))


def shapes():
    """hand-written shapes named by the property: guards over one/two finite variables, guard
    combined with a first-level if (collapse), a.s. termination and termination with
    probability < 1, exit expectations that are finite, constant, or divergent.
    Each entry: (program, goals, tag); goals are ('E', mono) | ('c', k, mono) | ('k', k, mono)"""
    out = []
    F = Fraction
    # geometric stop, counter
    out.append(({"types": [], "init": [asg("x", c(0)), asg("y", c(0))], "guard": eq("x", 0),
                 "body": [bern("x", F(1, 2)), asg("y", ("add", v("y"), c(1)))]},
                [("E", {"y": 1}), ("E", {"y": 2}), ("c", 2, {"y": 1}), ("k", 2, {"y": 1}), ("E", {"x": 1})], "geometric+counter"))
    # the collapse witness of DESIGN section 6 (#10)
    out.append(({"types": [], "init": [asg("x", c(0)), bern("c", F(1, 2))], "guard": eq("x", 0),
                 "body": [("if", [(eq("c", 1), [bern("x", F(1, 2))])], None)]},
                [("E", {"x": 1}), ("E", {"c": 1})], "collapse-witness"))
    # its non-collapsed twin: terminates with probability 1/2
    out.append(({"types": [], "init": [asg("x", c(0)), asg("y", c(0)), bern("c", F(1, 2))], "guard": eq("x", 0),
                 "body": [asg("y", ("add", v("y"), c(1))), ("if", [(eq("c", 1), [bern("x", F(1, 2))])], None)]},
                [("E", {"x": 1}), ("E", {"y": 1}), ("E", {"c": 1}), ("c", 2, {"y": 1})], "terminates-with-prob-1/2"))
    # collapse with a second shape: nested single ifs
    out.append(({"types": [], "init": [asg("x", c(0)), bern("c", F(1, 3)), bern("d", F(1, 2))], "guard": eq("x", 0),
                 "body": [("if", [(eq("c", 1), [("if", [(eq("d", 1), [bern("x", F(1, 2))])], None)])], None)]},
                [("E", {"x": 1})], "collapse-nested"))
    # guard over two variables
    out.append(({"types": [], "init": [asg("x", c(0)), asg("z", c(0)), asg("y", c(0))],
                 "guard": ("not", ("and", eq("x", 1), eq("z", 1))),
                 "body": [bern("x", F(1, 2)), bern("z", F(1, 3)), asg("y", ("add", v("y"), v("x")))]},
                [("E", {"y": 1}), ("E", {"x": 1, "z": 1}), ("k", 2, {"y": 1})], "two-variable-guard"))
    out.append(({"types": [], "init": [asg("x", c(0)), bern("z", F(1, 2)), asg("y", c(1))],
                 "guard": ("and", eq("x", 0), eq("z", 1)),
                 "body": [bern("x", F(1, 4)), asg("y", ("add", v("y"), c(2)))]},
                [("E", {"y": 1}), ("E", {"y": 1, "z": 1}), ("c", 2, {"y": 1})], "two-variable-guard+stopped-at-0"))
    # guard with an inequality over a three-valued variable, two-stage chain (n*r^n terms)
    out.append(({"types": [], "init": [asg("s", c(0)), asg("y", c(0))], "guard": ("atom", v("s"), "<", c(2)),
                 "body": [asg("y", ("add", v("y"), v("s"))),
                          ("if", [(eq("s", 0), [choice("s", [(F(1, 2), c(1)), (F(1, 2), c(0))])])],
                           [choice("s", [(F(1, 2), c(2)), (F(1, 2), c(1))])])]},
                [("E", {"y": 1}), ("E", {"s": 1}), ("E", {"y": 2})], "inequality-guard+two-stage"))
    # already stopped at the start with probability 1/2
    out.append(({"types": [], "init": [bern("x", F(1, 2)), asg("y", c(0))], "guard": eq("x", 0),
                 "body": [bern("x", F(1, 3)), asg("y", ("add", v("y"), c(2)))]},
                [("E", {"y": 1}), ("c", 2, {"y": 1}), ("E", {"x": 1, "y": 1})], "stopped-at-0-with-prob-1/2"))
    # exit value depends on the exit state (non-constant exit expectation)
    out.append(({"types": [], "init": [asg("s", c(0)), asg("y", c(0))], "guard": eq("s", 0),
                 "body": [choice("s", [(F(1, 2), c(0)), (F(1, 6), c(1)), (F(1, 3), c(2))]), asg("y", ("add", v("y"), v("s")))]},
                [("E", {"s": 1}), ("E", {"s": 2}), ("c", 2, {"s": 1}), ("E", {"y": 1})], "exit-state-dependent"))
    # divergent exit expectations
    out.append(({"types": [], "init": [asg("x", c(0)), asg("y", c(1))], "guard": eq("x", 0),
                 "body": [asg("y", ("mul", c(2), v("y"))), bern("x", F(1, 2))]},
                [("E", {"y": 1})], "divergent-linear"))
    out.append(({"types": [], "init": [asg("x", c(0)), asg("y", c(1))], "guard": eq("x", 0),
                 "body": [asg("y", ("mul", c(3), v("y"))), bern("x", F(1, 2))]},
                [("E", {"y": 1})], "divergent-geometric"))
    out.append(({"types": [], "init": [asg("x", c(0)), asg("y", c(1))], "guard": eq("x", 0),
                 "body": [asg("y", ("mul", c(F(3, 2)), v("y"))), bern("x", F(1, 2))]},
                [("E", {"y": 1}), ("E", {"y": 2})], "finite-mean-divergent-second-moment"))
    # never terminates once started / guard false from the start
    out.append(({"types": [], "init": [bern("x", F(1, 3)), asg("y", c(0))], "guard": eq("x", 0),
                 "body": [asg("y", ("add", v("y"), c(1)))]},
                [("E", {"y": 1}), ("E", {"x": 1})], "guard-variable-never-changes"))
    return out


def goal_text(g):
    if g[0] == "E":
        return f"E({gen.goal_text(g[1])})"
    return f"{g[0]}{g[1]}({gen.goal_text(g[2])})"


def goal_mono(g):
    return g[1] if g[0] == "E" else g[2]


def goal_order(g):
    return 1 if g[0] == "E" else g[1]


def mono_pow(m, i):
    return {x: k * i for x, k in m.items()}


# ---- exact oracle (Coq) --------------------------------------------------------------------
def oracle_file(p, ms, N, cross=2):
    body = P.COQ_HEADER.replace("Syntax Sem", "Syntax Sem Types Search AfterLoop")
    vs = P.prog_vars(p)
    body += f"Definition p0 : prog := {P.prog_coq(p)}.\n"
    body += f"Definition ms0 : list mono := {P.lst([P.mono_coq(m) for m in ms])}.\n"
    vl = P.lst(['"%s"' % x for x in vs])
    body += f"Eval vm_compute in (exit_moments {vl} p0 ms0 {N}).\n"
    body += f"Eval vm_compute in (exit_moments_plain p0 ms0 {min(cross, N)}).\n"
    return body


def exact_exit_moments(ctx, cases, timeout=300):
    """cases: [(prog, [mono], N)] -> per case rows[n] = [P(stopped)_n, E[m_1; stopped]_n, ...] or None"""
    import oracle
    files = [(f"exit_{j}", oracle_file(p, ms, N)) for j, (p, ms, N) in enumerate(cases)]
    outs = lib.coq_run_many(ctx, files, timeout=timeout)
    res = []
    for j, (p, ms, N) in enumerate(cases):
        ok, o = outs[f"exit_{j}"]
        rs = oracle.parse_results(o) if ok else []
        if len(rs) != 2 or len(rs[0]) != N + 1 or any(len(r) != len(ms) + 1 for r in rs[0]):
            res.append(None)
            continue
        if rs[0][:len(rs[1])] != rs[1]:
            raise RuntimeError("oracle self-check failed: compacted and plain semantics disagree on\n" + P.prog_text(p))
        res.append(rs[0])
    return res


# ---- statistics conversions, independent of Polar (exact) -------------------------------------
def central_from_raw(m, k):
    """m: dict order -> raw moment (m[0] = 1); k-th central moment by the binomial formula"""
    mu = m[1]
    return sum(math.comb(k, j) * m[j] * (-mu) ** (k - j) for j in range(k + 1))


def cumulant_from_raw(m, k):
    """moment-cumulant recursion kappa_n = m_n - sum_{j=1}^{n-1} C(n-1, j-1) kappa_j m_{n-j}"""
    kap = {}
    for n in range(1, k + 1):
        kap[n] = m[n] - sum(math.comb(n - 1, j - 1) * kap[j] * m[n - j] for j in range(1, n))
    return kap[k]


def convert(kind, order, raws):
    m = dict(raws)
    m[0] = Fraction(1)
    if kind == "E":
        return m[1]
    if kind == "c":
        return central_from_raw(m, order)
    return cumulant_from_raw(m, order)


def parse_val(s):
    if s is None or s.startswith("~") or s.startswith("!") or s.startswith("?"):
        return None
    return Fraction(s)
