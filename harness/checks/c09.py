"""C09 — moments after termination equal the expectation at loop exit.

proof : props/C09.v — about the reference semantics Sem.v, for all programs / n / states: the
        state is frozen once the guard is false, paths stopped at time n contribute exactly
        their exit state to every later law, the stopped mass is monotone, the ratio
        E[M 1_stopped]/P(stopped) is the expectation under the conditional law; on flat
        programs with validated types the moments of M*arith(not G') are E[M 1_{not G'}]
        (cond_moment_exact); validator check_exit (all n) for Polar's numerator/denominator
        closed forms; geom_limit / limit_value (Coquelicot) for the limit; collapse_guard_old_rule_refuted.
tie   : generated guarded programs are run through the REAL --after_loop path in a Polar worker
        (harness/tasks_afterloop.py).  (a) the conditional sequence returned by
        cli.common.get_moment_given_termination / get_all_moments_given_termination is compared
        with the exact conditional moments of the SOURCE program under Sem.run (Coq, vm_compute,
        harness-independent of Polar) for n <= N; numerator/denominator closed forms are
        validated for ALL n by AfterLoop.check_exit on Polar's flat program, types, systems and
        closed forms; (b) the printed after-loop value is compared with the limit implied by the
        validated closed forms when they have the shape of AfterLoopLimit (decaying bases), and
        with exact values at larger n otherwise (validation).
search: the same comparison: first (program, goal, n) where Polar's value differs from the
        exact one."""
from fractions import Fraction
import math
import re

import lib
import core
import gen
import exppoly
import progast as P

# signatures of the three defects this check found (all fixed in /repo: 294789f, d8aa084, 347f661); the witnesses
# stay in the quick tier, so each is reported again with a concrete input if it returns
KNOWN_COLLAPSE = "after_loop:conditions-on-collapsed-guard"
KNOWN_NO_LIMIT = "after_loop:limit-not-taken:integer-symbol-n"
KNOWN_SUBS = "after_loop:get_moment_poly:single-term-coefficient"


# ---- programs ---------------------------------------------------------------------------
def c(q):
    return P.const(Fraction(q))


v = P.var


def asg(x, e):
    return ("assign", x, P.det(e))


def bern(x, p):
    return ("assign", x, ("draw", ("bern", c(p))))


def choice(x, alts):
    return ("assign", x, ("choice", [(c(p), e) for p, e in alts]))


def eq(x, k):
    return ("atom", v(x), "==", c(k))


def shapes(quick=True):
    """(goals wrapped in more(...) are analysed in the thorough tier only: Polar's limit_seq on central moments /
    cumulants of longer closed forms takes minutes)
    hand-written shapes named by the property: guards over one/two finite variables, guard
    combined with a first-level if (collapse), a.s. termination and termination with
    probability < 1, exit expectations that are finite, constant, or divergent.
    Each entry: (program, goals, tag); goals are ('E', mono) | ('c', k, mono) | ('k', k, mono)"""
    out = []
    F = Fraction

    def more(*gs):
        return [] if quick else list(gs)
    # geometric stop, counter
    out.append(({"types": [], "init": [asg("x", c(0)), asg("y", c(0))], "guard": eq("x", 0),
                 "body": [bern("x", F(1, 2)), asg("y", ("add", v("y"), c(1)))]},
                [("E", {"y": 1}), ("k", 2, {"y": 1}), ("E", {"x": 1})] + more(("E", {"y": 2}), ("c", 2, {"y": 1})), "geometric+counter"))
    # the collapse witness of DESIGN section 6 (#10)
    out.append(({"types": [], "init": [asg("x", c(0)), bern("c", F(1, 2))], "guard": eq("x", 0),
                 "body": [("if", [(eq("c", 1), [bern("x", F(1, 2))])], None)]},
                [("E", {"x": 1})] + more(("E", {"c": 1})), "collapse-witness"))
    # its non-collapsed twin: terminates with probability 1/2
    out.append(({"types": [], "init": [asg("x", c(0)), asg("y", c(0)), bern("c", F(1, 2))], "guard": eq("x", 0),
                 "body": [asg("y", ("add", v("y"), c(1))), ("if", [(eq("c", 1), [bern("x", F(1, 2))])], None)]},
                [("E", {"y": 1}), ("E", {"c": 1}), ("c", 2, {"y": 1})] + more(("E", {"x": 1}), ("k", 3, {"y": 1})), "terminates-with-prob-1/2"))
    # collapse with a second shape: nested single ifs
    out.append(({"types": [], "init": [asg("x", c(0)), bern("c", F(1, 3)), bern("d", F(1, 2))], "guard": eq("x", 0),
                 "body": [("if", [(eq("c", 1), [("if", [(eq("d", 1), [bern("x", F(1, 2))])], None)])], None)]},
                [("E", {"x": 1})], "collapse-nested"))
    # guard over two variables
    out.append(({"types": [], "init": [asg("x", c(0)), asg("z", c(0)), asg("y", c(0))],
                 "guard": ("not", ("and", eq("x", 1), eq("z", 1))),
                 "body": [bern("x", F(1, 2)), bern("z", F(1, 3)), asg("y", ("add", v("y"), v("x")))]},
                [("E", {"y": 1})] + more(("E", {"x": 1, "z": 1}), ("k", 2, {"y": 1})), "two-variable-guard"))
    out.append(({"types": [], "init": [asg("x", c(0)), bern("z", F(1, 2)), asg("y", c(1))],
                 "guard": ("and", eq("x", 0), eq("z", 1)),
                 "body": [bern("x", F(1, 4)), asg("y", ("add", v("y"), c(2)))]},
                [("E", {"y": 1, "z": 1})] + more(("E", {"y": 1}), ("c", 2, {"y": 1})), "two-variable-guard+stopped-at-0"))
    # guard with an inequality over a three-valued variable, two-stage chain (n*r^n terms); thorough tier only: the
    # indicator polynomial is not power-reduced, Polar solves 16 systems, their validation takes minutes
    (out if not quick else []).append(({"types": [], "init": [asg("s", c(0)), asg("y", c(0))], "guard": ("atom", v("s"), "<", c(2)),
                 "body": [asg("y", ("add", v("y"), v("s"))),
                          ("if", [(eq("s", 0), [choice("s", [(F(1, 2), c(1)), (F(1, 2), c(0))])])],
                           [choice("s", [(F(1, 2), c(2)), (F(1, 2), c(1))])])]},
                [("E", {"y": 1}), ("E", {"s": 1}), ("E", {"y": 2})], "inequality-guard+two-stage"))
    # guard with an inequality over a three-valued variable that is redrawn (two values satisfy the guard: the normalised
    # guard is a disjunction s == 0 or s == 1); terminating a.s. / only with positive probability (s stuck at 1)
    out.append(({"types": [], "init": [asg("s", c(0)), asg("y", c(0))], "guard": ("atom", v("s"), "<", c(2)),
                 "body": [choice("s", [(F(1, 2), c(0)), (F(1, 4), c(1)), (F(1, 4), c(2))]), asg("y", ("add", v("y"), c(1)))]},
                [("E", {"y": 1}), ("E", {"s": 1})], "inequality-guard+redraw"))
    out.append(({"types": [], "init": [asg("s", c(0)), asg("y", c(0))], "guard": ("atom", v("s"), "<", c(2)),
                 "body": [("if", [(eq("s", 0), [choice("s", [(F(1, 2), c(0)), (F(1, 4), c(1)), (F(1, 4), c(2))])])], None),
                          asg("y", ("add", v("y"), v("s")))]},
                [("E", {"y": 1}), ("k", 2, {"y": 1})], "inequality-guard+stuck-with-prob-1/2"))
    # guard that is a DISJUNCTION whose two sides can hold at the same time (overlap): the indicator of the negated guard
    # needs the inclusion-exclusion term
    out.append(({"types": [], "init": [asg("x", c(0)), asg("z", c(0)), asg("y", c(0))],
                 "guard": ("or", eq("x", 0), eq("z", 0)),
                 "body": [bern("x", F(1, 2)), bern("z", F(1, 3)), asg("y", ("add", v("y"), c(1)))]},
                [("E", {"y": 1}), ("c", 2, {"y": 1})], "overlapping-or-guard"))
    # the same two-stage chain with two flags (n*r^n terms, two-valued types only)
    out.append(({"types": [], "init": [asg("a", c(0)), asg("b", c(0)), asg("y", c(0))], "guard": eq("b", 0),
                 "body": [asg("y", ("add", v("y"), c(1))),
                          ("if", [(eq("a", 0), [bern("a", F(1, 2))])], [bern("b", F(1, 2))])]},
                [("E", {"y": 1})] + more(("E", {"a": 1, "y": 1}), ("c", 2, {"y": 1})), "two-stage-flags"))
    # already stopped at the start with probability 1/2
    out.append(({"types": [], "init": [bern("x", F(1, 2)), asg("y", c(0))], "guard": eq("x", 0),
                 "body": [bern("x", F(1, 3)), asg("y", ("add", v("y"), c(2)))]},
                [("E", {"y": 1}), ("c", 2, {"y": 1})] + more(("E", {"x": 1, "y": 1})), "stopped-at-0-with-prob-1/2"))
    # exit value depends on the exit state (non-constant exit expectation)
    out.append(({"types": [], "init": [asg("s", c(0)), asg("y", c(0))], "guard": eq("s", 0),
                 "body": [choice("s", [(F(1, 2), c(0)), (F(1, 6), c(1)), (F(1, 3), c(2))]), asg("y", ("add", v("y"), v("s")))]},
                [("E", {"s": 1}), ("E", {"s": 2})] + more(("E", {"y": 1}), ("c", 2, {"s": 1})), "exit-state-dependent"))
    # guard variable with values {0, 2}: the indicator polynomial of the negated guard is the single term _old/2
    out.append(({"types": [], "init": [asg("x", c(0)), asg("y", c(0))], "guard": eq("x", 0),
                 "body": [choice("x", [(F(1, 2), c(0)), (F(1, 2), c(2))]), asg("y", ("add", v("y"), c(1)))]},
                [("E", {"y": 1})] + more(("E", {"x": 1})), "guard-values-0-2"))
    # divergent exit expectations
    out.append(({"types": [], "init": [asg("x", c(0)), asg("y", c(1))], "guard": eq("x", 0),
                 "body": [asg("y", ("mul", c(2), v("y"))), bern("x", F(1, 2))]},
                [("E", {"y": 1}), ("c", 2, {"y": 1})], "divergent-linear"))
    out.append(({"types": [], "init": [asg("x", c(0)), asg("y", c(1))], "guard": eq("x", 0),
                 "body": [asg("y", ("mul", c(3), v("y"))), bern("x", F(1, 2))]},
                [("E", {"y": 1})], "divergent-geometric"))
    out.append(({"types": [], "init": [asg("x", c(0)), asg("y", c(1))], "guard": eq("x", 0),
                 "body": [asg("y", ("mul", c(F(3, 2)), v("y"))), bern("x", F(1, 2))]},
                [("E", {"y": 1}), ("E", {"y": 2}), ("c", 3, {"y": 1})], "finite-mean-divergent-second-moment"))
    # never terminates once started / guard false from the start
    out.append(({"types": [], "init": [bern("x", F(1, 3)), asg("y", c(0))], "guard": eq("x", 0),
                 "body": [asg("y", ("add", v("y"), c(1)))]},
                [("E", {"y": 1})] + more(("E", {"x": 1})), "guard-variable-never-changes"))
    return out


def goal_text(g):
    if g[0] == "E":
        return f"E({gen.goal_text(g[1])})"
    return f"{g[0]}{g[1]}({gen.goal_text(g[2])})"


def goal_mono(g):
    return g[1] if g[0] == "E" else g[2]


def goal_order(g):
    return 1 if g[0] == "E" else g[1]


def mono_pow(m, i):
    return {x: k * i for x, k in m.items()}


# ---- exact oracle (Coq) --------------------------------------------------------------------
def oracle_file(p, ms, N, cross=2):
    body = P.COQ_HEADER.replace("Syntax Sem", "Syntax Sem Types Search AfterLoop")
    vs = P.prog_vars(p)
    body += f"Definition p0 : prog := {P.prog_coq(p)}.\n"
    body += f"Definition ms0 : list mono := {P.lst([P.mono_coq(m) for m in ms])}.\n"
    vl = P.lst(['"%s"' % x for x in vs])
    body += f"Eval vm_compute in (exit_moments {vl} p0 ms0 {N}).\n"
    body += f"Eval vm_compute in (exit_moments_plain p0 ms0 {min(cross, N)}).\n"
    return body


def exact_exit_moments(ctx, cases, timeout=300):
    """cases: [(prog, [mono], N)] -> per case rows[n] = [P(stopped)_n, E[m_1; stopped]_n, ...] or None"""
    import oracle
    files = [(f"exit_{j}", oracle_file(p, ms, N)) for j, (p, ms, N) in enumerate(cases)]
    outs = lib.coq_run_many(ctx, files, timeout=timeout)
    res = []
    for j, (p, ms, N) in enumerate(cases):
        ok, o = outs[f"exit_{j}"]
        rs = oracle.parse_results(o) if ok else []
        if len(rs) != 2 or len(rs[0]) != N + 1 or any(len(r) != len(ms) + 1 for r in rs[0]):
            res.append(None)
            continue
        if rs[0][:len(rs[1])] != rs[1]:
            raise RuntimeError("oracle self-check failed: compacted and plain semantics disagree on\n" + P.prog_text(p))
        res.append(rs[0])
    return res


# ---- statistics conversions, independent of Polar (exact) -------------------------------------
def central_from_raw(m, k):
    """m: dict order -> raw moment (m[0] = 1); k-th central moment by the binomial formula"""
    mu = m[1]
    return sum(math.comb(k, j) * m[j] * (-mu) ** (k - j) for j in range(k + 1))


def cumulant_from_raw(m, k):
    """moment-cumulant recursion kappa_n = m_n - sum_{j=1}^{n-1} C(n-1, j-1) kappa_j m_{n-j}"""
    kap = {}
    for n in range(1, k + 1):
        kap[n] = m[n] - sum(math.comb(n - 1, j - 1) * kap[j] * m[n - j] for j in range(1, n))
    return kap[k]


def convert(kind, order, raws):
    m = dict(raws)
    m[0] = Fraction(1)
    if kind == "E":
        return m[1]
    if kind == "c":
        return central_from_raw(m, order)
    return cumulant_from_raw(m, order)


def parse_val(s):
    if s is None or s.startswith("~") or s.startswith("!") or s.startswith("?"):
        return None
    return Fraction(s)


# ---- Polar's dumps -> Coq terms for AfterLoop.check_exit -------------------------------------
def rename_cond(c, ren):
    def rexpr(d):
        return [[co, [[ren.get(x, x), k] for x, k in mon]] for co, mon in d]
    k = c[0]
    if k in ("true", "false"):
        return [k]
    if k == "atom":
        return ["atom", rexpr(c[1]), c[2], rexpr(c[3])]
    if k == "not":
        return ["not", rename_cond(c[1], ren)]
    return [k, rename_cond(c[1], ren), rename_cond(c[2], ren)]


def cond_dump_vars(c):
    k = c[0]
    if k in ("true", "false"):
        return set()
    if k == "atom":
        return {x for d in (c[1], c[3]) for _, mon in d for x, _ in mon}
    if k == "not":
        return cond_dump_vars(c[1])
    return cond_dump_vars(c[1]) | cond_dump_vars(c[2])


def old_copies(flat):
    """{aux: source variable} for the copies `_oldK = x` IfTransformer puts at the start of the body"""
    ren = {}
    for a in flat.get("body", []):
        if "if" in a:
            continue
        r = a.get("rhs")
        if a["var"].startswith("_old") and a["cond"] == ["true"] and r and r[0] == "choice" and len(r[1]) == 1:
            e = r[1][0][1]
            if len(e) == 1 and Fraction(e[0][0]) == 1 and len(e[0][1]) == 1 and e[0][1][0][1] == 1:
                ren[a["var"]] = e[0][1][0][0]
    return ren


def const_dump(q):
    q = Fraction(q)
    return [[f"{q.numerator}/{q.denominator}", []]] if q != 0 else []


def mono_of_dump(d):
    if len(d) != 1 or Fraction(d[0][0]) != 1:
        raise core.NotModelled(f"not a monomial: {d}")
    return {x: k for x, k in d[0][1]}


def dec(x):
    if isinstance(x, list):
        raise core.NotModelled("algebraic number")
    return Fraction(x)


def epoly_coq(f):
    return exppoly.coq_epoly([(dec(b), [dec(cf) for cf in cs]) for b, cs in f])


def program_defs(r):
    """Coq definitions fp0, T0, G0, Ss0 shared by all goals of one program; raises NotModelled"""
    flat = r["flat"]
    if "unsupported" in flat:
        raise core.NotModelled(flat["unsupported"])
    ext = [{"var": x, "cond": ["true"], "default": x, "rhs": ["choice", [[const_dump(1), const_dump(val)]]]}
           for x, val in r.get("init_extension", [])]
    flat2 = dict(flat)
    flat2["init"] = ext + list(flat["init"])
    if r.get("original_loop_guard") is None:
        raise core.NotModelled("guard dump")
    out = f"Definition fp0 : flatprog := {core.flat_coq(flat2)}.\n"
    out += f"Definition T0 : tenv := {core.types_coq(flat['types'])}.\n"
    out += f"Definition G0 : cond := {P.c_coq(core.cond_to_ast(r['original_loop_guard']))}.\n"
    ss = []
    for s in r["systems"]:
        inst = s["instance"]
        if "cf" not in inst:
            raise core.NotModelled("system closed forms: " + str(inst.get("unsupported")))
        if inst["cf"]["gens"]:
            raise core.NotModelled("algebraic closed forms")
        ms, ms_c, A_c, v_c = core.system_coq(s, inst)
        F = P.lst([epoly_coq(f) for f in inst["cf"]["general"]])
        sp = P.lst([P.lst([P.q_coq(dec(x)) for x in row]) for row in inst["cf"]["specials"]])
        ss.append(f"{{| s_ms := {ms_c}; s_A := {A_c}; s_v := {v_c}; s_F := {F}; s_sp := {sp} |}}")
    out += f"Definition Ss0 : list sysd := {P.lst(ss)}.\n"
    return out


def terms_coq(r, part, which):
    ts = []
    for co, mtxt, d in part[which + "_terms"]:
        m = mono_of_dump(d)
        j = part["term_system"][mtxt]
        dumps = r["systems"][j]["monomial_dumps"]
        ks = [i for i, dd in enumerate(dumps) if mono_of_dump(dd) == m]
        if not ks:
            raise core.NotModelled(f"monomial {mtxt} not in its system")
        ts.append(f"(({P.q_coq(Fraction(co))}, {P.mono_coq(m)}), ({j}%nat, {ks[0]}%nat))")
    return P.lst(ts), P.q_coq(Fraction(part[which + "_const"]))


def cf_coq(cf):
    if cf["gens"]:
        raise core.NotModelled("algebraic closed form")
    return epoly_coq(cf["general"][0]), P.lst([P.q_coq(dec(row[0])) for row in cf["specials"]])


def part_terms(r, part, mono):
    """Coq arguments of check_exit after fp0 T0 G0, or raises NotModelled"""
    if "exception" in part:
        raise core.NotModelled("part exception")
    for k in ("num_cf", "den_cf"):
        if k not in part:
            raise core.NotModelled(part.get(k + "_unsupported", "no closed form"))
    tsN, c0N = terms_coq(r, part, "num")
    tsD, c0D = terms_coq(r, part, "den")
    fN, spN = cf_coq(part["num_cf"])
    fD, spD = cf_coq(part["den_cf"])
    M = f"[(mkq 1 1, {P.mono_coq(mono)})]"
    return {"M": M, "N": f"{c0N} {tsN} {fN} {spN}", "D": f"{c0D} {tsD} {fD} {spD}", "fN": fN, "fD": fD,
            "tsN": tsN, "tsD": tsD, "c0N": c0N, "c0D": c0D, "spN": spN, "spD": spD}


EXIT_HEADER = ("From Coq Require Import List String QArith Qcanon ZArith.\n"
               "From Polar Require Import Qcx CRing ExpPoly ClosedForm Dist Syntax Sem Types Poly Pipeline Wp Search AfterLoop.\n"
               "Import ListNotations.\nOpen Scope string_scope.\n"
               "Definition cm0 : string -> list Qc -> nat -> Qc := fun _ _ _ => 0%Qc.\n")

LIMIT_DEFS = """
Definition decaying (r : Qc) : bool := Qc_ltb (- (1))%Qc r && Qc_ltb r 1%Qc.
"""


def parse_evals(out):
    """[(value text, type text)] of the Eval results printed by coqc, in order"""
    return [(m.group(1).strip(), m.group(2).strip()) for m in re.finditer(r"^\s+= (.*?)^\s+: ([^\n]*)$", out, re.M | re.S)]


def parse_opt_q(txt):
    m = re.match(r"Some\s*\(\s*\(?(-?\d+)\)?%?Z?\s*,\s*(\d+)%?(?:positive)?\s*\)", txt.replace("\n", " "))
    if not m:
        return None
    return Fraction(int(m.group(1)), int(m.group(2)))


# ---- shape of a closed form (python side, for divergence / diagnostics only) -------------------
def growth(cf):
    """classify the general part: ('const', a) | ('inf', sign) | None (unknown).  cf: enc_cf of one sequence"""
    if cf["gens"]:
        return None
    a = Fraction(0)
    dom = None  # (base, degree, coeff) of the dominant growing term
    for b, cs in cf["general"][0]:
        b = Fraction(b)
        cs = [Fraction(x) for x in cs]
        while cs and cs[-1] == 0:
            cs.pop()
        if not cs:
            continue
        if b == 1 and len(cs) == 1:
            a += cs[0]
        elif abs(b) < 1:
            continue
        elif b >= 1:
            key = (b, len(cs) - 1)
            if dom is None or key > dom[:2]:
                dom = (b, len(cs) - 1, cs[-1])
            elif key == dom[:2]:
                dom = (b, len(cs) - 1, dom[2] + cs[-1])
        else:
            return None
    if dom is None:
        return ("const", a)
    if dom[2] == 0:
        return None
    return ("inf", 1 if dom[2] > 0 else -1)


def eval_cond_ast(c, st):
    k = c[0]
    if k == "true":
        return True
    if k == "false":
        return False
    if k == "not":
        return not eval_cond_ast(c[1], st)
    if k == "and":
        return eval_cond_ast(c[1], st) and eval_cond_ast(c[2], st)
    if k == "or":
        return eval_cond_ast(c[1], st) or eval_cond_ast(c[2], st)
    a, b = eval_expr_ast(c[1], st), eval_expr_ast(c[3], st)
    return {"==": a == b, "<=": a <= b, ">=": a >= b, "<": a < b, ">": a > b}[c[2]]


def eval_expr_ast(e, st):
    k = e[0]
    if k == "const":
        return e[1]
    if k == "var":
        return st.get(e[1], Fraction(0))
    if k == "add":
        return eval_expr_ast(e[1], st) + eval_expr_ast(e[2], st)
    if k == "sub":
        return eval_expr_ast(e[1], st) - eval_expr_ast(e[2], st)
    if k == "mul":
        return eval_expr_ast(e[1], st) * eval_expr_ast(e[2], st)
    if k == "neg":
        return -eval_expr_ast(e[1], st)
    if k == "pow":
        return eval_expr_ast(e[1], st) ** e[2]
    raise ValueError(e)


# ---- generator of guarded loops that do terminate with positive probability ---------------------
LPROBS = [Fraction(1, 2), Fraction(1, 3), Fraction(1, 4), Fraction(2, 3), Fraction(3, 4), Fraction(1, 5)]
# quick tier: small denominators only (sympy's limit_seq inside Polar needs minutes for bases like 19/20)
LPROBS_QUICK = [Fraction(1, 2), Fraction(1, 3), Fraction(2, 3)]


def loop_program(rng, probs=LPROBS):
    """one stop flag g (guard g == 0 or a two-variable guard with a context flag h), the flag is
    redrawn in the body (possibly only when h == 1), accumulators get linear updates; options:
    already stopped at the start, h fixed at the start (termination with probability < 1) or
    redrawn in every iteration, whole body wrapped into a one-branch if (collapse), if/else body."""
    pr = lambda: rng.choice(probs)
    feats = set()
    init = []
    start = rng.random()
    if start < 0.25:
        init.append(bern("g", pr()))
        feats.add("stopped-at-0")
    else:
        init.append(asg("g", c(0)))
    use_h = rng.random() < 0.6
    h_fixed = rng.random() < 0.5
    if use_h:
        init.append(bern("h", pr()))
    accs = ["y"] + (["z"] if rng.random() < 0.4 else [])
    for a in accs:
        init.append(asg(a, c(rng.choice([0, 1]))))
    # guard
    gk = rng.random()
    if use_h and gk < 0.3:
        guard = ("and", eq("g", 0), eq("h", 1))
        feats.add("guard-and")
    elif use_h and gk < 0.45:
        guard = ("not", ("and", eq("g", 1), eq("h", 1)))
        feats.add("guard-not-and")
    elif gk < 0.6:
        guard = ("atom", v("g"), "<", c(1))
        feats.add("guard-inequality")
    else:
        guard = eq("g", 0)
    # flag update
    if rng.random() < 0.5:
        upd = bern("g", pr())
    else:
        q = pr()
        upd = choice("g", [(q, c(1)), (1 - q, c(0))])
    stmts = []
    if use_h and not h_fixed:
        stmts.append(bern("h", pr()))
        feats.add("context-redrawn")
    elif use_h:
        feats.add("context-fixed")
    cond_upd = use_h and rng.random() < 0.6 and "guard-not-and" not in feats
    for a in accs:
        r = rng.random()
        if r < 0.4:
            e = ("add", v(a), c(rng.choice([1, 2, Fraction(1, 2)])))
        elif r < 0.6:
            e = ("add", v(a), v("g"))
        elif r < 0.75 and use_h:
            e = ("add", v(a), v("h"))
        elif r < 0.9:
            e = ("add", ("mul", c(rng.choice([Fraction(1, 2), Fraction(1, 3), -1])), v(a)), c(1))
        else:
            e = ("add", v(a), ("mul", c(2), v("g")))
        stmts.append(asg(a, e))
    if cond_upd:
        if rng.random() < 0.5:
            flag_stmt = ("if", [(eq("h", 1), [upd])], None)
            feats.add("conditional-stop")
        else:
            flag_stmt = ("if", [(eq("h", 1), [upd])], [bern("g", pr())])
            feats.add("if-else-stop")
    else:
        flag_stmt = upd
    stmts.insert(rng.randint(0, len(stmts)), flag_stmt)
    body = stmts
    if use_h and rng.random() < 0.12:
        body = [("if", [(eq("h", 1), stmts)], None)]
        feats.add("collapse")
    p = {"types": [], "init": init, "guard": guard, "body": body}
    goals = []
    a = rng.choice(accs)
    goals.append(("E", {a: 1}))
    r = rng.random()
    if r < 0.35:
        goals.append(("E", {a: 2}))
    elif r < 0.6:
        kind = rng.choice(["c", "k"])
        # central moments / cumulants of generated programs only in the thorough tier (Polar's limit_seq may need minutes)
        goals.append((kind, 2, {a: 1}) if probs is LPROBS else ("E", {a: 2}))
    elif r < 0.8:
        goals.append(("E", {a: 1, "g": 1}))
    if use_h and rng.random() < 0.5:
        goals.append(("E", {"h": 1}))
    return p, goals, "loop:" + "+".join(sorted(feats) or ["plain"])


# ---- the check -------------------------------------------------------------------------------
def gen_programs(ctx, n):
    out = []
    tries = 0
    n_loop = n if ctx.quick else n - n // 5   # harness/gen.py programs (mostly degenerate guards, 3-valued types: slow) only in the thorough tier
    while len(out) < n_loop:
        out.append(loop_program(ctx.rng, LPROBS_QUICK if ctx.quick else LPROBS))
    while len(out) < n and tries < 20 * n + 20:
        tries += 1
        g = gen.G(ctx.rng, guard=True, max_depth=1, allow_simult=ctx.rng.random() < 0.3,
                  n_fin=ctx.rng.randint(1, 2), n_acc=ctx.rng.randint(0, 1))
        p = g.program()
        if "multi-assign" in g.features:
            continue  # C05's known defect (types of renamed versions under a guard) is not this property's subject
        goals = [("E", m) for m in g.goals(2)]
        if ctx.rng.random() < 0.5:
            x = ctx.rng.choice(g.fin + g.acc)
            goals.append((ctx.rng.choice(["c", "k"]), 2, {x: 1}))
        out.append((p, goals, "gen:" + "+".join(sorted(g.features))))
    return out


def needed_monos(goals):
    ms = []
    for g in goals:
        for i in range(1, goal_order(g) + 1):
            m = mono_pow(goal_mono(g), i)
            if m not in ms:
                ms.append(m)
    return ms


def typed_envs(r, conds, limit=4096):
    """all valuations of the variables of the given condition dumps over Polar's finite types"""
    types = core.numeric_types(r["flat"].get("types", [])) if "unsupported" not in r.get("flat", {}) else {}
    vs = sorted(set().union(*[cond_dump_vars(c) for c in conds])) if conds else []
    envs = [[]]
    for x in vs:
        if x not in types:
            return None
        envs = [e + [(x, val)] for e in envs for val in types[x]]
        if len(envs) > limit:
            return None
    return envs


def oracle_case_file(p, ms, NF, N, Gs_ast, envs):
    body = P.COQ_HEADER.replace("Syntax Sem", "Syntax Sem Types Search AfterLoop")
    vs = P.prog_vars(p)
    vl = P.lst(['"%s"' % x for x in vs])
    body += f"Definition p0 : prog := {P.prog_coq(p)}.\n"
    body += f"Definition ms0 : list mono := {P.lst([P.mono_coq(m) for m in ms])}.\n"
    body += f"Eval vm_compute in (exit_moments {vl} p0 ms0 {NF}).\n"
    body += f"Eval vm_compute in (exit_moments_plain p0 ms0 2).\n"
    if Gs_ast is not None:
        body += f"Definition Gs : cond := {P.c_coq(Gs_ast)}.\n"
        body += f"Eval vm_compute in (event_moments {vl} p0 Gs ms0 {N}).\n"
        if envs is not None:
            el = P.lst([P.lst([f'("{x}", {P.q_coq(val)})' for x, val in e]) for e in envs])
            body += f"Eval vm_compute in [conds_agree {el} (p_guard p0) Gs; conds_agree {el} (stored_guard_old 8 p0) Gs].\n"
    return body


def ratio_rows(rows, ms, g, n):
    """exact value of the goal's conditional quantity from the oracle row n, or None if P(event) = 0"""
    den = rows[n][0]
    if den == 0:
        return None
    k = goal_order(g)
    raws = {i: rows[n][1 + ms.index(mono_pow(goal_mono(g), i))] / den for i in range(1, k + 1)}
    return convert(g[0], k, raws)


def tail_bounds(ctx, shapes_):
    """tail-bound goals after the loop (real GoalsAction.handle_tail_bound_*_goal with --after_loop): the printed upper
    bounds must be E(M^k | exit)/a^k and the lower bound (E(M)-a)^2/(E(M^2)-2aE(M)+a^2) for the after-loop moments the
    same run reports for E(M), E(M**2) (those values are what the main part of this check validates)."""
    tasks, meta = [], []
    for p, goals, tag in shapes_:
        raw = [g for g in goals if g[0] == "E" and sum(g[1].values()) == 1]
        if not raw or tag.startswith("divergent") or tag.startswith("collapse"):
            continue
        mon = gen.goal_text(raw[0][1])
        tasks.append({"kind": "afterloop_tail", "text": P.prog_text(p), "monom": mon, "a": 3, "timeout": 90})
        meta.append((p, tag, mon))
    res = lib.run_tasks(tasks, timeout=90)
    st = {"programs": len(tasks), "agree": 0, "inconclusive": 0, "infinite_or_symbolic_moments": 0}
    ctx.coverage["tail_bounds_after_loop"] = st
    for (p, tag, mon), r in zip(meta, res):
        text = P.prog_text(p)
        if r.get("error") in ("timeout", "crash"):
            st["inconclusive"] += 1
            continue
        ctx.coverage["obligations"] += 1
        ctx.count({"tail": text, "m": mon}, nontrivial=True)
        finite = lambda t: bool(re.fullmatch(r"-?\d+/\d+", t or ""))
        if ("exception" in r or "error" in r) and r.get("stage") in ("upper", "lower") and not (finite(r.get("m1")) and finite(r.get("m2"))):
            # a bound built from a divergent / symbolic after-loop moment: sympy's limit_seq may give up; nothing is reported
            st["infinite_or_symbolic_moments"] += 1
            ctx.coverage["obligations"] -= 1
            continue
        if "exception" in r or "error" in r:
            ex = r.get("exception") or {}
            ctx.violation(f"after-loop-tail-bound:refused:{r.get('stage')}:{ex.get('etype', r.get('error'))}",
                          {"program_text": text, "goals": r.get("goals"), "result": r},
                          f"tail-bound goals with --after_loop fail at goal '{r.get('stage')}' ({ex.get('etype')}: {str(ex.get('msg'))[:200]}) on\n{text}")
            continue
        m1, m2 = r.get("m1", ""), r.get("m2", "")
        if not re.fullmatch(r"-?\d+/\d+", m1) or not re.fullmatch(r"-?\d+/\d+", m2):
            st["infinite_or_symbolic_moments"] += 1
            ctx.coverage["obligations"] -= 1
            continue
        m1, m2, a = Fraction(m1), Fraction(m2), Fraction(3)
        ups = re.findall(r"^\s*\((\d+)\)\s*(\S+)\s*$", r.get("upper_printed", ""), re.M)
        low = re.search(r">=\s*(\S+)\s*$", r.get("lower_printed", "").strip().splitlines()[1] if len(r.get("lower_printed", "").strip().splitlines()) > 1 else "", re.M)
        want_up = sorted([m2 / a ** 2, m1 / a])   # "minimum of": the order of the printed list carries no meaning
        den = m2 - 2 * a * m1 + a * a
        want_low = (m1 - a) ** 2 / den if den != 0 else None
        try:
            got_up = sorted(Fraction(x) for _, x in ups)
            got_low = Fraction(low.group(1)) if low else None
        except (ValueError, ZeroDivisionError):
            got_up, got_low = None, None
        if got_up == want_up and (want_low is None or got_low == want_low):
            st["agree"] += 1
            ctx.coverage["discharged"] += 1
        else:
            ctx.violation(f"after-loop-tail-bound:{text}:{mon}", {"program_text": text, "monomial": mon, "a": 3, "result": r,
                                                                   "expected_upper": [str(x) for x in want_up], "expected_lower": str(want_low)},
                          f"tail bounds after the loop for {mon} (a = 3): printed upper bounds {[x for _, x in ups]} / lower bound "
                          f"{low.group(1) if low else None}, but E({mon}) = {m1}, E({mon}**2) = {m2} after the loop give "
                          f"{[str(x) for x in want_up]} / {want_low}\n{text}")


def run(ctx):
    import oracle
    ok, log = lib.coq_check_props(ctx)
    if not ok:
        ctx.violation("proof-broken", {"theorem": "props/C09.v", "log": log[-3000:]}, "props/C09.v no longer checks", no_input=True)
        return
    N = ctx.pick(8, 10)         # exact comparison of the conditional sequence: Polar at n = 1..N+1
    NF = ctx.pick(24, 40)       # far horizon for the limit (validation)
    n_prog = ctx.pick(20, 80)
    base = shapes(ctx.quick)
    n_shapes = len(base)
    base += gen_programs(ctx, max(0, n_prog - len(base)))
    # one Polar task per (program, goal): Polar's own limit_seq dominates the cost, goals run in parallel
    progs, is_shape, unit_pi = [], [], []
    for pi, (p, goals, tag) in enumerate(base):
        for g in goals:
            progs.append((p, [g], tag))
            is_shape.append(pi < n_shapes)
            unit_pi.append(pi)
    tasks = [{"kind": "afterloop", "text": P.prog_text(p), "goals": [goal_text(g) for g in goals], "nvals": N + 2,
              "timeout": ctx.pick(100, 400)} for p, goals, _ in progs]
    import time as _time
    phases = {"props_s": round(ctx.elapsed(), 1)}
    _t = _time.time()
    results = lib.run_tasks(tasks, timeout=ctx.pick(100, 400))
    phases["polar_s"] = round(_time.time() - _t, 1)
    errs, feats = {}, {}
    live = []
    for i, ((p, goals, tag), r) in enumerate(zip(progs, results)):
        for f in tag.replace("gen:", "").replace("loop:", "").split("+"):
            if f:
                feats[f] = feats.get(f, 0) + 1
        if "error" in r or "exception" in r:
            k = r.get("etype") or r.get("error") or r["exception"]["etype"]
            key = f"{r.get('stage', 'task')}:{k}"
            errs[key] = errs.get(key, 0) + 1
            if r.get("error") in ("timeout", "crash"):
                # inconclusive (machine load / sympy's limit_seq): counted, never a verdict
                ctx.coverage.setdefault("inconclusive_tasks", []).append({"tag": tag, "goal": goal_text(goals[0]), "why": r["error"]})
                continue
            if is_shape[i]:
                ctx.violation(f"refused:{tag}:{key}", {"program_text": P.prog_text(p), "result": r},
                              f"the --after_loop path fails on the hand-written shape '{tag}' ({key}: "
                              f"{(r.get('exception') or {}).get('msg', r.get('msg', ''))[:200]})\n{P.prog_text(p)}")
            continue
        live.append(i)
    # goals for which Polar printed a formula in n: ask sympy (in a worker, in the background) for the limit of
    # that formula taken with a single integer symbol n, to keep checking the value a repaired Polar would print
    import threading
    limit_tasks, limit_keys = [], []
    for i in live:
        for gi, gr in enumerate(results[i]["goals"]):
            if gr.get("after_loop_value", "").startswith("?"):
                limit_tasks.append({"kind": "limit", "expr": gr["after_loop"], "timeout": 40})
                limit_keys.append((i, gi))
    lres_box = {}

    def _limits():
        _t0 = _time.time()
        lres_box["res"] = lib.run_tasks(limit_tasks, timeout=40, jobs=6) if limit_tasks else []
        lres_box["s"] = round(_time.time() - _t0, 1)
    lthread = threading.Thread(target=_limits)
    lthread.start()
    # ---- exact oracle + guard agreement ------------------------------------------------------
    ofiles, ometa_p = [], {}
    by_prog = {}
    for i in live:
        by_prog.setdefault(unit_pi[i], []).append(i)
    for pi, idxs in by_prog.items():        # one oracle run per program (all goals of the program)
        p, goals, tag = base[pi]
        r = results[idxs[0]]
        ms = needed_monos(goals)
        Gs_ast, envs = None, None
        if r.get("original_loop_guard") is not None and "unsupported" not in r.get("flat", {}):
            Gs = rename_cond(r["original_loop_guard"], old_copies(r["flat"]))
            if not any(x.startswith("_") for x in cond_dump_vars(Gs)):
                Gs_ast = core.cond_to_ast(Gs)
                envs = typed_envs(r, [Gs, r["source_guard"]])
        ometa_p[pi] = {"ms": ms, "Gs": Gs_ast, "envs": envs is not None}
        ofiles.append((f"exit_{pi}", oracle_case_file(p, ms, NF, N, Gs_ast, envs)))
    _t = _time.time()
    oouts = lib.coq_run_many(ctx, ofiles, timeout=400)
    phases["oracle_s"] = round(_time.time() - _t, 1)
    exact_p = {}
    for pi in by_prog:
        okc, o = oouts[f"exit_{pi}"]
        rs = oracle.parse_results(o) if okc else []
        ms = ometa_p[pi]["ms"]
        if len(rs) < 2 or len(rs[0]) != NF + 1 or any(len(row) != len(ms) + 1 for row in rs[0]):
            errs["oracle-failed"] = errs.get("oracle-failed", 0) + 1
            continue
        if rs[0][:len(rs[1])] != rs[1]:
            raise RuntimeError("oracle self-check failed: compacted and plain semantics disagree on\n" + P.prog_text(base[pi][0]))
        bl = None
        for val, ty in parse_evals(o):
            if ty == "list bool":
                bl = [x.strip() == "true" for x in val.strip("[] \n").split(";")]
        exact_p[pi] = {"rows": rs[0], "event": rs[2] if len(rs) > 2 else None,
                       "src_agree": bl[0] if bl else None, "model_agree": bl[1] if bl else None}
    exact = {i: exact_p[unit_pi[i]] for i in live if unit_pi[i] in exact_p}
    ometa = {i: ometa_p[unit_pi[i]] for i in live}
    # ---- validators (all n) on Polar's closed forms ------------------------------------------
    vfiles, vmeta = [], {}
    for i in live:
        p, goals, tag = progs[i]
        r = results[i]
        try:
            defs = program_defs(r)
        except (core.NotModelled, ValueError, KeyError) as e:
            vmeta[i] = {"unsupported": str(e), "items": []}
            continue
        body = EXIT_HEADER + "From Polar Require Import AfterLoopLimit.\n" + defs
        body += "Eval vm_compute in [check_types fp0 T0; check_base cm0 fp0 T0 Ss0].\n"
        items = []
        for gi, (g, gr) in enumerate(zip(goals, r["goals"])):
            for k, part in sorted(gr.get("parts", {}).items()):
                try:
                    a = part_terms(r, part, mono_pow(goal_mono(g), int(k)))
                except (core.NotModelled, ValueError, KeyError) as e:
                    items.append((gi, int(k), None, str(e)))
                    continue
                body += f"Eval vm_compute in (check_part T0 G0 {a['M']} Ss0 {a['N']} {a['D']}).\n"
                body += f"Eval vm_compute in (option_map qpair (limit_value {a['fN']} {a['fD']})).\n"
                items.append((gi, int(k), a, None))
        vmeta[i] = {"items": items}
        vfiles.append((f"vx_{i}", body))
    _t = _time.time()
    vouts = lib.coq_run_many(ctx, vfiles, timeout=400)
    phases["validators_s"] = round(_time.time() - _t, 1)
    valid = {}      # (i, gi, k) -> {"accepted": bool|None, "limit": Fraction|None, "why": str}
    for i in live:
        vm = vmeta[i]
        if f"vx_{i}" not in vouts:
            for gi, g in enumerate(progs[i][1]):
                for k in range(1, goal_order(g) + 1):
                    valid[(i, gi, k)] = {"accepted": None, "limit": None, "why": vm.get("unsupported")}
            continue
        okc, o = vouts[f"vx_{i}"]
        ev = parse_evals(o) if okc else []
        b0 = [x.strip() == "true" for x in ev[0][0].strip("[] \n").split(";")] if ev else [False, False]
        types_ok, base_ok = b0[0], b0[-1]
        pos = 1
        for gi, k, a, why in vm["items"]:
            if a is None:
                valid[(i, gi, k)] = {"accepted": None, "limit": None, "why": why}
                continue
            if not okc or pos + 1 >= len(ev):
                valid[(i, gi, k)] = {"accepted": None, "limit": None, "why": "coq-error: " + o[-400:]}
                continue
            acc = base_ok and ev[pos][0] == "true"
            lim = parse_opt_q(ev[pos + 1][0]) if pos + 1 < len(ev) else None
            pos += 2
            valid[(i, gi, k)] = {"accepted": acc, "limit": lim, "why": None if acc else ("types-rejected" if not types_ok else "rejected"),
                                 "types_ok": types_ok}
    # ---- comparisons ---------------------------------------------------------------------------
    stat = {"cond_seq_agree": 0, "numden_agree": 0, "exit_validated_all_n": 0, "exit_unsupported": 0, "limit_proved_shape": 0,
            "limit_validated_far": 0, "limit_not_taken": 0, "divergent_reported_infinite": 0, "undefined_at_n": 0}
    pending_b = []
    model_reported = set()
    for i in live:
        p, goals, tag = progs[i]
        r = results[i]
        text = P.prog_text(p)
        ex = exact.get(i)
        ms = ometa[i]["ms"]
        has_aux = r.get("original_loop_guard") is not None and any(x.startswith("_old") for x in cond_dump_vars(r["original_loop_guard"]))
        if ex is not None and ex["model_agree"] is False and ex["src_agree"] is False and text not in model_reported:
            # neither the source guard (repaired behaviour) nor guard & collapsed conditions (the modelled defect)
            model_reported.add(text)
            ctx.violation(f"stored-guard-model:{text}", {"program_text": text, "original_loop_guard": r.get("original_loop_guard_text")},
                          f"program.original_loop_guard ({r.get('original_loop_guard_text')}) is neither the source guard (AfterLoop.stored_guard) "
                          f"nor the old rule's guard & collapsed first-level conditions (AfterLoop.stored_guard_old) on the typed states\n{text}",
                          no_input=True)
        for gi, (g, gr) in enumerate(zip(goals, r["goals"])):
            gname = goal_text(g)
            order = goal_order(g)
            if "exception" in gr:
                key = f"{gr.get('stage')}:{gr['exception']['etype']}"
                errs[key] = errs.get(key, 0) + 1
                if is_shape[i]:
                    ctx.violation(f"refused:{tag}:{gname}:{key}", {"program_text": text, "goal": gname, "result": gr},
                                  f"{gname} --after_loop fails on the hand-written shape '{tag}' ({key}: {gr['exception']['msg'][:200]})\n{text}")
                continue
            ctx.count({"t": text, "g": gname}, nontrivial=ex is not None and any(0 < row[0] < 1 for row in ex["rows"][:N + 1]))
            if ex is None:
                continue
            # (a) the conditional sequence, n = 1..N+1 against the exact value one guard test earlier
            bad = None
            for n in range(0 if not has_aux else 1, N + 2):
                ref_n = n - 1 if n >= 1 else 0
                want = ratio_rows(ex["rows"], ms, g, ref_n)
                got = gr["cond_values"][n] if n < len(gr.get("cond_values", [])) else None
                if want is None:
                    stat["undefined_at_n"] += 1
                    continue
                gv = parse_val(got)
                if gv is None or gv != want:
                    bad = (n, got, want, ref_n)
                    break
            collapse = ex["src_agree"] is False

            def single_term(part, which):
                ts = part.get(which + "_terms") or []
                return len(ts) == 1 and Fraction(ts[0][0]) != 1 and Fraction(part.get(which + "_const", "0")) == 0
            subs_defect = any(single_term(part, "num") or single_term(part, "den") for part in gr.get("parts", {}).values())
            subs_hit = False
            if bad is None:
                stat["cond_seq_agree"] += 1
            else:
                n, got, want, ref_n = bad
                sig = f"cond-sequence:{text}:{gname}"
                if subs_defect and got is not None and got.startswith("~") and "_old" in got:
                    # program variables left in the value: the single-term polynomial was not substituted
                    sig = KNOWN_SUBS
                    subs_hit = True
                if collapse and ex["event"] is not None:
                    # does Polar's sequence condition on the stored guard instead?
                    same = True
                    for m in range(1, N + 2):
                        w2 = ratio_rows(ex["event"], ms, g, m - 1)
                        g2 = parse_val(gr["cond_values"][m]) if m < len(gr["cond_values"]) else None
                        if w2 is not None and g2 != w2:
                            same = False
                            break
                    if same:
                        sig = KNOWN_COLLAPSE
                ctx.violation(sig, {"program_text": text, "goal": gname, "n": n, "polar_value": got, "exact_value": str(want),
                                    "exact_is_at_guard_test": ref_n, "original_loop_guard": r.get("original_loop_guard_text"),
                                    "polar_sequence": gr.get("cond_values"), "conditional_sequence": gr.get("cond"),
                                    "stored_guard_equivalent_to_source_guard": ex["src_agree"]},
                              f"{gname} given termination, program below: cli.common's moment-given-termination sequence gives {got} at n={n}; "
                              f"the exact conditional value given that the loop has stopped (guard found false at one of the first {n} tests) "
                              f"is {want}" + (f"; Polar conditions on the negation of {r.get('original_loop_guard_text')}, which is not the loop guard"
                                              if collapse else "") + f"\n{text}")
            # numerator / denominator against the exact ones, and ratio consistency
            nd_ok = True
            for k, part in sorted(gr.get("parts", {}).items()):
                if "num_values" not in part or bad is not None:
                    continue
                col = 1 + ms.index(mono_pow(goal_mono(g), int(k)))
                for n in range(1, N + 2):
                    pn, pd = parse_val(part["num_values"][n]), parse_val(part["den_values"][n])
                    en, ed = ex["rows"][n - 1][col], ex["rows"][n - 1][0]
                    rc = parse_val(gr["raw_cond_values"][k][n]) if k in gr.get("raw_cond_values", {}) else None
                    if pd not in (None, 0) and pn is not None and rc is not None and pn / pd != rc:
                        nd_ok = False
                        ctx.violation(f"ratio:{text}:{gname}", {"program_text": text, "goal": gname, "order": k, "n": n, "numerator": str(pn),
                                                                  "denominator": str(pd), "polar_value": str(rc), "exact_value": str(en / ed) if ed else None},
                                      f"moment-given-termination of order {k} for {gname} at n={n} is {rc}, but the ratio of the two moment "
                                      f"polynomials it is built from is {pn}/{pd}; exact value {en / ed if ed else 'undefined'}\n{text}")
                        break
                    if (pn, pd) != (en, ed) and not collapse and bad is None:
                        nd_ok = False
                        ctx.violation(f"numden:{text}:{gname}", {"program_text": text, "goal": gname, "order": k, "n": n, "polar_num": str(pn),
                                                                   "polar_den": str(pd), "exact_num": str(en), "exact_den": str(ed)},
                                      f"{gname}, order {k}, n={n}: E[M 1_stopped] / P(stopped) from get_moment_poly = {pn} / {pd}, exact {en} / {ed}\n{text}")
                        break
                if not nd_ok:
                    break
            if nd_ok and bad is None:
                stat["numden_agree"] += 1
            # all-n validation of numerator / denominator closed forms
            vs = [valid.get((i, gi, k)) for k in range(1, order + 1)]
            for k, vv in enumerate(vs, 1):
                if vv is None or vv["accepted"] is None:
                    stat["exit_unsupported"] += 1
                    continue
                if vv["accepted"] is False and vv.get("why") == "types-rejected":
                    stat["exit_unsupported"] += 1   # C05's subject (known there): nothing can be validated on unvalidated types
                    continue
                ctx.coverage["obligations"] += 1
                if vv["accepted"]:
                    ctx.coverage["discharged"] += 1
                    stat["exit_validated_all_n"] += 1
                elif bad is None:     # (otherwise the concrete failing input has been reported above)
                    ctx.violation(f"check_exit:{text}:{gname}:{k}", {"program_text": text, "goal": gname, "order": k,
                                                                      "part": gr["parts"].get(str(k))},
                                  f"numerator/denominator closed forms of order {k} for {gname} are not validated as E[M 1_(not G')]_n and "
                                  f"P(not G')_n for all n by AfterLoop.check_exit, although they agree with the exact values for n <= {N + 1}\n{text}",
                                  no_input=True)
            # (b) the printed value
            pv = gr.get("after_loop_value", "")
            exp = None
            if all(vv is not None and vv["accepted"] and vv["limit"] is not None for vv in vs):
                exp = ("val", convert(g[0], order, {k: vs[k - 1]["limit"] for k in range(1, order + 1)}))
            elif g[0] == "E" and vs[0] is not None and vs[0]["accepted"]:
                part = gr["parts"]["1"]
                gn, gd = growth(part["num_cf"]), growth(part["den_cf"])
                if gn and gd and gn[0] == "inf" and gd[0] == "const" and gd[1] > 0:
                    exp = ("inf", gn[1])
            far = [ratio_rows(ex["rows"], ms, g, n) for n in (N, (N + NF) // 2, NF)]
            pending_b.append({"i": i, "gi": gi, "g": g, "gr": gr, "exp": exp, "far": far, "collapse": (collapse and bad is not None) or subs_hit,
                              "text": text, "gname": gname})
    lthread.join()
    phases["limit_tasks_s(background)"] = lres_box.get("s")
    ctx.coverage["phase_seconds"] = phases
    by_key = dict(zip(limit_keys, lres_box.get("res", [])))
    repaired = {idx: by_key[(b["i"], b["gi"])] for idx, b in enumerate(pending_b) if (b["i"], b["gi"]) in by_key}
    for idx, b in enumerate(pending_b):
        gr, exp, far, text, gname = b["gr"], b["exp"], b["far"], b["text"], b["gname"]
        pv = gr.get("after_loop_value", "")
        shown = gr.get("printed")
        if b["collapse"]:
            continue   # reported above with the sequence (known defect): the printed value is the limit of that sequence
        if pv.startswith("?"):
            stat["limit_not_taken"] += 1
            ctx.violation(KNOWN_NO_LIMIT, {"program_text": text, "goal": gname, "printed": shown},
                          f"--after_loop prints a formula in n instead of the limit: {shown}\n{text}")
            # the printed formula must at least be the general branch of the conditional sequence
            alv = gr.get("after_loop_values") or []
            for n in (N, N + 1):
                if n < len(alv) and n < len(gr.get("cond_values", [])) and parse_val(gr["cond_values"][n]) is not None \
                        and parse_val(alv[n]) != parse_val(gr["cond_values"][n]):
                    ctx.violation(f"after-loop-formula:{text}:{gname}", {"program_text": text, "goal": gname, "printed": shown, "n": n,
                                                                          "printed_at_n": alv[n], "sequence_at_n": gr["cond_values"][n]},
                                  f"{gname} after the loop: the printed formula {shown} is not the general term of the moment-given-"
                                  f"termination sequence (at n={n}: {alv[n]} vs {gr['cond_values'][n]})\n{text}")
                    break
            lr = repaired.get(idx, {})
            if not lr.get("limit") or lr["limit"].startswith("?"):
                stat["repaired_limit_unavailable"] = stat.get("repaired_limit_unavailable", 0) + 1
                continue   # sympy finds no limit within the time budget: nothing of Polar's left to compare
            pv = lr["limit"]
            how = f"limit of the printed formula {gr.get('after_loop')} (taken with one integer symbol n)"
        else:
            how = f"printed value {shown}"
        val = parse_val(pv)
        if exp is not None and exp[0] == "val":
            stat["limit_proved_shape"] += 1
            if val is None or val != exp[1]:
                ctx.violation(f"after-loop-value:{text}:{gname}", {"program_text": text, "goal": gname, "printed": shown, "value": pv,
                                                                    "expected_limit": str(exp[1]), "exact_values_far": [str(x) for x in far],
                                                                    "n": NF},
                              f"{gname} after the loop: {how} is {pv}; the validated numerator/denominator closed forms converge to "
                              f"{exp[1]} (AfterLoopLimit.limit_value_sound); exact conditional values at n = {N}, {(N + NF) // 2}, {NF}: "
                              f"{', '.join(str(x) for x in far)}\n{text}")
        elif exp is not None and exp[0] == "inf":
            want = "!oo" if exp[1] > 0 else "!-oo"
            grows = all(x is not None for x in far) and abs(far[0]) < abs(far[1]) < abs(far[2])
            if pv == want and grows:
                stat["divergent_reported_infinite"] += 1
            else:
                ctx.violation(f"after-loop-divergent:{text}:{gname}", {"program_text": text, "goal": gname, "printed": shown, "value": pv,
                                                                        "exact_values_far": [str(x) for x in far], "n": NF},
                              f"{gname} after the loop diverges (dominant growing term in the validated numerator; exact conditional values "
                              f"at n = {N}, {(N + NF) // 2}, {NF}: {', '.join(str(x) for x in far)}) but {how} is {pv}\n{text}")
        elif pv in ("!nan", "!zoo") and all(x is not None for x in far):
            # neither a number nor an infinity is the answer when the loop stops with positive probability: every term of the
            # conditional sequence is then a finite number (far values exist), so its limit is a number, +oo, -oo, or does not
            # exist.  (A loop that never stops has an undefined conditional expectation: nan is right there.)
            ctx.violation(f"after-loop-nan:{text}:{gname}", {"program_text": text, "goal": gname, "printed": shown, "value": pv,
                                                              "exact_values_far": [str(x) for x in far], "n": NF},
                          f"{gname} after the loop: {how} is {pv[1:]}; the exact conditional values at n = {N}, {(N + NF) // 2}, {NF} are "
                          f"{', '.join(str(x) for x in far)}\n{text}")
        else:
            # unknown shape: validation against the exact values only
            if val is not None and all(x is not None for x in far):
                d = [abs(x - val) for x in far]
                if d[2] <= d[0]:
                    stat["limit_validated_far"] += 1
                else:
                    ctx.violation(f"after-loop-far:{text}:{gname}", {"program_text": text, "goal": gname, "printed": shown, "value": pv,
                                                                      "exact_values_far": [str(x) for x in far], "n": NF},
                                  f"{gname} after the loop: {how} is {pv} but the exact conditional values move away from it: "
                                  f"n = {N}, {(N + NF) // 2}, {NF}: {', '.join(str(x) for x in far)}\n{text}")
        if len(ctx.coverage["samples"]) < 6 and exp is not None:
            ctx.sample({"program": text, "goal": gname, "printed": shown, "conditional_sequence_n1..": gr.get("cond_values", [])[1:6],
                        "exact_n0..": [str(ratio_rows(exact[b["i"]]["rows"], ometa[b["i"]]["ms"], b["g"], n)) for n in range(0, 5)],
                        "limit_from_validated_closed_forms": str(exp[1]) if exp[0] == "val" else "infinite"})
    tail_bounds(ctx, base[:n_shapes])
    ctx.coverage["rule"] = (f"one case = (program, goal); {n_shapes} hand-written guarded shapes (one/two-variable guards, inequality guard, collapse of a first-level if, "
                            "termination a.s. / with probability < 1 / already at the start, constant / state-dependent / divergent exit "
                            "expectations) + programs from harness/gen.py with guard=True (no multi-assignment); goals: raw moments of degree <= 3, "
                            f"c2, k2; Polar's conditional sequence at n = 1..{N + 1} vs the exact conditional moments of the SOURCE program "
                            f"(Sem.run, vm_compute) one guard test earlier; numerator and denominator closed forms validated for all n by "
                            f"AfterLoop.check_exit; printed value vs AfterLoopLimit.limit_value of the validated closed forms, exact values up "
                            f"to n = {NF}; non-trivial = 0 < P(stopped) < 1 at some n <= {N}; distinct by (text, goal)")
    secs = sorted(((gr.get("seconds_after_loop") or 0, progs[i][2], gr.get("goal")) for i in live for gr in results[i].get("goals", [])), reverse=True)
    ctx.coverage["slowest_polar_goals"] = [{"seconds": x, "tag": t, "goal": g} for x, t, g in secs[:5]]
    ctx.coverage["feature_histogram"] = feats
    ctx.coverage["polar_errors"] = errs
    ctx.coverage["comparison_status"] = stat
    ctx.coverage["input_distribution"] = {"programs": len(base), "goal_tasks": len(progs), "analysed_goal_tasks": len(live),
                                          "hand_written_programs": n_shapes, "generated_programs": len(base) - n_shapes,
                                          "inconclusive_timeouts": errs.get("task:timeout", 0), "N": N, "N_far": NF}
    ctx.coverage["trusted_base"] += [
        "harness/progast.py printers (the same AST is printed as Polar text and as a Coq term)",
        "harness/tasks_afterloop.py (arguments built by Polar's own ArgumentParser; goals handled by the real GoalsAction.handle_*_goal)",
        "harness/exppoly.py decomposition of sympy closed forms (re-evaluated by the validators)",
        "harness/tasks_core.py structural dump of Polar's flat program, types, original_loop_guard",
        "sympy substitution of n by integers in Polar's closed forms (values compared with the exact ones)"]
    ctx.assumptions += [
        "'the loop has stopped by n' is read as: the guard was found false at one of the first n guard tests (the event Polar's normalised "
        "program can observe after n iterations of `while true: if G`): Polar's sequence at n >= 1 is compared with the exact conditional "
        "moments in the state after n-1 iterations (C09_cond_exit_test_shift relates the two readings); the value at n = 0, where Polar "
        "returns an expression in the undefined initial value of its _old copies, is compared only when the stored guard has no such copy",
        "programs are sampled; finite discrete programs only (exact oracle by exhaustive enumeration)",
        f"the limit is proved for closed forms of the shape constant + sum r^n P(n), |r| < 1, rational bases (AfterLoopLimit.limit_value_sound); "
        f"other shapes are validated against exact values up to n = {NF}",
        "flat program vs source program (normalisation) is C02's subject; here it is covered by the comparison with the source semantics for "
        f"n <= {N + 1}; the all-n statement of check_exit is about Polar's flat program started with its _old copies at the smallest value of their type",
        "C05's known defect (types of renamed versions under a loop guard) is excluded from the generator (no multi-assignment)"]
