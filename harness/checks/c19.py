"""C19 — texts that denote the same loop yield the same analysis.

proof part : props/C19.v — token-level reference parser with Python precedence inverts every
             spelling of an AST (any redundant parentheses; full and minimal printers), conditions as
             syntax.lark's LALR tables read them; sugar theorems under Sem.v (elif = nested else-if,
             simultaneous = temporaries, implicit last probability = 1 - sum, decimal = fraction);
             validity of probability vectors; refutations for the faithful models of
             _assign_categorical's text "1-p1-.." and of PolyAssignment.__init__ (no validation).
tie        : K text level, every run: generated program ASTs are written in many spellings, parsed by
             the REAL parser, dumped canonically and compared with the model of the structure
             transformer; arithmetic printed by the verified minimal printer must evaluate to the
             AST's value; full analysis compared across spellings and with the Coq oracle; the
             Python mirror of the reference grammar is cross-checked against the proven Coq functions.
malformed  : single-token mutations guaranteed to leave the language must raise a parse error;
             invalid constant probability vectors must be rejected."""
import json
from fractions import Fraction

import lib
import oracle
import progast
import textgen as T

SIG_IMPLICIT = "StructureTransformer._assign_categorical:implicit-last-probability-not-parenthesised"
SIG_FLOAT = "float_to_rational:float-arithmetic-before-rationalisation"
SIG_TYPES_COMMENT = "syntax.lark:typedefs:comment-line-between-typedefs"
SIG_PROBS = "PolyAssignment:no-probability-validation"
SIG_LITERAL = "decimal-literal-not-read-exactly"
PARSE_ERRORS = ("lark-syntax", "parse-exception", "constructor-error")


# ---- cross-check of the Python mirror against the proven Coq parser -------------------------
COQ_HDR = ("From Coq Require Import String List NArith Bool.\nFrom Polar Require Import Parse ParseCond.\n"
           "Import ListNotations.\nOpen Scope string_scope.\n"
           "Fixpoint sx_eqb (a b : sx) : bool := match a, b with\n"
           " | XNum m k, XNum m' k' => N.eqb m m' && Nat.eqb k k' | XVar x, XVar y => String.eqb x y\n"
           " | XNeg a, XNeg b => sx_eqb a b\n"
           " | XAdd a1 a2, XAdd b1 b2 | XSub a1 a2, XSub b1 b2 | XMul a1 a2, XMul b1 b2 | XDiv a1 a2, XDiv b1 b2\n"
           " | XPow a1 a2, XPow b1 b2 => sx_eqb a1 b1 && sx_eqb a2 b2 | _, _ => false end.\n"
           "Definition cop_eqb (a b : scop) : bool := match a, b with Oeq, Oeq | Ole, Ole | Oge, Oge | Olt, Olt | Ogt, Ogt | One, One => true | _, _ => false end.\n"
           "Fixpoint sc_eqb (a b : sc) : bool := match a, b with\n"
           " | KTrue, KTrue | KFalse, KFalse => true | KAtom a o b, KAtom a' o' b' => sx_eqb a a' && cop_eqb o o' && sx_eqb b b'\n"
           " | KNot a, KNot b => sc_eqb a b | KAnd a1 a2, KAnd b1 b2 | KOr a1 a2, KOr b1 b2 => sc_eqb a1 b1 && sc_eqb a2 b2\n"
           " | _, _ => false end.\n"
           "Definition oe (x : option sx) (y : option sx) : bool := match x, y with Some a, Some b => sx_eqb a b | None, None => true | _, _ => false end.\n"
           "Definition oc (x : option sc) (y : option sc) : bool := match x, y with Some a, Some b => sc_eqb a b | None, None => true | _, _ => false end.\n")


def expr_mutants(ts, rng):
    out = []
    if len(ts) > 1:
        i = rng.randrange(len(ts))
        out.append(ts[:i] + ts[i + 1:])
    i = rng.randrange(len(ts) + 1)
    out.append(ts[:i] + [rng.choice(["+", "-", "*", "/", "**", "(", ")", ("NUM", 7, 0), ("ID", "q")])] + ts[i:])
    i = rng.randrange(len(ts))
    out.append(ts[:i] + [rng.choice(["+", "-", "*", "/", "**", "(", ")", ("NUM", 7, 0), ("ID", "q")])] + ts[i + 1:])
    return out


def mirror_crosscheck(ctx):
    """the Python reference parser used to generate / judge texts is the proven Coq function: same
    answers on spellings and on arbitrary single-token mutants of them (valid or not)"""
    rng = ctx.rng
    n = ctx.pick(120, 600)
    ecases, ccases = [], []
    for _ in range(n):
        e = T.gen_sx(rng, rng.randint(1, 4), polar=False)
        for ex in (None, lambda: 1, lambda: rng.choice([0, 0, 1, 2])):
            ts = T.strip_style(T.print_spelling(e, ex))
            ecases.append((ts, T.parse_expr(ts)))
            if T.parse_expr(ts) != e:
                ctx.violation("mirror:print-parse", {"expr": e, "tokens": ts}, "Python mirror: parse(print e) != e", no_input=True)
        for m in expr_mutants(T.strip_style(T.print_min(e)), rng):
            ecases.append((m, T.parse_expr(m)))
    g = T.ProgGen(rng, {"params": False, "decarith": False})
    for _ in range(n // 2):
        c = T.strip_sc(T.surf_cond(g.cond(3), T.Spelling()))
        for ex in (None, lambda: 1, lambda: rng.choice([0, 0, 1])):
            ts = T.strip_style(T.printc_spelling(c, ex, 0, ex))
            ccases.append((ts, T.parse_cond(ts)))
            if T.parse_cond(ts) != c:
                ctx.violation("mirror:print-parse-cond", {"cond": c, "tokens": ts}, "Python mirror: parse_cond(print c) != c", no_input=True)
        base = T.strip_style(T.printc_spelling(c, None, 0, None))
        i = rng.randrange(len(base))
        for m in (base[:i] + base[i + 1:], base[:i] + [rng.choice(["&&", "||", "!", "(", ")", "true", ("COP", "<")])] + base[i:]):
            ccases.append((m, T.parse_cond(m)))
    files = []
    per = 150
    allc = [("e", ts, r) for ts, r in ecases] + [("c", ts, r) for ts, r in ccases]
    for j in range(0, len(allc), per):
        body = COQ_HDR + "Eval vm_compute in [\n"
        items = []
        for kind, ts, r in allc[j:j + per]:
            if kind == "e":
                items.append(f"oe (parse_expr {T.coq_toks(ts)}) ({'Some ' + T.coq_sx(r) if r is not None else 'None'})")
            else:
                items.append(f"oc (parse_cond {T.coq_toks(ts)}) ({'Some ' + T.coq_sc(r) if r is not None else 'None'})")
        body += ";\n".join(items) + "].\n"
        files.append((f"c19_mirror_{j // per}", body))
    res = lib.coq_run_many(ctx, files)
    agree = 0
    for j in range(0, len(allc), per):
        ok, out = res[f"c19_mirror_{j // per}"]
        bl = lib.parse_bool_list(out) if ok else None
        chunk = allc[j:j + per]
        if bl is None or len(bl) != len(chunk):
            ctx.violation("mirror:coq-error", {"log": out[-1500:]}, "could not evaluate the Coq reference parser on the case file", no_input=True)
            continue
        for (kind, ts, r), b in zip(chunk, bl):
            ctx.coverage["obligations"] += 1
            if b:
                agree += 1
                ctx.coverage["discharged"] += 1
            else:
                ctx.violation("mirror:disagrees", {"kind": kind, "tokens": ts, "python": r},
                              "the Python mirror of the reference grammar and the proven Coq parser disagree", no_input=True)
    ctx.coverage["mirror_cases"] = {"expr": len(ecases), "cond": len(ccases), "agree": agree,
                                    "rejected_by_both": sum(1 for _, _, r in allc if r is None)}


# ---- the defective model of _assign_categorical (for classifying the known finding) ----------
def defect_dump(p, logs):
    """model dump where an omitted last probability is what the text "1-p1-..-pk" of the probability
    texts AS SPELLED parses to (Python precedence); logs: per multi-way choice in program order the
    token lists of its listed probabilities (None when the last probability was explicit)"""
    it = iter(logs)

    def fix_rhs(r):
        if r[0] != "choice" or len(r[1]) < 2:
            return T.rhs_dump(r)
        lg = next(it)
        d = T.rhs_dump(r)
        if lg is None:
            return d
        toks = [("NUM", 1, 0)]
        for t in lg:
            toks += ["-"] + T.strip_style(t)
        e = T.parse_expr(toks)
        try:
            d[1][-1][0] = T.poly_dump(T.to_poly(e))
        except Exception:
            d[1][-1][0] = ["nonpoly"]
        return d

    names = T._Names()

    def stmts(b):
        out = []
        for s in b:
            if s[0] == "assign":
                out.append(["assign", s[1], fix_rhs(s[2])])
            elif s[0] == "simult":
                ts = [names.fresh() for _ in s[1]]
                for (x, r), t in zip(s[1], ts):
                    out.append(["assign", t, fix_rhs(r)])
                for (x, r), t in zip(s[1], ts):
                    out.append(["assign", x, ["choice", [[T.poly_dump(T.pconst(1)), T.poly_dump({((t, 1),): Fraction(1)})]]]])
            else:
                brs = [[T.cond_dump(c), stmts(bb)] for c, bb in s[1]]
                els = stmts(s[2]) if s[2] is not None else None
                out.append(T.flatten_if(["if", brs, els]))
        return out

    types = sorted([[v, sorted(T.poly_dump(T.pconst(x)) for x in vals)] for v, vals in (p.get("types") or [])])
    d = {"types": types, "init": stmts(p["init"]), "guard": T.cond_dump(p["guard"]), "body": stmts(p["body"])}
    return T.alpha_normalise(d)


def flag_dump(p, sp):
    """same shape as the model dump, but every polynomial is replaced by a bool: may the CAS have combined a
    decimal literal of the originating expression (as spelled by sp) with another numeral in float arithmetic?
    A lone decimal literal must be read exactly, whatever its length."""
    def fe(e):
        return T.may_combine_floats(T.surf_expr(e, sp))

    def fc(c):
        if c[0] in ("true", "false"):
            return [c[0]]
        if c[0] == "atom":
            a, b = T.surf_expr(c[1], sp), T.surf_expr(c[3], sp)
            na, da = T.count_literals(a)
            nb, db = T.count_literals(b)
            return ["atom", T.may_combine_floats(a) or T.may_combine_floats(b), c[2]]
        if c[0] == "not":
            return ["not", fc(c[1])]
        return [c[0], fc(c[1]), fc(c[2])]

    def fr(r):
        if r[0] == "draw":
            d = r[1]
            if d[0] == "bern":
                return ["draw", "Bernoulli", [fe(d[1])]]
            if d[0] == "cat":
                return ["draw", "Categorical", [fe(q) for q in d[1]]]
            if d[0] == "unif":
                return ["draw", "DiscreteUniform", [False, False]]
            return ["draw", d[1], [fe(q) for q in d[2]]]
        alts = [[fe(q), fe(e)] for q, e in r[1]]
        if sp.last_prob == "implicit" and len(alts) >= 2:
            alts[-1][0] = any(a[0] for a in alts[:-1])     # 1 - sum of the (separately rationalised) listed ones
        return ["choice", alts]

    def fs(b):
        out = []
        for s in b:
            if s[0] == "assign":
                out.append(["assign", s[1], fr(s[2])])
            elif s[0] == "simult":
                for x, r in s[1]:
                    out.append(["assign", "_", fr(r)])
                for x, r in s[1]:
                    out.append(["assign", x, ["choice", [[False, False]]]])
            else:
                brs = [[fc(c), fs(bb)] for c, bb in s[1]]
                els = fs(s[2]) if s[2] is not None else None
                out.append(T.flatten_if(["if", brs, els]))
        return out

    return {"types": None, "init": fs(p["init"]), "guard": fc(p["guard"]), "body": fs(p["body"])}


def prob_flags(fd):
    """all flags at probability / distribution-parameter positions of a flag dump"""
    out = []

    def walk(b):
        for st in b:
            if st[0] == "assign":
                r = st[2]
                if r[0] == "choice":
                    out.extend(a[0] for a in r[1])
                elif r[0] == "draw":
                    out.extend(r[2])
            else:
                for _, bb in st[1]:
                    walk(bb)
                if st[2] is not None:
                    walk(st[2])

    walk(fd["init"])
    walk(fd["body"])
    return out


def localise(model, polar, flags, path=""):
    """walk the three parallel dumps; -> list of (path, kind) for every differing polynomial leaf:
    kind 'float' (rounding-sized difference where float combination is possible), 'exact-required'
    (difference at a lone literal or beyond rounding), 'structure' (anything else)"""
    if model == polar:
        return []
    if isinstance(flags, bool):
        if _is_poly(model) and _is_poly(polar) and flags and coarse(model) == coarse(polar):
            return [(path, "float")]
        if _is_poly(model) and _is_poly(polar):
            return [(path, "exact-required" if not flags else "structure")]
        return [(path, "structure")]
    if isinstance(model, dict) and isinstance(polar, dict) and isinstance(flags, dict):
        out = []
        for k in model:
            if k == "types":
                if model[k] != polar.get(k):
                    out.append((path + "/types", "exact-required"))
                continue
            out += localise(model[k], polar.get(k), flags.get(k), path + "/" + k)
        return out
    if isinstance(model, list) and isinstance(polar, list) and isinstance(flags, list) and len(model) == len(polar) == len(flags):
        out = []
        for i, (a, b, f) in enumerate(zip(model, polar, flags)):
            out += localise(a, b, f, f"{path}/{i}")
        return out
    return [(path, "structure")]


def _is_poly(x):
    return isinstance(x, list) and all(isinstance(t, list) and len(t) == 2 and isinstance(t[0], str) and "/" in t[0]
                                       and isinstance(t[1], list) for t in x)


def coarse(x):
    """classification only: polynomials as {monomial: float rounded to 9 digits}, tiny coefficients dropped"""
    if _is_poly(x):
        d = {}
        for c, m in x:
            v = float(Fraction(c))
            if abs(v) > 1e-12:
                d[json.dumps(m)] = float(f"{v:.9g}")
        return d
    if isinstance(x, list):
        return [coarse(t) for t in x]
    if isinstance(x, dict):
        return {k: coarse(v) for k, v in x.items()}
    return x


def approx_equal(a, b, tol=1e-9):
    """same structure, coefficients equal up to rounding (classification of the known float finding only)"""
    return coarse(a) == coarse(b)


def spell(p, sp):
    """-> (tokens, text, logs)"""
    logs = []
    orig_rhs = T.rhs_toks

    def rhs_logged(r, s):
        if r[0] == "choice" and len(r[1]) >= 2:
            alts = r[1]
            out = []
            listed = []
            for i, (pp, e) in enumerate(alts):
                out += T.expr_toks(e, s)
                if i < len(alts) - 1 or s.last_prob == "explicit":
                    pt = T.expr_toks(pp, s)
                    if i < len(alts) - 1:
                        listed.append(pt)
                    out += ["{"] + pt + ["}"]
            logs.append(listed if s.last_prob == "implicit" else None)
            return out
        return orig_rhs(r, s)

    T.rhs_toks = rhs_logged
    try:
        toks = T.prog_toks(p, sp)
    finally:
        T.rhs_toks = orig_rhs
    return toks, T.render(toks, sp), logs


# ---- K: parse-level correspondence ---------------------------------------------------------------
def parse_correspondence(ctx, hist):
    rng = ctx.rng
    nprog = ctx.pick(45, 500)
    progs = []
    for i in range(nprog):
        g = T.ProgGen(rng)
        p = g.prog()
        progs.append((p, g))
    tasks, meta = [], []
    for p, g in progs:
        md = T.model_dump(p)
        entries = []
        for kind, sp in T.spellings(p, rng, with_types_comment=True):
            toks, text, logs = spell(p, sp)
            clean = [t for t in toks if t not in ("IN", "OUT", "TYPES_IN", "TYPES_OUT")]
            if not T.program_valid(toks) or not T.polar_ok(clean):
                ctx.violation("generator:invalid-spelling", {"text": text, "kind": kind}, "generator produced a spelling its own grammar rejects", no_input=True)
                continue
            entries.append((kind, sp, text, logs))
        tasks.append({"kind": "c19_parse", "texts": [e[2] for e in entries], "timeout": 120})
        meta.append((p, g, md, entries))
    results = yield tasks
    for (p, g, md, entries), r in zip(meta, results):
        if "results" not in r:
            ctx.violation("worker:" + r.get("error", "?"), {"result": r, "texts": [e[2] for e in entries]},
                          f"Polar worker failed on a parse task: {r.get('error')} {r.get('etype', '')}", no_input=True)
            continue
        baseline_ok = bool(entries) and entries[0][0] == "baseline" and r["results"][0].get("ok") == md
        for (kind, sp, text, logs), x in zip(entries, r["results"]):
            hist["spelling"][kind] = hist["spelling"].get(kind, 0) + 1
            ctx.count({"t": text}, nontrivial=len(p["body"]) >= 2)
            ctx.coverage["obligations"] += 1
            replay = {"text": text, "spelling": sp.describe(), "kind": kind, "program": p, "model_dump": md}
            if "ok" not in x:
                if kind == "comment-line-in-types" and "err" in x and x["err"]["kind"] == "lark-syntax":
                    if not ctx.violation(SIG_TYPES_COMMENT, dict(replay, polar=x),
                                         "a comment line between two typedefs is rejected (same text without the comment parses)"):
                        ctx.coverage["discharged"] += 1
                    continue
                if sp.consts == "dec" and baseline_ok and "err" in x and x["err"]["kind"] == "constructor-error" \
                        and "sum up to 1" in x["err"]["msg"] and not any(prob_flags(flag_dump(p, sp))):
                    ctx.violation(SIG_LITERAL + ":probabilities-rejected", dict(replay, polar=x),
                                  "decimal spelling rejected although every probability is a lone decimal literal: "
                                  "some literal is not read as its exact decimal value")
                    continue
                if sp.consts == "dec" and baseline_ok and "err" in x and x["err"]["kind"] == "constructor-error" \
                        and "sum up to 1" in x["err"]["msg"]:
                    # Categorical(0, 2/3, 0.5 - 1/6): the float difference is rationalised to 0.333333333333333
                    if not ctx.violation(SIG_FLOAT, dict(replay, polar=x),
                                         "decimal spelling rejected: Categorical parameters combined in float arithmetic no longer sum to 1"):
                        ctx.coverage["discharged"] += 1
                        hist["known"][SIG_FLOAT] = hist["known"].get(SIG_FLOAT, 0) + 1
                    continue
                ctx.violation(f"valid-spelling-rejected:{kind}:{x.get('err', {}).get('etype', x.get('dump_error', '?'))}",
                              dict(replay, polar=x), f"Polar rejects a valid spelling ({kind}): {x.get('err') or x.get('dump_error')}")
                continue
            if x["ok"] == md:
                ctx.coverage["discharged"] += 1
                if kind in ("mixed", "implicit-last-min"):
                    ctx.sample({"kind": kind, "text": text, "agrees_with_model": True})
                continue
            # mismatch: classify
            dd = defect_dump(p, logs)
            replay["polar_dump"] = x["ok"]
            sigs = []
            if x["ok"] == dd and dd != md:
                sigs = [SIG_IMPLICIT]
            elif sp.consts == "dec":
                base = md
                if dd != md and coarse(x["ok"]) == coarse(dd):
                    base = dd
                diffs = localise(base, x["ok"], flag_dump(p, sp))
                replay["differences"] = diffs
                kinds_ = {k_ for _, k_ in diffs}
                if diffs and kinds_ == {"float"}:
                    sigs = [SIG_FLOAT] + ([SIG_IMPLICIT] if base is dd else [])
                elif "exact-required" in kinds_ and "structure" not in kinds_:
                    ctx.violation(SIG_LITERAL + ":" + kind, replay,
                                  "a decimal literal that is the only numeral of its expression (coefficient, constant, probability, "
                                  f"parameter, type value) is not read as its exact decimal value: {diffs[:3]}")
                    continue
            if sigs:
                new = False
                for s_ in sigs:
                    what = ("omitted last probability is built from the unparenthesised probability texts: "
                            "1-a+b instead of 1-(a+b)") if s_ == SIG_IMPLICIT else \
                        "decimal literals are combined in float arithmetic before float_to_rational: inexact coefficient"
                    new = ctx.violation(s_, replay, what) or new
                if not new:
                    ctx.coverage["discharged"] += 1
                    hist["known"][sigs[0]] = hist["known"].get(sigs[0], 0) + 1
                continue
            ctx.violation(f"parse-dump-differs:{kind}", replay,
                          f"spelling '{kind}' of a program parses to a different structure than the AST it spells")


def frac_twin(e):
    """the same AST with every decimal literal m/10^k written as the quotient of two integer literals"""
    if e[0] == "num":
        return e if e[2] == 0 else ("div", ("num", e[1], 0), ("num", 10 ** e[2], 0))
    if e[0] == "var":
        return e
    return (e[0],) + tuple(frac_twin(a) for a in e[1:])


# ---- lone decimal literals of every length must be read exactly (C19_decimal_fraction_same) -----------------
def literal_check(ctx, hist):
    rng = ctx.rng
    n = ctx.pick(14, 80)
    lits = [Fraction(1234567890123456789, 10 ** 19), Fraction(3333333333333333333, 10 ** 19), 2 + Fraction(1, 10 ** 20),
            Fraction(1, 4) + Fraction(1, 10 ** 19), Fraction(1234567890123456, 10 ** 16), Fraction(12345678901234567, 10 ** 17)]
    lits += [T.long_decimal(rng) for _ in range(n - len(lits))]
    one = ("const", Fraction(1))
    texts, meta = [], []
    for q in lits:
        u = q - int(q) if not (0 < q < 1) else q          # a probability with the same digits
        if u == 0:
            u = Fraction(1, 3 * 10 ** 18).limit_denominator(10 ** 20) + Fraction(1, 8)
        c, cu = ("const", q), ("const", u)
        p = {"types": [("w", sorted({q, Fraction(0)}))],
             "init": [("assign", "x", ("choice", [(one, c)])), ("assign", "y", ("choice", [(one, ("neg", c))]))],
             "guard": ("atom", ("var", "x"), "<", c),
             "body": [("assign", "x", ("choice", [(one, ("mul", c, ("var", "y")))])),
                      ("assign", "y", ("choice", [(one, ("add", ("mul", ("var", "x"), c), ("var", "y")))])),
                      ("assign", "z", ("choice", [(cu, ("var", "x")), (("const", 1 - u), ("var", "y"))])),
                      ("assign", "u", ("draw", ("bern", cu))),
                      ("assign", "v", ("draw", ("cat", [cu, ("const", 1 - u)]))),
                      ("assign", "w", ("draw", ("cont", "Normal", [c, ("var", "x")]))),
                      ("simult", [("x", ("choice", [(one, c)])), ("y", ("draw", ("cont", "Uniform", [("neg", c), c])))]),
                      ("if", [(("atom", c, ">=", ("var", "y")), [("assign", "x", ("choice", [(one, ("pow", ("var", "x"), 2))]))])], None)]}
        md = T.model_dump(p)
        for lp in ("explicit", "implicit"):
            sp = T.Spelling(rng, consts="dec", parens=rng.choice(["min", "random"]), last_prob=lp,
                            ws=rng.choice(["normal", "tight", "wide"]))
            assert not any(f for f in _flat_flags(flag_dump(p, sp)))
            texts.append(T.prog_text(p, sp))
            meta.append((q, p, md, sp))
    res = (yield [{"kind": "c19_parse", "texts": texts[i:i + 10], "timeout": 120} for i in range(0, len(texts), 10)])
    flat = []
    for r in res:
        flat += r.get("results", [{"err": {"kind": "worker", "etype": r.get("error", "?"), "msg": ""}}] * 10)
    stat = {"texts": 0, "exact": 0, "digits": {}}
    for (q, p, md, sp), text, x in zip(meta, texts, flat):
        stat["texts"] += 1
        nd = len(str(T.dec_parts(abs(q))[0]))
        stat["digits"][nd] = stat["digits"].get(nd, 0) + 1
        ctx.coverage["obligations"] += 1
        ctx.count({"t": text}, nontrivial=True)
        if x.get("err", {}).get("kind") == "worker":
            ctx.coverage["obligations"] -= 1
            continue
        if x.get("ok") == md:
            stat["exact"] += 1
            ctx.coverage["discharged"] += 1
            if stat["exact"] <= 1:
                ctx.sample({"kind": "lone-decimal-literals", "text": text, "agrees_with_exact_decimal_value": True})
            continue
        diffs = localise(md, x["ok"], flag_dump(p, sp)) if "ok" in x else [("", str(x.get("err") or x.get("dump_error")))]
        ctx.violation(SIG_LITERAL + f":{nd}-digits", {"text": text, "literal": str(q), "spelling": sp.describe(), "polar": x,
                                                      "model_dump": md, "differences": diffs},
                      f"the decimal literal with value {q} ({nd} significant digits) standing alone as coefficient / constant / "
                      f"probability / parameter / type value / condition bound is not read exactly: {diffs[:3]}")
    hist["lone_literals"] = stat


def _flat_flags(x):
    if isinstance(x, bool):
        return [x]
    if isinstance(x, dict):
        return [f for v in x.values() for f in _flat_flags(v)]
    if isinstance(x, list):
        return [f for v in x for f in _flat_flags(v)]
    return []


# ---- arithmetic precedence ---------------------------------------------------------------------------
def precedence_check(ctx, hist):
    rng = ctx.rng
    n = ctx.pick(280, 3000)
    exprs = []
    pts = [{"x": str(Fraction(rng.randint(-7, 7), rng.randint(1, 5))), "y": str(Fraction(rng.randint(1, 9), rng.randint(1, 4))),
            "z": str(Fraction(rng.randint(-9, -1), rng.randint(1, 3)))} for _ in range(4)]
    for _ in range(n):
        e = T.gen_sx(rng, rng.randint(2, 5), polar=True)
        ts = T.print_min(e)
        if not T.polar_ok(ts):
            continue
        sp = T.Spelling(rng, ws=rng.choice(["normal", "tight", "wide"]))
        text = T.render(ts, sp).strip()
        exprs.append((e, text))
    tasks = []
    per = 25
    for j in range(0, len(exprs), per):
        tasks.append({"kind": "c19_eval", "exprs": [t for _, t in exprs[j:j + per]], "points": pts, "timeout": 120})
    results = yield tasks
    shapes = {"polynomial": 0, "rational-function": 0, "undefined-at-all-points": 0, "decimal-float-known": 0}
    pending = []
    k = 0
    for j, r in zip(range(0, len(exprs), per), results):
        chunk = exprs[j:j + per]
        if "results" not in r:
            ctx.violation("worker:" + r.get("error", "?"), {"result": r}, "Polar worker failed on an eval task", no_input=True)
            continue
        for (e, text), x in zip(chunk, r["results"]):
            ctx.coverage["obligations"] += 1
            ctx.count({"e": text}, nontrivial=len(text) > 6)
            replay = {"expr_text": text, "ast": e, "polar": x, "points": pts}
            if "err" in x:
                ctx.violation(f"precedence:rejected:{x['err']['etype']}", replay, f"Polar rejects the arithmetic text {text!r}")
                continue
            want_vals = []
            for pt in pts:
                try:
                    v = T.sx_eval(e, {a: Fraction(b) for a, b in pt.items()})
                except (ZeroDivisionError, OverflowError):
                    v = None
                want_vals.append(v)
            try:
                want_poly = T.poly_dump(T.to_poly(e))
            except T.NotPoly:
                want_poly = None
            good = True
            if want_poly is not None:
                shapes["polynomial"] += 1
                good = x["poly"] == want_poly
            else:
                defined = 0
                for v, pv in zip(want_vals, x["values"]):
                    if v is None or abs(v.numerator) > 10 ** 60 or v.denominator > 10 ** 60:
                        continue
                    defined += 1
                    if pv.startswith("?") or Fraction(pv) != v:
                        good = False
                shapes["rational-function" if defined else "undefined-at-all-points"] += 1
            if good:
                ctx.coverage["discharged"] += 1
                if k < 3:
                    ctx.sample({"expr": text, "polar_reads": x["str"], "python_value_at_points": [str(v) for v in want_vals]})
                    k += 1
                continue
            # decimal literal combined with other constants in float arithmetic (known); a lone literal must be exact
            if T.may_combine_floats(e):
                close = True
                if want_poly is not None:
                    close = approx_equal(x["poly"], want_poly)
                else:
                    for v, pv in zip(want_vals, x["values"]):
                        if v is None or pv.startswith("?"):
                            continue
                        if abs(Fraction(pv) - v) > Fraction(1, 10 ** 9) * max(1, abs(v)):
                            close = False
                if close:
                    shapes["decimal-float-known"] += 1
                    if not ctx.violation(SIG_FLOAT, replay, "decimal literals are combined in float arithmetic before float_to_rational"):
                        ctx.coverage["discharged"] += 1
                    continue
            if T.may_combine_floats(e):
                pending.append((e, text, x, replay))
                continue
            ctx.violation(f"precedence:{text}", replay,
                          f"Polar reads {text!r} as {x.get('str')}, Python precedence gives a different value")
    # decimal texts that disagree beyond rounding: ask Polar about the FRACTION twin of the same AST; if
    # that one is right, the divergence is between decimal and fraction notation (known root cause:
    # decimal literals reach the CAS as floats), otherwise it is a precedence violation
    if pending:
        twins = []
        for e, text, x, replay in pending:
            twins.append(T.render(T.print_min(frac_twin(e)), T.Spelling(rng)).strip())
        tr = (yield [{"kind": "c19_eval", "exprs": twins, "points": pts, "timeout": 120}])[0]
        for (e, text, x, replay), tw, y in zip(pending, twins, tr.get("results", [{}] * len(pending))):
            okt = "values" in y
            if okt:
                for pt, pv in zip(pts, y["values"]):
                    try:
                        v = T.sx_eval(e, {a: Fraction(b) for a, b in pt.items()})
                    except (ZeroDivisionError, OverflowError):
                        v = None
                    if v is not None and (pv.startswith("?") or Fraction(pv) != v):
                        okt = False
            if okt:
                shapes["decimal-float-known"] += 1
                if not ctx.violation(SIG_FLOAT, dict(replay, fraction_twin=tw, polar_twin=y),
                                     f"decimal text {text!r} is read differently from its fraction twin {tw!r} (which is read correctly)"):
                    ctx.coverage["discharged"] += 1
            else:
                ctx.violation(f"precedence:{text}", replay,
                              f"Polar reads {text!r} as {x.get('str')}, Python precedence gives a different value")
    hist["precedence_shapes"] = shapes


def parse_moments(out):
    """results of the Evals of oracle.moments_file: list (per Eval) of rows (per n) of Fractions.  Coq prints a
    negative numerator as ((-29)%Z, 400%positive)."""
    import re
    res = []
    for m in re.finditer(r"=\s*(\[.*?\])\s*:\s*list \(list \(Z \* positive\)\)", out, re.S):
        txt = m.group(1).replace("%Z", "").replace("%positive", "")
        txt = re.sub(r"\(\s*(-\d+)\s*\)", r"\1", txt)
        rows, depth, cur = [], 0, None
        for tok in re.finditer(r"\[|\]|\(\s*(-?\d+)\s*,\s*(\d+)\s*\)", txt):
            t = tok.group(0)
            if t == "[":
                depth += 1
                if depth == 2:
                    cur = []
            elif t == "]":
                if depth == 2:
                    rows.append(cur)
                depth -= 1
            else:
                cur.append(Fraction(int(tok.group(1)), int(tok.group(2))))
        res.append(rows)
    return res


# ---- full analysis on several spellings + oracle -----------------------------------------------------
def analysis_check(ctx, hist):
    rng = ctx.rng
    nprog = ctx.pick(8, 60)
    nmax = 6
    n_or = 3
    goals = [{"a": 1}, {"b": 1}, {"a": 2}, {"a": 1, "b": 1}, {"a": 1, "f": 1}]
    gtxt = ["a", "b", "a**2", "a*b", "a*f"]
    progs = T.fixed_analysable() + [T.gen_analysable(rng) for _ in range(nprog)]
    tasks, meta = [], []
    NS = 3
    for p in progs:
        base = T.Spelling(rng, parens="full", consts="frac", last_prob="explicit", simult="simult", elif_="elif")
        alt = T.Spelling(rng, ws=rng.choice(["tight", "wide"]), comments=True, blank=True, parens="min", consts="frac",
                         last_prob="implicit", simult="temps", elif_="nested")
        dec = T.Spelling(rng, ws="normal", parens="random", consts="dec", last_prob="implicit", simult="simult", elif_="elif")
        for name, sp in (("baseline", base), ("all-sugar-rewritten", alt), ("decimal", dec)):
            text = T.prog_text(p, sp)
            tasks.append({"kind": "c19_analyze", "text": text, "goals": gtxt, "nmax": nmax, "timeout": 150})
            meta.append((p, name, text))
    results = yield tasks
    ofiles = [(f"c19_oracle_{j}", oracle.moments_file({k: v for k, v in p.items() if k != "shape"}, goals, n_or))
              for j, p in enumerate(progs)]
    oouts = lib.coq_run_many(ctx, ofiles, timeout=100)
    oc = []
    for j, p in enumerate(progs):
        ok_, o_ = oouts[f"c19_oracle_{j}"]
        rs = parse_moments(o_) if ok_ else []
        if len(rs) == 2 and len(rs[0]) == n_or + 1 and all(len(r) == len(goals) for r in rs[0]) and rs[0][:len(rs[1])] == rs[1]:
            oc.append(rs[0])
        else:
            oc.append(None)
            hist.setdefault("oracle_failures", []).append(o_[-300:])
    stat = {"compared": 0, "refused": 0, "oracle_compared": 0, "oracle_missing": 0, "decimal_compared": 0}

    def close(u, v):
        try:
            return all(abs(Fraction(x) - Fraction(y)) <= Fraction(1, 10 ** 9) * max(1, abs(Fraction(x))) for x, y in zip(u, v))
        except Exception:
            return False

    for i, p in enumerate(progs):
        ra, rb, rd = results[NS * i], results[NS * i + 1], results[NS * i + 2]
        ta, tb, td = meta[NS * i][2], meta[NS * i + 1][2], meta[NS * i + 2][2]
        hist["analysis_shapes"][p["shape"]] = hist["analysis_shapes"].get(p["shape"], 0) + 1
        ctx.count({"t": ta}, nontrivial=True)
        ctx.coverage["obligations"] += 1
        replay = {"text_a": ta, "text_b": tb, "polar_a": ra, "polar_b": rb, "program": p}
        if any(r.get("error") in ("timeout", "crash") for r in (ra, rb, rd)):
            # a worker that ran out of time (machine load) decides nothing
            stat["timeouts"] = stat.get("timeouts", 0) + 1
            ctx.coverage["obligations"] -= 1
            continue
        if "goals" not in ra or "goals" not in rb:
            if ("goals" in ra) != ("goals" in rb):
                ctx.violation("analysis:one-spelling-refused", replay, "one spelling is analysed, the other refused")
            else:
                stat["refused"] += 1
                ctx.coverage["obligations"] -= 1
            continue
        bad = None
        for g in gtxt:
            va, vb = ra["goals"][g].get("values"), rb["goals"][g].get("values")
            if va != vb:
                bad = (g, va, vb)
                break
        if bad:
            ctx.violation(f"analysis:spellings-differ:{p['shape']}", dict(replay, goal=bad[0], values_a=bad[1], values_b=bad[2]),
                          f"E({bad[0]}) differs between two spellings of one program: {bad[1]} vs {bad[2]}")
            continue
        stat["compared"] += 1
        # the decimal spelling: exact agreement expected; a difference within rounding is the known float finding
        if "goals" in rd:
            dbad = None
            for g in gtxt:
                va, vd = ra["goals"][g].get("values"), rd["goals"][g].get("values")
                if va != vd:
                    dbad = (g, va, vd)
                    break
            if dbad is None:
                stat["decimal_compared"] += 1
            else:
                rep = dict(replay, text_decimal=td, polar_decimal=rd, goal=dbad[0], values_a=dbad[1], values_decimal=dbad[2])
                if dbad[1] is not None and dbad[2] is not None and close(dbad[1], dbad[2]):
                    ctx.violation(SIG_FLOAT, rep, "closed forms of the decimal spelling differ from the fraction spelling by float rounding")
                else:
                    ctx.violation(f"analysis:decimal-spelling-differs:{p['shape']}", rep,
                                  f"E({dbad[0]}) differs between fraction and decimal spelling: {dbad[1]} vs {dbad[2]}")
                    continue
        else:
            ctx.violation("analysis:decimal-spelling-refused", dict(replay, text_decimal=td, polar_decimal=rd),
                          "the decimal spelling of an analysable program is refused")
            continue
        o = oc[i]
        if o is None:
            stat["oracle_missing"] += 1
            ctx.coverage["discharged"] += 1
            continue
        obad = None
        for gi, g in enumerate(gtxt):
            va = ra["goals"][g].get("values")
            if va is None:
                continue
            for n in range(n_or + 1):
                if va[n].startswith("?") or Fraction(va[n]) != o[n][gi]:
                    obad = (g, n, va[n], str(o[n][gi]))
                    break
            if obad:
                break
        if obad:
            ctx.violation(f"analysis:differs-from-reference-semantics:{p['shape']}",
                          dict(replay, goal=obad[0], n=obad[1], polar=obad[2], reference=obad[3]),
                          f"E({obad[0]}) at n={obad[1]}: Polar {obad[2]} (all spellings), reference semantics {obad[3]}")
            continue
        stat["oracle_compared"] += 1
        ctx.coverage["discharged"] += 1
        ctx.sample({"text_a": ta, "text_b": tb, "E(a)": ra["goals"]["a"].get("values"), "oracle_n<=3": [str(x[0]) for x in o]}, limit=8)
    hist["analysis"] = stat


# ---- malformed texts ----------------------------------------------------------------------------------
def malformed_check(ctx, hist):
    rng = ctx.rng
    nprog = ctx.pick(40, 400)
    tasks, meta = [], []
    for _ in range(nprog):
        g = T.ProgGen(rng, {"decarith": False})
        p = g.prog()
        sp = T.Spelling(rng)
        base = T.prog_toks(p, sp)
        texts, kinds = [], []
        for kind in T.MUTATION_KINDS:
            m = T.mutate(base, kind, rng)
            if m is None:
                continue
            if T.program_valid(m):
                hist["mutants_valid_skipped"] = hist.get("mutants_valid_skipped", 0) + 1
                continue
            texts.append(T.render(m, T.Spelling(rng)))
            kinds.append(kind)
        tasks.append({"kind": "c19_parse", "texts": texts, "timeout": 120})
        meta.append((p, kinds, texts))
    results = yield tasks
    for (p, kinds, texts), r in zip(meta, results):
        if "results" not in r:
            ctx.violation("worker:" + r.get("error", "?"), {"result": r}, "Polar worker failed on a malformed-text task", no_input=True)
            continue
        for kind, text, x in zip(kinds, texts, r["results"]):
            hist["mutation"][kind] = hist["mutation"].get(kind, 0) + 1
            ctx.count({"t": text}, nontrivial=True)
            ctx.coverage["obligations"] += 1
            if "err" in x:
                ek = x["err"]["kind"]
                hist["error"][ek + ":" + x["err"]["etype"]] = hist["error"].get(ek + ":" + x["err"]["etype"], 0) + 1
                if ek in PARSE_ERRORS:
                    ctx.coverage["discharged"] += 1
                else:
                    hist.setdefault("rejected_by_other_exception", []).append({"text": text, "err": x["err"]})
                    ctx.coverage["discharged"] += 1
                continue
            ctx.violation(f"malformed-accepted:{kind}", {"text": text, "mutation": kind, "polar": x, "valid_program": p},
                          f"text outside the grammar (mutation {kind}) is accepted and read as: {x.get('str', '')[:200]}")


def invalid_probability_check(ctx, hist):
    rng = ctx.rng
    texts = ["x = 0\nwhile true:\n    x = 1 {3/2} 2\nend\n"]
    labels = [{"probs": ["3/2"], "why": "sum of listed > 1"}]
    for _ in range(ctx.pick(12, 60)):
        k = rng.randint(1, 3)
        while True:
            ps = [Fraction(rng.randint(-3, 9), rng.choice([2, 3, 4, 5])) for _ in range(k)]
            if any(q < 0 for q in ps) or sum(ps) > 1:
                break
        explicit = rng.random() < 0.4
        vals = [str(rng.randint(0, 5)) for _ in range(k + 1)]
        if explicit:
            last = Fraction(rng.randint(0, 4), 4)
            if sum(ps) + last <= 1 and all(q >= 0 for q in ps):
                last = 2
            ps2 = ps + [Fraction(last)]
            body = " ".join(f"{v} {{{q}}}" for v, q in zip(vals, ps2))
            lab = {"probs": [str(q) for q in ps2], "why": "negative or sum > 1, all listed"}
            if not (any(q < 0 for q in ps2) or sum(ps2) > 1):
                continue
        else:
            body = " ".join(f"{v} {{{q}}}" for v, q in zip(vals, ps)) + " " + vals[-1]
            lab = {"probs": [str(q) for q in ps], "why": "negative or sum > 1, last omitted"}
        texts.append(f"x = 0\nwhile true:\n    x = {body}\nend\n")
        labels.append(lab)
    res, an = yield [{"kind": "c19_parse", "texts": texts, "timeout": 120},
                     {"kind": "c19_analyze", "text": texts[0], "goals": ["x"], "nmax": 2, "timeout": 60}]
    hist["invalid_probabilities"] = {"texts": len(texts), "accepted": 0, "rejected": 0}
    if "results" not in res:
        ctx.violation("worker:" + res.get("error", "?"), {"result": res}, "Polar worker failed on the probability stream", no_input=True)
        return
    for text, lab, x in zip(texts, labels, res["results"]):
        ctx.count({"t": text}, nontrivial=True)
        ctx.coverage["obligations"] += 1
        if "err" in x and x["err"]["kind"] in PARSE_ERRORS:
            hist["invalid_probabilities"]["rejected"] += 1
            ctx.coverage["discharged"] += 1
            continue
        hist["invalid_probabilities"]["accepted"] += 1
        extra = {"analysis_of_first": an} if text == texts[0] else {}
        if not ctx.violation(SIG_PROBS, dict({"text": text, "probabilities": lab, "polar": x}, **extra),
                             f"choice with invalid constant probabilities {lab['probs']} ({lab['why']}) is accepted"):
            ctx.coverage["discharged"] += 1


# ---- goals (inputparser/goal_parser.py) -----------------------------------------------------------------------
def goal_check(ctx, hist):
    rng = ctx.rng
    n = ctx.pick(60, 400)
    goals, meta = [], []
    for _ in range(n):
        e = T.gen_sx(rng, rng.randint(1, 3), polar=True)
        try:
            want = T.poly_dump(T.to_poly(e))
        except T.NotPoly:
            continue
        if T.has_decimal(e):
            continue
        group = []
        for ex, ws in ((None, "normal"), (lambda: 1, "tight"), (lambda: rng.choice([0, 1]), "wide")):
            ts = T.print_spelling(e, ex)
            if not T.polar_ok(ts):
                continue
            txt = T.render(ts, T.Spelling(rng, ws=ws)).strip()
            form = rng.choice(["E({})", "E( {} )", "E({})"])
            group.append(form.format(txt))
        k = rng.randint(2, 4)
        group.append(f"c{k}({T.render(T.print_min(e), T.Spelling(rng)).strip()})")
        group.append(f"k{k}( {T.render(T.print_full(e), T.Spelling(rng, ws='tight')).strip()} )")
        for gtxt in group:
            goals.append(gtxt)
            meta.append((e, want, gtxt))
    bad = ["E(x", "Ex)", "E()", "Q(x)", "E(x+)", "c(x)", "kx(x)", "E(x*)", "P(x > 1)", "E(x))"]
    res = (yield [{"kind": "c19_goals", "goals": goals + bad, "timeout": 120}])[0]
    if "results" not in res:
        ctx.violation("worker:" + res.get("error", "?"), {"result": res}, "Polar worker failed on the goal stream", no_input=True)
        return
    stat = {"spellings": 0, "malformed": 0, "malformed_rejected": 0}
    for (e, want, gtxt), x in zip(meta, res["results"]):
        ctx.coverage["obligations"] += 1
        ctx.count({"g": gtxt}, nontrivial=len(gtxt) > 6)
        stat["spellings"] += 1
        if "ok" in x and x["ok"][1][-1] == want:
            ctx.coverage["discharged"] += 1
            continue
        ctx.violation(f"goal:{gtxt}", {"goal": gtxt, "ast": e, "want": want, "polar": x},
                      f"goal text {gtxt!r} is read as {x}, its AST expands to {want}")
    for gtxt, x in zip(bad, res["results"][len(meta):]):
        stat["malformed"] += 1
        ctx.coverage["obligations"] += 1
        if "err" in x:
            stat["malformed_rejected"] += 1
            ctx.coverage["discharged"] += 1
            hist["error"]["goal:" + x["err"]["etype"]] = hist["error"].get("goal:" + x["err"]["etype"], 0) + 1
        else:
            ctx.violation(f"goal-malformed-accepted:{gtxt}", {"goal": gtxt, "polar": x}, f"malformed goal {gtxt!r} is accepted as {x}")
    hist["goals"] = stat


# ---- informational: quirks inside Polar's own grammar ---------------------------------------------------
QUIRKS = [
    ("x = 2x", "implicit multiplication: one ARITHM_ATOM token '2x' handed to the CAS"),
    ("x = 2 x", "two atoms in a row"),
    ("x = e", "identifier e is Euler's number"),
    ("x = pi", "identifier pi is the constant"),
    ("x = oo", "identifier oo is infinity"),
    ("x = I", "identifier I is the imaginary unit"),
    ("x = 1e3", "float literal with exponent"),
    ("x = 2e", "2*E"),
    ("x = - 1", "sign separated from its atom"),
    ("x = -(y+1)", "unary minus on a parenthesised term (valid Python)"),
    ("x = +1", "unary plus glued to an atom"),
    ("x = 1 {1/2} 2 {1/4}", "all probabilities listed, sum < 1"),
    ("x = Categorical(3/2, -1/2)", "Categorical checks the sum only"),
    ("x = Y", "upper-case variable on the right"),
    ("x = 1/0", "division by zero"),
    ("x = y**(1/2)", "non-polynomial power"),
]


def quirk_stream(ctx):
    texts = [f"x = 0\ny = 1\nwhile true:\n    {b}\nend\n" for b, _ in QUIRKS]
    texts.append("x = 0\nwhile x > 0 && x < 5 || x == 7:\n    x = 1\nend\n")
    texts.append("x = 0\nwhile x /= 0:\n    x = 1\nend\n")
    res = (yield [{"kind": "c19_parse", "texts": texts, "timeout": 120}])[0]
    out = []
    notes = QUIRKS + [("while x > 0 && x < 5 || x == 7", "&& and || share one level, right associative"),
                      ("while x /= 0", "/= is lexed and parsed; rejected later")]
    for (b, why), x in zip(notes, res.get("results", [])):
        out.append({"text": b, "what": why, "polar": ("reads: " + x.get("str", "").split("while")[-1].strip()[:120]) if "ok" in x or "str" in x
                    else "rejects: " + x.get("err", {}).get("etype", "?")})
    ctx.coverage["informational_quirks"] = out


def to_tuple(x):
    """JSON round trip turns the tuples of an AST into lists"""
    if isinstance(x, list):
        return tuple(to_tuple(t) for t in x)
    return x


def replay(ctx, path):
    """re-run the one comparison a replay file records"""
    d = json.load(open(path))
    sig = d.get("signature", "replay")
    if "expr_text" in d:
        e = to_tuple(d["ast"])
        r = lib.run_tasks([{"kind": "c19_eval", "exprs": [d["expr_text"]], "points": d["points"]}], timeout=120)[0]["results"][0]
        want = [T.sx_eval(e, {a: Fraction(b) for a, b in pt.items()}) for pt in d["points"]]
        got = r.get("values")
        ctx.count({"t": d["expr_text"]})
        if "err" in r or any(v is not None and (pv.startswith("?") or Fraction(pv) != v) for v, pv in zip(want, got)):
            ctx.violation(sig, dict(d, polar=r), d.get("what", "replayed arithmetic text still differs"))
        return
    if "text_a" in d:
        rs = lib.run_tasks([{"kind": "c19_analyze", "text": d[k], "goals": ["a", "b", "a**2", "a*b", "a*f"], "nmax": 6, "timeout": 150}
                            for k in ("text_a", "text_b")], timeout=150)
        ctx.count({"t": d["text_a"]})
        va = {g: v.get("values") for g, v in rs[0].get("goals", {}).items()}
        vb = {g: v.get("values") for g, v in rs[1].get("goals", {}).items()}
        if va != vb or "goals" not in rs[0]:
            ctx.violation(sig, dict(d, polar_a=rs[0], polar_b=rs[1]), d.get("what", "replayed spellings still differ"))
        elif "reference" in d and rs[0]["goals"][d["goal"]]["values"][d["n"]] != d["polar"]:
            pass
        elif "reference" in d:
            ctx.violation(sig, d, d.get("what"))
        return
    if "text" in d:
        r = lib.run_tasks([{"kind": "c19_parse", "texts": [d["text"]]}], timeout=120)[0]["results"][0]
        ctx.count({"t": d["text"]})
        if "mutation" in d or "probabilities" in d:
            if "ok" in r or "dump_error" in r:
                ctx.violation(sig, dict(d, polar=r), d.get("what", "replayed text is still accepted"))
        elif "model_dump" in d:
            if r.get("ok") != d["model_dump"]:
                ctx.violation(sig, dict(d, polar=r), d.get("what", "replayed spelling still parses differently"))
        return
    ctx.violation("replay:unknown-format", {"path": path}, "replay file has no recognised input", no_input=True)


def run(ctx):
    if ctx.replay:
        ctx.coverage["rule"] = "replay of " + str(ctx.replay)
        replay(ctx, ctx.replay)
        return
    ok, log = lib.coq_check_props(ctx)
    if not ok:
        ctx.violation("proof-broken", {"theorem": "props/C19.v", "log": log[-3000:]}, "props/C19.v no longer checks", no_input=True)
        return
    hist = {"spelling": {}, "mutation": {}, "error": {}, "known": {}, "analysis_shapes": {}}
    import time
    walls = {}
    t0 = time.time()
    mirror_crosscheck(ctx)
    walls["mirror"] = round(time.time() - t0, 1)
    # all Polar work goes through ONE worker pool (worker start-up = importing sympy + Polar dominates
    # otherwise); the phases are generators that yield their task lists and receive the answers
    gens = [("analysis", analysis_check(ctx, hist)), ("parse", parse_correspondence(ctx, hist)),
            ("literals", literal_check(ctx, hist)),
            ("precedence", precedence_check(ctx, hist)), ("malformed", malformed_check(ctx, hist)),
            ("probabilities", invalid_probability_check(ctx, hist)), ("goals", goal_check(ctx, hist)),
            ("quirks", quirk_stream(ctx))]
    pending = []
    for name, g in gens:
        try:
            pending.append((name, g, next(g)))
        except StopIteration:
            pass
    rounds = 0
    while pending:
        rounds += 1
        t0 = time.time()
        all_tasks = []
        spans = []
        for name, g, tasks in pending:
            spans.append((len(all_tasks), len(tasks)))
            all_tasks += tasks
        results = lib.run_tasks(all_tasks, timeout=150) if all_tasks else []
        walls[f"polar_pool_round{rounds}"] = round(time.time() - t0, 1)
        t0 = time.time()
        nxt = []
        for (name, g, tasks), (a, n) in zip(pending, spans):
            try:
                nxt.append((name, g, g.send(results[a:a + n])))
            except StopIteration:
                pass
        walls[f"compare_round{rounds}"] = round(time.time() - t0, 1)
        pending = nxt
    ctx.coverage["phase_wall_s"] = walls
    ctx.coverage["rule"] = (
        "program ASTs from textgen.ProgGen (nested if/elif/else, 2-4-way choices with constant, compound and parametric "
        "probabilities, simultaneous assignment, draws, types block, conditions with ! && ||), each written in the spellings "
        + ", ".join(T.SPELLING_KINDS + ["implicit-last-min", "comment-line-in-types"]) + "; every spelling parsed by inputparser.Parser and its canonical dump compared with the "
        "model of the structure transformer.  Arithmetic ASTs from textgen.gen_sx printed by the verified minimal printer and "
        "evaluated at 4 rational points.  Malformed: one mutation of each applicable kind per program, only mutants the "
        "reference grammar rejects.  non-trivial = body of >= 2 statements / expression text longer than 6 characters; "
        "distinct by text.")
    ctx.coverage["input_distribution"] = hist
    ctx.coverage["trusted_base"] += [
        "harness/textgen.py: renderer tokens -> text, canonical dump of the model, alpha-normalisation (same code canonicalises both sides)",
        "harness/tasks_parse.py: reader of Polar's Program objects (sympy expand/Poly for canonical polynomials)",
        "Python mirror of the reference grammar: cross-checked against the proven Coq functions on every run (mirror_cases)",
        "lark's LALR construction and symengine's expression parser are NOT modelled: tied by K only",
    ]
    ctx.assumptions += [
        "decimal literals: float_to_rational = Rational(str(x)) is modelled as the exact positional value; checked on every run for lone literals of 16-22 significant digits (arbitrary-precision floats in symengine) and short ones",
        "the token model abstracts Polar's lexer: a sign glued to a NUM/ID atom is one ARITHM_ATOM token there, "
        "'- atom' here; generated texts keep unary minus glued to an atom",
        "user variable names do not start with '_' and are not e, pi, oo, I (hypothesis wf_names of DESIGN section 6)",
        "oracle comparison of the analysed subset at n <= 3 (path enumeration), spelling-vs-spelling at n <= 6",
    ]
