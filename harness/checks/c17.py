"""C17 — strategy and representation options do not change any reported result.

proof : props/C17.v — catexpand_preserves (x = v1{p1}..vk{pk} == Categorical draw + if-chain, all
        states / test functions), cond2arithm_preserves (model of ConditionsToArithm on flat
        programs with validated types, every n), cond2arithm_same_closed_forms and
        explicit_types_same_moments (closed forms validated under two settings agree at every n),
        solvers_agree, exact_flag_model, cond2arithm_drops_functional_refuted.
tie   : generated programs are analysed by the real Polar under the combinations of
        {cond2arithm, transform_categoricals, force_cyclic, inferred / declared / declared-superset
        types}.  Each successful closed form is (i) validated in the kernel against its own
        system (ClosedForm.check_solution) and, where the flat program is modelled, against its
        own flat program, types and initial values (Wp.check_pipeline): acceptance = the closed
        form IS the exact moment sequence for ALL n; (ii) compared exactly for n <= N with every
        other setting and with the exact moments of the SOURCE program (oracle.exact_moments).
        The models are tied to the code: Polar's program after ConditionsToArithm is compared
        (polynomial identity, kernel) with the model applied to Polar's program before it, and
        Polar's parse under transform_categoricals with the model applied to the plain parse.
        numeric_roots / numeric_croots: systems with irrational / complex roots are solved with
        the options; a result that is not exactly the sequence A^n v must be flagged rounded and
        stay within a numeric_eps-derived tolerance (validation only); an exact-flagged result
        must be exact.  The CLI path (argument parser -> settings -> GoalsAction output) is run
        for a few flag sets and compared with the API results.
search: the comparisons themselves give (program, settings pair, goal, n, two values)."""
import itertools
import re
from fractions import Fraction

import sympy as sp

import lib
import core
import gen
import oracle
import progast as P
import systems
from checks import c04, c05, c01

KNOWN_DRAW_CRASH = "ConditionsToArithm:DistAssignment.get_assign_type-missing"
KNOWN_FUNC_DROP = "ConditionsToArithm:conditioned-FunctionalAssignment-dropped"
KNOWN_NONREAL = "get_all_roots:numeric_roots:non-real-roots-dropped"


import time as _time


def tick(ctx, name, t0):
    d = ctx.coverage.setdefault("step_seconds", {})
    d[name] = round(d.get(name, 0) + _time.time() - t0, 1)


# ---- settings ------------------------------------------------------------------------------
def settings_list(quick):
    out = [(c, t, f, "inf") for c, t, f in itertools.product([False, True], repeat=3)]
    out += [(False, False, False, "decl"), (True, False, False, "decl"),
            (False, False, False, "super"), (True, True, False, "super")]
    if not quick:
        out += [(False, False, True, "decl"), (False, True, False, "decl"), (False, False, True, "super"),
                (True, False, False, "super"), (False, True, True, "super")]
    return out


def sname(s):
    return f"c2a={int(s[0])},cat={int(s[1])},cyc={int(s[2])},types={s[3]}"


def opts_of(s):
    return {"cond2arithm": s[0], "transform_categoricals": s[1], "force_cyclic": s[2]}


# ---- programs ------------------------------------------------------------------------------
def corpus17():
    c, v, F = P.const, P.var, Fraction
    out = []
    # three-way choice at top level feeding an if/elif; accumulator multiplied by the finite variable
    out.append(({"types": [], "init": [("assign", "x", P.det(c(0))), ("assign", "f", P.det(c(1)))], "guard": ("true",),
                 "body": [("assign", "f", ("choice", [(c(F(1, 4)), c(0)), (c(F(1, 4)), c(1)), (c(F(1, 2)), c(2))])),
                          ("if", [(("atom", v("f"), "==", c(1)), [("assign", "x", P.det(("add", v("x"), c(1))))]),
                                  (("atom", v("f"), "==", c(2)), [("assign", "x", P.det(("add", v("x"), ("mul", v("f"), v("x")))))])], None)]},
                [{"x": 1}, {"x": 1, "f": 1}], "choice>=3+elif"))
    # alternatives that read the assigned variable itself (pre-state evaluation matters)
    out.append(({"types": [], "init": [("assign", "x", P.det(c(2))), ("assign", "y", P.det(c(1)))], "guard": ("true",),
                 "body": [("assign", "x", ("choice", [(c(F(1, 3)), ("add", v("x"), c(1))), (c(F(1, 3)), ("mul", c(2), v("x"))), (c(F(1, 3)), c(0))])),
                          ("assign", "y", ("choice", [(c(F(1, 2)), ("add", v("y"), v("x"))), (c(F(1, 2)), v("y"))]))]},
                [{"x": 1}, {"y": 2}], "choice>=3+self-reference"))
    # rotation: complex eigenvalues (cyclic system)
    out.append(({"types": [], "init": [("assign", "x", P.det(c(1))), ("assign", "y", P.det(c(0))), ("assign", "f", P.det(c(0)))], "guard": ("true",),
                 "body": [("assign", "f", ("choice", [(c(F(1, 2)), c(0)), (c(F(1, 2)), c(1))])),
                          ("simult", [("x", P.det(("neg", v("y")))), ("y", P.det(v("x")))])]},
                [{"x": 1}, {"x": 1, "f": 1}], "complex-roots"))
    # Fibonacci: irrational eigenvalues, with a conditioned update
    out.append(({"types": [], "init": [("assign", "x", P.det(c(1))), ("assign", "y", P.det(c(0))), ("assign", "f", P.det(c(0)))], "guard": ("true",),
                 "body": [("assign", "f", ("choice", [(c(F(1, 2)), c(0)), (c(F(1, 2)), c(1))])),
                          ("if", [(("atom", v("f"), "==", c(1)), [("simult", [("x", P.det(("add", v("x"), v("y")))), ("y", P.det(v("x")))])])], None)]},
                [{"x": 1}], "irrational-roots+if"))
    # conditioned draw (ConditionsToArithm crashed here before /repo 0c1450d).  NOTE: no variable of this corpus is spelled like a
    # tag of get_unique_var (t, c, r, u, a, k, s, b, old, prob): such names can collide with generated names
    # depending on the counter of the worker process (C20 finding), which would make this check history dependent
    out.append(({"types": [], "init": [("assign", "f", P.det(c(0))), ("assign", "d", P.det(c(0))), ("assign", "z", P.det(c(0)))],
                 "guard": ("true",),
                 "body": [("assign", "f", ("choice", [(c(F(1, 3)), c(0)), (c(F(1, 3)), c(1)), (c(F(1, 3)), c(2))])),
                          ("if", [(("atom", v("f"), ">=", c(1)), [("assign", "d", ("draw", ("bern", c(F(1, 4)))))])], None),
                          ("assign", "z", P.det(("add", v("z"), v("d"))))]},
                [{"z": 1}, {"z": 1, "d": 1}], "conditioned-draw"))
    # conditioned draw into a variable that is ALSO assigned earlier in the same iteration: after MultiAssignTransformer the
    # default of the guarded draw is the previous version (_x1), not the variable itself
    out.append(({"types": [], "init": [("assign", "f", P.det(c(0))), ("assign", "x", P.det(c(0))), ("assign", "y", P.det(c(0)))],
                 "guard": ("true",),
                 "body": [("assign", "f", ("draw", ("bern", c(F(1, 3))))), ("assign", "x", P.det(("add", v("x"), c(2)))),
                          ("if", [(("atom", v("f"), "==", c(1)), [("assign", "x", ("draw", ("unif", 2, 4)))])], None),
                          ("assign", "y", P.det(("add", v("y"), v("x"))))]},
                [{"x": 1}, {"y": 1}, {"x": 3}], "conditioned-draw-into-reassigned-variable"))
    out.append(({"types": [], "init": [("assign", "f", P.det(c(0))), ("assign", "d", P.det(c(1))), ("assign", "z", P.det(c(0)))],
                 "guard": ("true",),
                 "body": [("assign", "f", ("choice", [(c(F(1, 2)), c(0)), (c(F(1, 4)), c(1)), (c(F(1, 4)), c(2))])),
                          ("assign", "d", ("choice", [(c(F(1, 2)), c(1)), (c(F(1, 2)), c(3))])),
                          ("if", [(("atom", v("f"), ">=", c(1)), [("assign", "d", ("draw", ("bern", c(F(1, 4)))))]),
                                  (("atom", v("d"), "==", c(3)), [("assign", "d", ("draw", ("cat", [c(F(1, 2)), c(F(1, 4)), c(F(1, 4))])))])], None),
                          ("assign", "z", P.det(("add", v("z"), ("mul", v("d"), v("f")))))]},
                [{"z": 1}, {"d": 2}, {"z": 1, "d": 2}], "conditioned-draws-elif-into-reassigned-variable"))
    # conditioned draw whose support is SMALLER than the set of values the variable takes otherwise (powers >= |support|,
    # and a later condition over the variable)
    out.append(({"types": [], "init": [("assign", "f", P.det(c(0))), ("assign", "x", P.det(c(3))), ("assign", "y", P.det(c(0)))],
                 "guard": ("true",),
                 "body": [("assign", "f", ("draw", ("bern", c(F(1, 2))))), ("assign", "x", P.det(c(3))),
                          ("if", [(("atom", v("f"), "==", c(1)), [("assign", "x", ("draw", ("bern", c(F(1, 3)))))])], None),
                          ("if", [(("atom", v("x"), "==", c(3)), [("assign", "y", P.det(("add", v("y"), c(1))))])], None)]},
                [{"x": 2}, {"y": 1}, {"x": 1, "y": 1}], "conditioned-draw-with-smaller-support"))
    # three-way choice whose MIDDLE alternative leaves the variable unchanged (a "stay" case that is not the last one)
    out.append(({"types": [], "init": [("assign", "x", P.det(c(1))), ("assign", "y", P.det(c(0)))], "guard": ("true",),
                 "body": [("assign", "x", ("choice", [(c(F(1, 4)), ("add", v("x"), c(1))), (c(F(1, 2)), v("x")), (c(F(1, 4)), ("sub", v("x"), c(1)))])),
                          ("assign", "y", P.det(("add", v("y"), v("x"))))]},
                [{"x": 1}, {"x": 2}, {"x": 1, "y": 1}], "choice>=3+stay-in-the-middle"))
    # loop guard
    out.append(({"types": [], "init": [("assign", "g", P.det(c(0))), ("assign", "m", P.det(c(0)))],
                 "guard": ("atom", v("g"), "==", c(0)),
                 "body": [("assign", "g", ("choice", [(c(F(1, 3)), c(1)), (c(F(2, 3)), c(0))])),
                          ("assign", "m", P.det(("add", v("m"), c(1))))]},
                [{"m": 1}, {"m": 2}], "guard"))
    return out


def with_types(p, types):
    q = dict(p)
    q["types"] = types
    return q


def source_types(r, p):
    """the finite types Polar inferred for the source variables of p"""
    srcs = set(P.prog_vars(p))
    out = []
    for v, vals in r["flat"].get("types", []):
        if v in srcs and not isinstance(vals, str):
            try:
                out.append((v, sorted(Fraction(x) for x in vals)))
            except Exception:
                pass
    return out


def superset(rng, types):
    out = []
    for v, vals in types:
        extra = {max(vals) + 1}
        if rng.random() < 0.5:
            extra.add(min(vals) - 1)
        if rng.random() < 0.3:
            extra.add(max(vals) + 3)
        out.append((v, sorted(set(vals) | extra)))
    return out


# ---- helpers --------------------------------------------------------------------------------
def goal_index(gr, gname):
    try:
        return gr["sol_monomials"].index(str(sp.sympify(gname)))
    except ValueError:
        return None


def goal_values(gr, gname):
    inst = gr["instances"][0] if gr.get("instances") else None
    if inst is None or not inst.get("values"):
        return None
    idx = goal_index(gr, gname)
    if idx is None:
        return None
    row = []
    for vals in inst["values"]:
        s = vals[idx]
        row.append(None if s.startswith("~") else Fraction(s))
    return row


def err_class(r):
    if "error" in r:
        return r["error"] + (":" + r.get("etype", "") if r.get("etype") else "")
    e = r["exception"]
    return f"{e['etype']}@{r.get('stage', '')}:{e.get('raiser', '')}"


def is_draw_crash(r):
    e = r.get("exception") or {}
    return e.get("etype") == "AttributeError" and "get_assign_type" in e.get("msg", "")


def body_has_conditioned_draw(flat):
    return any(a.get("rhs", [""])[0] == "draw" and a["cond"] != ["true"] for a in flat.get("body", []) if "if" not in a)


def dump_vars(dump):
    vs = []

    def walk(stmts):
        for s in stmts:
            if "if" in s:
                for _, b in s["if"]:
                    walk(b)
                if s.get("else"):
                    walk(s["else"])
            else:
                vs.append(s["var"])
    walk(dump["init"])
    walk(dump["body"])
    return vs


GEN_NAME = re.compile(r"^_+[A-Za-z]+\d+$")


def flat_key(flat):
    """init/body of a flat dump with generated names renamed by first occurrence (json string)"""
    import json
    ren = {}

    def rn(x):
        if isinstance(x, str) and GEN_NAME.match(x):
            return ren.setdefault(x, f"_g{len(ren)}")
        return x

    def walk(o):
        if isinstance(o, dict):
            return {k: (rn(v) if k in ("var", "default") else walk(v)) for k, v in o.items() if k != "guard_implied"}
        if isinstance(o, list):
            return [walk(x) for x in o]
        return rn(o)
    try:
        return json.dumps([walk(flat["init"]), walk(flat["body"])], sort_keys=True)
    except Exception:
        return None


def alpha_dump(dump, prefix):
    """rename the generated names starting with `prefix` by first occurrence (statement order)"""
    ren = {}
    for v in dump_vars(dump):
        if v.startswith(prefix) and GEN_NAME.match(v) and v not in ren:
            ren[v] = f"{prefix}{len(ren)}"

    def walk(o):
        if isinstance(o, dict):
            return {k: walk(v) for k, v in o.items()}
        if isinstance(o, list):
            return [walk(x) for x in o]
        return ren.get(o, o) if isinstance(o, str) else o
    return walk(dump)


def pipeline_term(r, gr, inst):
    """Coq term: [check_types; check_system; check_init_vals] for Polar's flat program and system"""
    flat = r["flat"]
    ms, ms_c, A_c, v_c = core.system_coq(gr, inst)
    fp_c = core.flat_coq(flat)
    T_c = core.types_coq(flat["types"])
    return (f"[check_types {fp_c} {T_c}; check_system cm0 {fp_c} {T_c} {ms_c} {A_c}; "
            f"check_init_vals cm0 (fp_init {fp_c}) {ms_c} {v_c}]")


C17_HEADER = core.WP_HEADER.replace("Wp Search", "Wp Search Options OptionsArith OptionsThm")


# ---- part A: programs x option combinations -------------------------------------------------
NVALS = 8


def select_programs(ctx):
    """candidates accepted by Polar under default settings (their inferred types are re-fed later)"""
    n_prog = ctx.pick(12, 60)
    cands = list(corpus17())
    while len(cands) < 2 * n_prog + 4:
        g = gen.G(ctx.rng, max_depth=ctx.rng.choice([1, 1, 2]), guard=ctx.rng.random() < 0.25, n_acc=ctx.rng.choice([0, 1, 1]))
        p = g.program()
        cands.append((p, g.goals(2)[:2], "+".join(sorted(g.features)) or "plain"))
    t1 = [{"kind": "analyze", "text": P.prog_text(p), "goals": [gen.goal_text(m) for m in goals], "nvals": NVALS + 1,
           "opts": {}, "timeout": 60, "all_monomials": True, "snapshots": False} for p, goals, _ in cands]
    _t = _time.time()
    r1 = lib.run_tasks(t1, timeout=60)
    tick(ctx, "polar-default-round", _t)
    progs, rejected = [], {}
    for (p, goals, tag), r in zip(cands, r1):
        if "error" in r or "exception" in r or "unsupported" in r.get("flat", {}) or any("exception" in g for g in r["goals"]):
            k = err_class(r) if ("error" in r or "exception" in r) else "goal-or-dump"
            rejected[k] = rejected.get(k, 0) + 1
            continue
        if len(progs) < n_prog:
            progs.append((p, goals, tag, r))
    ctx.coverage["candidates_rejected_by_default_settings"] = rejected
    return progs


def program_tasks(ctx, progs):
    tasks, meta = [], []
    for pi, (p, goals, tag, r0) in enumerate(progs):
        inferred = source_types(r0, p)
        sup = superset(ctx.rng, inferred)
        for s in settings_list(ctx.quick):
            q = p if s[3] == "inf" else with_types(p, inferred if s[3] == "decl" else sup)
            tasks.append({"kind": "analyze", "text": P.prog_text(q), "goals": [gen.goal_text(m) for m in goals], "nvals": NVALS + 1,
                          "opts": opts_of(s), "timeout": 90, "all_monomials": True, "snapshots": bool(s[0] and s[3] == "inf" and not s[2])})
            meta.append((pi, s))
    return tasks, meta


def alpha_term(term):
    """generated names in a Coq term renamed by first occurrence (to recognise identical cases)"""
    ren = {}
    return re.sub(r'"(_+[A-Za-z]+\d+)"', lambda m: '"%s"' % ren.setdefault(m.group(1), f"_g{len(ren)}"), term)


def process_programs(ctx, progs, tasks, meta, results, exact, n_oracle):
    N = NVALS
    by_prog = {}
    for (pi, s), t, r in zip(meta, tasks, results):
        by_prog.setdefault(pi, []).append((s, t, r))
    crash, combo_ok, feats = {}, {}, {}
    labelled, pipe_cases = [], []
    agree_pairs = 0
    for pi, (p, goals, tag, r0) in enumerate(progs):
        for f in tag.split("+"):
            feats[f] = feats.get(f, 0) + 1
        text = P.prog_text(p)
        ex = exact[pi]
        runs = by_prog[pi]
        attributed = {}

        def typer_attr(s, r):
            if s not in attributed:
                flat = r.get("flat", {})
                attributed[s] = (c01.attribute_to_typer(ctx, flat, r.get("original_loop_guard"))
                                 if flat and "unsupported" not in flat else False)
            return attributed[s]
        for s, t, r in runs:
            if "error" in r or "exception" in r:
                k = err_class(r)
                if is_draw_crash(r):
                    # defect repaired in /repo 0c1450d (a crash is "does not succeed", not a changed result): reported if it returns
                    ctx.violation(KNOWN_DRAW_CRASH, {"program_text": t["text"], "options": t["opts"], "exception": r.get("exception")},
                                  "cond2arithm crashes on a conditioned draw")
                crash[k] = crash.get(k, 0) + 1
        for gi, m in enumerate(goals):
            gname = gen.goal_text(m)
            ok_runs = []
            for s, t, r in runs:
                if "error" in r or "exception" in r:
                    continue
                gr = r["goals"][gi]
                if "exception" in gr:
                    k = f"{gr['exception']['etype']}@{gr.get('stage', '')}"
                    crash[k] = crash.get(k, 0) + 1
                    continue
                vals = goal_values(gr, gname)
                if vals is None:
                    crash["no-values"] = crash.get("no-values", 0) + 1
                    continue
                combo_ok[sname(s)] = combo_ok.get(sname(s), 0) + 1
                ok_runs.append((s, t, r, gr, vals))
                inst = gr["instances"][0]
                lab = {"family": "polar-built", "mons": gr["monomials"], "A": inst.get("A"), "v": inst.get("v"),
                       "force_cyclic": s[2], "solver": gr["solver"], "point": {}, "sols": gr["sols"], "is_exact": gr["is_exact"],
                       "program": t["text"], "goal": gname, "setting": sname(s), "prog_index": pi, "goal_index": gi, "part": "programs"}
                labelled.append((lab, inst))
                try:
                    pipe_cases.append((lab, pipeline_term(r, gr, inst)))
                except (core.NotModelled, ValueError, KeyError):
                    pass
                if not gr["is_exact"]:
                    ctx.violation(f"exact-flag:{text}:{gname}:{sname(s)}", {"program_text": t["text"], "options": t["opts"], "goal": gname},
                                  f"E({gname}) is flagged rounded although no numeric option is set ({sname(s)})")
            # exact values: pairwise, and against the reference semantics
            ref = [ex[n][gi] for n in range(n_oracle + 1)] if ex is not None else None
            for (s1, t1_, ra, g1, v1), (s2, t2_, rb, g2, v2) in itertools.combinations(ok_runs, 2):
                ctx.count({"t": text, "g": gname, "a": sname(s1), "b": sname(s2)}, nontrivial=len(g1["monomials"]) >= 2)
                bad = next((n for n in range(N + 1) if v1[n] is not None and v2[n] is not None and v1[n] != v2[n]), None)
                if bad is None:
                    agree_pairs += 1
                    continue
                culprit = None
                if ref is not None and bad < len(ref):
                    w1, w2 = v1[bad] != ref[bad], v2[bad] != ref[bad]
                    culprit = "both" if (w1 and w2) else ("first" if w1 else "second")
                sig = f"options-disagree:{text}:{gname}:{sname(s1)}|{sname(s2)}"
                if typer_attr(s1, ra) or typer_attr(s2, rb):
                    sig = c05.KNOWN_SITE
                ctx.violation(sig, {"program_text_first": t1_["text"], "options_first": t1_["opts"], "setting_first": sname(s1),
                                    "program_text_second": t2_["text"], "options_second": t2_["opts"], "setting_second": sname(s2),
                                    "goal": gname, "n": bad, "value_first": str(v1[bad]), "value_second": str(v2[bad]),
                                    "reference_value": str(ref[bad]) if ref and bad < len(ref) else None, "wrong_side": culprit,
                                    "closed_form_first": g1["sols"][goal_index(g1, gname)], "closed_form_second": g2["sols"][goal_index(g2, gname)]},
                              f"E({gname}) at n={bad}: {v1[bad]} under {sname(s1)} but {v2[bad]} under {sname(s2)}"
                              f" (exact value {ref[bad] if ref and bad < len(ref) else '?'})\n{text}")
            if ref is None:
                crash["oracle-timeout"] = crash.get("oracle-timeout", 0) + 1
                continue
            wrong = [sname(s) for s, _, _, _, v in ok_runs if any(v[n] is not None and v[n] != ref[n] for n in range(n_oracle + 1))]
            if ok_runs and len(wrong) == len(ok_runs):
                # every setting differs from the reference semantics: not an option effect (C01's subject)
                ctx.coverage["goals_where_all_settings_differ_from_reference"] = ctx.coverage.get("goals_where_all_settings_differ_from_reference", 0) + 1
            elif len(ok_runs) >= 2 and not wrong:
                ctx.sample({"program": text, "goal": f"E({gname})", "settings_succeeding": [sname(s) for s, *_ in ok_runs],
                            "closed_forms": sorted({g["sols"][goal_index(g, gname)] for _, _, _, g, _ in ok_runs}),
                            "exact_moments_n0..": [str(x) for x in ref]})
    ctx.coverage["pairs_agreeing_on_n<=8"] = agree_pairs
    ctx.coverage["settings_success_histogram"] = combo_ok
    ctx.coverage["crash_classes"] = crash
    ctx.coverage["feature_histogram"] = feats
    return by_prog, labelled, pipe_cases


def tie_files(ctx, progs, by_prog):
    """model <-> code: ConditionsToArithm (snapshots before/after the pass) and _transform_categorical (the two parses)"""
    files, info = [], []
    for pi, (p, goals, tag, r0) in enumerate(progs):
        text = P.prog_text(p)
        runs = {s: (t, r) for s, t, r in by_prog[pi]}
        for tc in (False, True):
            t, r = runs[(True, tc, False, "inf")]
            snaps = dict((n, d) for n, d in r.get("snapshots", []) or [])
            if "ConditionsToArithm" not in snaps or "ConditionsNormalizer" not in snaps:
                continue
            before, after = snaps["ConditionsNormalizer"], snaps["ConditionsToArithm"]
            if "unsupported" in before or "unsupported" in after:
                continue
            try:
                bvars = set(dump_vars(before))
                us = [v for v in dump_vars(after) if v not in bvars]
                T = core.types_coq(before["types"])
                lb = P.lst([core.ga_coq(a) for a in before["body"]])
                la = P.lst([core.ga_coq(a) for a in after["body"]])
                li = P.lst([core.ga_coq(a) for a in before["init"]])
                lia = P.lst([core.ga_coq(a) for a in after["init"]])
                us_c = P.lst(['"%s"' % u for u in us])
                body = C17_HEADER + (f"Eval vm_compute in [c2a_matches {T} {us_c} {lb} {la}; "
                                     f"match c2a_init {li} with Some l => list_sim ga_sim l {lia} | None => false end].\n")
                name = f"t17c_{pi}_{int(tc)}"
                files.append((name, body))
                info.append(("cond2arithm", name, text, {"before": before, "after": after}, (pi, tc, flat_key(before), flat_key(after))))
            except core.NotModelled:
                pass
        t0, ra = runs[(False, False, False, "inf")]
        t1, rb = runs[(False, True, False, "inf")]
        pa, pb = ra.get("parsed"), rb.get("parsed")
        if pa and pb and "unsupported" not in pa and "unsupported" not in pb:
            pa, pb = alpha_dump(pa, "_t"), alpha_dump(pb, "_t")     # temporaries of simultaneous assignments share the counter
            try:
                cs = [v for v in dump_vars(pb) if v.startswith("_c")]
                cs_c = P.lst(['"%s"' % u for u in cs])

                def blk(stmts):
                    return P.b_coq([core.stmt_from_dump(s) for s in stmts])
                body = C17_HEADER + (f"Eval vm_compute in (let '(i, cs1) := catx_block {cs_c} {blk(pa['init'])} in "
                                     f"[block_sim i {blk(pb['init'])}; catx_matches cs1 {blk(pa['body'])} {blk(pb['body'])}]).\n")
                files.append((f"t17k_{pi}", body))
                info.append(("transform_categoricals", f"t17k_{pi}", text, {"plain": pa, "expanded": pb}, None))
            except core.NotModelled:
                pass
    return files, info


def process_validation(ctx, progs, by_prog, vrecs, pipe_cases, pouts, tinfo, touts):
    # (i) every closed form against its own system
    stat, accepted = {}, set()
    for rec in vrecs:
        lab = rec["label"]
        stat[rec["status"]] = stat.get(rec["status"], 0) + 1
        if rec["status"] == "unsupported":
            continue
        ctx.coverage["obligations"] += 1
        if rec["status"] == "accepted":
            ctx.coverage["discharged"] += 1
            accepted.add((lab["prog_index"], lab["goal_index"], lab["setting"]))
        else:
            mm = rec["mismatch"]
            ctx.violation(f"closed-form-vs-own-system:{lab['program']}:{lab['goal']}:{lab['setting']}",
                          {"program_text": lab["program"], "goal": lab["goal"], "setting": lab["setting"], "system": lab, "mismatch": mm,
                           "validator": rec["status"], "why": rec.get("why")},
                          f"closed forms of the system of E({lab['goal']}) under {lab['setting']} do not validate against Polar's own matrix"
                          + (f": component {mm[1]} gives {mm[2]} at n={mm[0]}, A^n v gives {mm[3]}" if mm else ""), no_input=mm is None)
    # the system against the flat program (types, one-step exactness, initial values)
    pstat = {"pipeline-accepted": 0, "types-rejected": 0, "system-rejected": 0, "init-rejected": 0, "coq-error-or-timeout": 0}
    full = {}
    for lab, name in pipe_cases:
        okc, o = pouts[name]
        bl = lib.parse_bool_list(o) if okc else None
        key = (lab["prog_index"], lab["goal_index"], lab["setting"])
        if not bl or len(bl) != 3:
            pstat["coq-error-or-timeout"] += 1
        elif all(bl):
            if key in accepted:
                pstat["pipeline-accepted"] += 1
                full.setdefault(key[:2], []).append(lab["setting"])
        elif not bl[0]:
            pstat["types-rejected"] += 1     # unsound inferred types are C05's subject
        elif not bl[1]:
            pstat["system-rejected"] += 1
            rej = ctx.coverage.setdefault("pipeline_rejected_samples", [])
            if len(rej) < 8:
                rej.append({"program": lab["program"], "setting": lab["setting"], "goal": lab["goal"], "monomials": lab["mons"]})
        else:
            pstat["init-rejected"] += 1
    ctx.coverage["closed_form_validator_status"] = stat
    ctx.coverage["pipeline_validator_status"] = pstat
    # model <-> code
    tstat, tied = {}, []
    for kind, name, text, dumps, extra in tinfo:
        okc, o = touts[name]
        bl = lib.parse_bool_list(o) if okc else None
        if bl is None:
            # the kernel did not finish within the time limit (large arithmetised polynomials): undecided, not counted
            tstat[kind + ":undecided(timeout)"] = tstat.get(kind + ":undecided(timeout)", 0) + 1
            continue
        ctx.coverage["obligations"] += 1
        if bl and all(bl):
            ctx.coverage["discharged"] += 1
            tstat[kind + ":model=code"] = tstat.get(kind + ":model=code", 0) + 1
            if extra:
                tied.append(extra)
            continue
        tstat[kind + ":differs"] = tstat.get(kind + ":differs", 0) + 1
        ctx.violation(f"model-vs-code:{kind}:{text}", {"program_text": text, "pass": kind, "dumps": dumps, "coq": (o or "")[-800:]},
                      f"the output of the real {kind} pass is not what its Coq model (for which preservation is proved) produces "
                      f"on this program\n{text}", no_input=True)
    ctx.coverage["model_code_ties"] = tstat
    # pairs of settings whose agreement at EVERY n is an instance of the theorems: both closed forms validated by
    # check_pipeline against their flat programs, and the flat programs are the same (explicit_types_same_moments /
    # solvers_agree) or related by the validated cond2arithm tie (cond2arithm_same_closed_forms)
    same_fp, via_c2a = 0, 0
    for pi, (p, goals, tag, r0) in enumerate(progs):
        keys = {sname(s_): flat_key(r_.get("flat", {})) for s_, t_, r_ in by_prog[pi] if "flat" in r_ and "unsupported" not in r_["flat"]}
        links = {(b, a) for (pj, tc, b, a) in tied if pj == pi and a and b}
        for gi in range(len(goals)):
            for n1, n2 in itertools.combinations(full.get((pi, gi), []), 2):
                k1, k2 = keys.get(n1), keys.get(n2)
                if k1 is None or k2 is None:
                    continue
                if k1 == k2:
                    same_fp += 1
                elif (k1, k2) in links or (k2, k1) in links:
                    via_c2a += 1
    ctx.coverage["obligations"] += same_fp + via_c2a
    ctx.coverage["discharged"] += same_fp + via_c2a
    ctx.coverage["pairs_agreeing_for_all_n:same_flat_program_both_pipelines_validated"] = same_fp
    ctx.coverage["pairs_agreeing_for_all_n:cond2arithm_tie_and_both_pipelines_validated"] = via_c2a


# ---- part B: numeric root options -----------------------------------------------------------
def charpoly(A):
    k = len(A)
    M = sp.Matrix([[sp.Rational(x) for x in r[:k]] for r in A])
    x = sp.Symbol("x")
    return sp.Poly(M.charpoly(x).as_expr(), x)


def nonreal_roots(A):
    cp = charpoly(A)
    return cp.degree() - cp.count_roots() if cp.degree() > 0 else 0


def max_factor_degree(A):
    return max([f.degree() for f, _ in charpoly(A).factor_list()[1]] + [0])


def numeric_systems(ctx, count):
    fixed = [systems.task([[1, 1], [1, 0]], [1, 0]), systems.task([[0, -1], [1, 0]], [1, 0]),
             systems.task([[0, -1, 0], [1, 0, 0], [0, 0, "1/2"]], [1, 0, 3]),
             systems.task([[0, 0, 1], [1, 0, 1], [0, 1, 0]], [1, 0, 2]),
             systems.task([[2, 1], [0, "1/2"]], [1, 1]), systems.task([[0, 2], [1, 0]], [1, 1]),
             systems.task([[1, 1, 0], [1, 0, 0], [0, 0, 2]], [1, 0, 1], ["0", "0", "1"]),
             # irreducible cubic factor (sympy returns ComplexRootOf roots) times a rational root that sorts after / before them:
             # (t^3 - 3t + 1)(t - 2), (t^3 - 3t + 1)(t + 3), (t^3 - t - 1)(t - 1/2)
             systems.task([[0, 3, -1, 0], [1, 0, 0, 0], [0, 1, 0, 0], [0, 0, 0, 2]], [1, 0, 2, 1]),
             systems.task([[0, 3, -1, 0], [1, 0, 0, 0], [0, 1, 0, 0], [0, 0, 1, -3]], [1, 1, 0, 1]),
             systems.task([[0, 1, 1, 0], [1, 0, 0, 0], [0, 1, 0, 0], [1, 0, 0, "1/2"]], [1, 0, 2, 1])]
    out = [("fixed", t) for t in fixed]
    while len(out) < count:
        out.append(("quadratic", systems.gen_quadratic(ctx.rng)))
    return out


NUM_NV = 16
FLOAT = re.compile(r"\d\.\d")


def numeric_tasks(ctx):
    syss = numeric_systems(ctx, ctx.pick(12, 60))
    optss = [{"numeric_roots": True}, {"numeric_croots": True}, {"numeric_roots": True, "numeric_eps": 1e-4}, {}]
    tasks, meta = [], []
    for fam, t in syss:
        for o in optss:
            if not o and max_factor_degree(t["A"]) >= 3:
                continue        # sympy's exact CRootOf arithmetic does not terminate in reasonable time
            tt = dict(t)
            tt.update({"kind": "solve", "force_cyclic": True, "opts": o, "nvals": NUM_NV, "timeout": 60})
            tasks.append(tt)
            meta.append((fam, t, o))
    return tasks, meta


def process_numeric(ctx, meta, res):
    NV = NUM_NV
    hist, errs = {}, {}
    labelled = []
    for (fam, t, o), r in zip(meta, res):
        oname = ",".join(f"{k}={v}" for k, v in sorted(o.items())) or "exact"
        if "error" in r:
            k = r.get("etype") or r["error"]
            errs[f"{oname}:{k}"] = errs.get(f"{oname}:{k}", 0) + 1
            continue
        inst = r["instances"][0]
        A, v = inst["A"], inst["v"]
        truth = c04.iterate(A, v, NV)
        eps = float(o.get("numeric_eps", 1e-10))
        worst, exact_vals = None, True
        for n, row in enumerate(inst.get("values", [])):
            for i, s in enumerate(row):
                tv = truth[n][i]
                if s.startswith("~"):
                    z = complex(s[1:].replace("*I", "j").replace(" ", ""))
                else:
                    z = complex(Fraction(s))
                    if Fraction(s) == tv:
                        continue
                exact_vals = False
                err = abs(z - complex(tv))
                tol = 100 * eps * (n + 1) ** 2 * max(1.0, abs(float(tv)))
                if err > tol and (worst is None or err / tol > worst[0]):
                    worst = (err / tol, n, i, s, str(tv), tol)
        ctx.count({"A": A, "v": v, "o": oname}, nontrivial=len(A) >= 2)
        hist[oname] = hist.get(oname, 0) + 1
        base = {"system": {"A": t["A"], "v": t["v"]}, "options": o, "is_exact": r["is_exact"], "closed_forms": r["sols"]}
        nonreal = nonreal_roots(A) if o.get("numeric_roots") else 0
        # flagged exact => the closed forms contain no floating-point number (a root was replaced numerically otherwise)
        floats = [sol for sol in r["sols"] if FLOAT.search(sol)]
        ctx.coverage["obligations"] += 1
        if r["is_exact"] and floats:
            ctx.violation(f"exact-flag-with-float:{t['A']}:{t['v']}:{oname}", dict(base, closed_form_with_float=floats[0][:400]),
                          f"solution of A={t['A']} v={t['v']} with {oname} is reported as exact but contains floating-point numbers: {floats[0][:160]}")
            continue
        ctx.coverage["discharged"] += 1
        if floats:
            hist[oname + ":with-numerified-roots"] = hist.get(oname + ":with-numerified-roots", 0) + 1
        if r["is_exact"] and exact_vals:
            # an exact-flagged result must validate exactly, for all n (kernel)
            lab = {"family": fam, "mons": t["mons"], "A": t["A"], "v": t["v"], "force_cyclic": True, "solver": r["solver"], "point": {},
                   "sols": r["sols"], "is_exact": True, "options": oname, "part": "numeric"}
            labelled.append((lab, inst))
            continue
        ctx.coverage["obligations"] += 1
        bad = False
        if r["is_exact"]:
            bad = True
            mm = c04.first_mismatch(inst) or (None, None, None, None)
            sig = KNOWN_NONREAL if nonreal else f"exact-flag-after-rounding:{t['A']}:{t['v']}:{oname}"
            new = ctx.violation(sig, dict(base, n=mm[0], component=mm[1], polar_value=mm[2], true_value=mm[3], nonreal_roots=nonreal),
                                f"solution of A={t['A']} v={t['v']} with {oname} is reported as exact but component {mm[1]} is {mm[2]} at n={mm[0]}, "
                                f"A^n v gives {mm[3]}")
        elif worst is not None:
            bad = True
            sig = KNOWN_NONREAL if nonreal else f"numeric-tolerance:{t['A']}:{t['v']}:{oname}"
            new = ctx.violation(sig, dict(base, n=worst[1], component=worst[2], polar_value=worst[3], true_value=worst[4], tolerance=worst[5],
                                          nonreal_roots=nonreal),
                                f"solution of A={t['A']} v={t['v']} with {oname}: component {worst[2]} at n={worst[1]} is {worst[3]}, A^n v gives "
                                f"{worst[4]} (tolerance {worst[5]:.3g} derived from numeric_eps={eps})")
        elif not (o.get("numeric_roots") or o.get("numeric_croots")):
            bad = True
            new = ctx.violation(f"exact-flag:{t['A']}:{t['v']}", base, f"exact solve of A={t['A']} v={t['v']} is flagged rounded")
        if not bad or not new:
            ctx.coverage["discharged"] += 1     # decided: within tolerance and flagged rounded, or a known finding
        if not bad:
            ctx.sample({"system": {"A": t["A"], "v": t["v"]}, "options": oname, "is_exact": r["is_exact"],
                        "closed_form_component_0": r["sols"][0][:160], "within_tolerance_n<16": True}, limit=9)
    ctx.coverage["numeric_option_histogram"] = hist
    ctx.coverage["numeric_solver_errors"] = errs
    return labelled


def process_numeric_validation(ctx, vrecs):
    vstat = {}
    for rec in vrecs:
        lab = rec["label"]
        vstat[rec["status"]] = vstat.get(rec["status"], 0) + 1
        if rec["status"] == "unsupported":
            continue
        ctx.coverage["obligations"] += 1
        if rec["status"] == "accepted":
            ctx.coverage["discharged"] += 1
        else:
            ctx.violation(f"exact-flag-not-validated:{lab['A']}:{lab['v']}:{lab['options']}", {"system": lab, "validator": rec["status"], "why": rec.get("why")},
                          f"solution of A={lab['A']} v={lab['v']} with {lab['options']} is flagged exact and agrees for n < 16 but is rejected by check_solution",
                          no_input=True)
    ctx.coverage["numeric_exact_flag_validator_status"] = vstat


# ---- part C: known defect 11 and the CLI path -----------------------------------------------
FUNC_TEXT = """f = 0
x = 0
y = 1
z = 0
while true:
    f = Bernoulli(1/2)
    x = Normal(0,1)
    if f == 1:
        y = Exp(x)
    end
    z = z + y
end
"""
CLI_SETS = [[], ["--cond2arithm"], ["--transform_categoricals"], ["--cond2arithm", "--transform_categoricals"],
            ["--numeric_roots"], ["--numeric_croots", "--numeric_eps", "0.001"], ["--type_fp_iterations", "7", "--exact_func_moments"],
            # an accuracy request SHARPER than the default 1e-10 must reach the solver
            ["--numeric_roots", "--numeric_eps", "1e-25"]]


def known_and_cli_tasks(ctx, progs):
    tasks = [{"kind": "analyze", "text": FUNC_TEXT, "goals": ["y"], "nvals": 4, "all_monomials": False,
              "opts": {"cond2arithm": c, "exact_func_moments": False}, "timeout": 90} for c in (False, True)]
    cli_progs = [pr for pr in progs if "conditioned-draw" not in pr[2]][:ctx.pick(4, 8)]
    cmeta = []
    for p, goals, tag, r0 in cli_progs:
        for fl in CLI_SETS:
            tasks.append({"kind": "options_cli", "text": P.prog_text(p), "goals": [gen.goal_text(m) for m in goals], "flags": fl, "timeout": 90})
            cmeta.append((p, goals, fl, r0))
    return tasks, cmeta


def process_known_and_cli(ctx, cmeta, res):
    ra, rb = res[0], res[1]
    try:
        va = ra["goals"][0]["instances"][0]["values"]
        vb = rb["goals"][0]["instances"][0]["values"]
        flat_b = rb.get("flat_text", "")
        ctx.coverage["functional_assignment_exhibit"] = {"default": ra["goals"][0]["sols"], "cond2arithm": rb["goals"][0]["sols"]}
        ctx.coverage["obligations"] += 1
        if va != vb:
            sig = KNOWN_FUNC_DROP if "Exp" not in flat_b else "cond2arithm:functional:" + FUNC_TEXT
            new = ctx.violation(sig, {"program_text": FUNC_TEXT, "goal": "y", "n": 1, "value_default": va[1][0], "value_cond2arithm": vb[1][0],
                                      "closed_form_default": ra["goals"][0]["sols"], "closed_form_cond2arithm": rb["goals"][0]["sols"],
                                      "flat_program_cond2arithm": flat_b},
                                f"E(y) at n=1 is {va[1][0]} by default and {vb[1][0]} with cond2arithm (conditioned y = Exp(x))")
            if not new:
                ctx.coverage["discharged"] += 1
        else:
            ctx.coverage["discharged"] += 1
    except (KeyError, IndexError, TypeError):
        ctx.coverage["functional_assignment_exhibit"] = {
            "default": err_class(ra) if ("error" in ra or "exception" in ra) else str([g.get("exception") for g in ra.get("goals", [])]),
            "cond2arithm": err_class(rb) if ("error" in rb or "exception" in rb) else str([g.get("exception") for g in rb.get("goals", [])])}
    n_sym = sp.Symbol("n", integer=True)
    cstat = {}
    for (p, goals, fl, r0), r in zip(cmeta, res[2:]):
        text = P.prog_text(p)
        key = " ".join(fl) or "(none)"
        if "error" in r:
            cstat[key + ":" + r["error"]] = cstat.get(key + ":" + r["error"], 0) + 1
            continue
        want = {"transform_categoricals": "--transform_categoricals" in fl, "cond2arithm": "--cond2arithm" in fl,
                "numeric_roots": "--numeric_roots" in fl, "numeric_croots": "--numeric_croots" in fl,
                "numeric_eps": float(fl[fl.index("--numeric_eps") + 1]) if "--numeric_eps" in fl else 1e-10, "type_fp_iterations": 7 if "--type_fp_iterations" in fl else 100,
                "exact_func_moments": "--exact_func_moments" in fl, "disable_type_inference": False, "trivial_guard": False}
        got = r.get("settings")
        ctx.coverage["obligations"] += 1
        if got is None or any(got.get(k) != v for k, v in want.items()):
            ctx.violation(f"cli-settings:{key}", {"flags": fl, "settings_written": got, "expected": want},
                          f"command line {key} leaves settings {got}, expected {want}")
            continue
        if "exception" in r:
            cstat[key + ":" + r["exception"]["etype"]] = cstat.get(key + ":" + r["exception"]["etype"], 0) + 1
            ctx.coverage["discharged"] += 1
            continue
        numeric = any(f in fl for f in ("--numeric_roots", "--numeric_croots"))
        bad = None
        for gi, (m, pr) in enumerate(zip(goals, r.get("printed", []))):
            gr = r0["goals"][gi]
            ref = goal_values(gr, gen.goal_text(m))
            parts = pr["text"].split("; ")
            try:
                general = sp.sympify(parts[-1], locals={"n": n_sym})
                specials = [sp.sympify(x) for x in parts[:-1]]
            except Exception:
                continue
            for n in range(len(ref)):
                if ref[n] is None:
                    continue
                val = specials[n] if n < len(specials) else general.subs(n_sym, n)
                if pr["exact"] or not numeric:
                    if sp.simplify(val - sp.Rational(ref[n].numerator, ref[n].denominator)) != 0:
                        bad = (gi, n, str(val), str(ref[n]), pr["exact"])
                elif abs(complex(sp.N(val, 60)) - complex(ref[n])) > 1e-2 * (n + 1) ** 2 * max(1, abs(float(ref[n]))):
                    bad = (gi, n, str(val), str(ref[n]), pr["exact"])
                elif want["numeric_eps"] < 1e-10:
                    # requested accuracy sharper than the default: the error must be far below what the default would give
                    err = abs(sp.N(val - sp.Rational(ref[n].numerator, ref[n].denominator), 60))
                    if err > 1e-18 * (n + 1) ** 2 * max(1, abs(float(ref[n]))):
                        bad = (gi, n, str(sp.N(val, 30)), str(ref[n]), pr["exact"])
                if bad:
                    break
            if bad:
                break
        if bad:
            A0 = r0["goals"][bad[0]]["instances"][0]["A"]
            sig = KNOWN_NONREAL if ("--numeric_roots" in fl and nonreal_roots(A0)) else f"cli-result:{text}:{key}"
            new = ctx.violation(sig, {"program_text": text, "flags": fl, "goal": gen.goal_text(goals[bad[0]]), "n": bad[1],
                                      "printed_value": bad[2], "api_default_value": bad[3], "printed_as_exact": bad[4], "printed": r.get("printed")},
                                f"polar.py {key} prints E({gen.goal_text(goals[bad[0]])}) with value {bad[2]} at n={bad[1]} "
                                f"({'exact' if bad[4] else 'rounded'}), default settings give {bad[3]}")
            if not new:
                ctx.coverage["discharged"] += 1
                cstat[key + ":known-finding"] = cstat.get(key + ":known-finding", 0) + 1
        else:
            ctx.coverage["discharged"] += 1
            cstat[key + ":ok"] = cstat.get(key + ":ok", 0) + 1
    ctx.coverage["cli_flag_sets"] = cstat


def run(ctx):
    import threading
    ok, log = lib.coq_check_props(ctx)
    if not ok:
        ctx.violation("proof-broken", {"theorem": "props/C17.v", "log": log[-3000:]}, "props/C17.v no longer checks", no_input=True)
        return
    lib.coq_make(["theories/Search.vo", "theories/OptionsThm.vo"])
    progs = select_programs(ctx)
    n_oracle = ctx.pick(5, 7)
    # all Polar work in one batch, the exact oracle (Coq) concurrently
    ptasks, pmeta = program_tasks(ctx, progs)
    ntasks, nmeta = numeric_tasks(ctx)
    ktasks, kmeta = known_and_cli_tasks(ctx, progs)
    box = {}

    def polar():
        _t = _time.time()
        box["res"] = lib.run_tasks(ptasks + ntasks + ktasks, timeout=90)
        tick(ctx, "polar-all-settings+numeric+cli", _t)
    th = threading.Thread(target=polar)
    th.start()
    _t = _time.time()
    exact = oracle.exact_moments(ctx, [(p, goals, n_oracle) for p, goals, _, _ in progs], timeout=ctx.pick(75, 300))
    tick(ctx, "oracle", _t)
    th.join()
    res = box["res"]
    pres, nres, kres = res[:len(ptasks)], res[len(ptasks):len(ptasks) + len(ntasks)], res[len(ptasks) + len(ntasks):]
    _t = _time.time()
    by_prog, labelled, pipe_cases = process_programs(ctx, progs, ptasks, pmeta, pres, exact, n_oracle)
    nlabelled = process_numeric(ctx, nmeta, nres)
    process_known_and_cli(ctx, kmeta, kres)
    tick(ctx, "compare", _t)
    # Coq: check_solution for everything, then check_pipeline cases (deduplicated) and the model/code ties in one batch
    _t = _time.time()
    vrecs = c04.validate_instances(ctx, labelled + nlabelled)
    tick(ctx, "check_solution", _t)
    seen, files, named = {}, [], []
    for lab, term in pipe_cases:
        k = alpha_term(term)
        if k not in seen:
            seen[k] = f"p17_{len(seen)}"
            files.append((seen[k], core.WP_HEADER + f"Eval vm_compute in {term}.\n"))
        named.append((lab, seen[k]))
    tfiles, tinfo = tie_files(ctx, progs, by_prog)
    _t = _time.time()
    outs = lib.coq_run_many(ctx, files + tfiles, timeout=ctx.pick(40, 240), jobs=14)
    tick(ctx, "check_pipeline+ties", _t)
    ctx.coverage["pipeline_cases_distinct"] = len(files)
    process_validation(ctx, progs, by_prog, [r for r in vrecs if r["label"].get("part") == "programs"], named, outs, tinfo, outs)
    process_numeric_validation(ctx, [r for r in vrecs if r["label"].get("part") == "numeric"])
    import os
    tms = os.times()
    ctx.coverage["cpu_seconds_children"] = round(tms.children_user + tms.children_system, 1)
    ctx.coverage["rule"] = ("source programs from harness/gen.py (finite variables, accumulators, guards, nested if/elif/else, 2-4 way choices, draws) "
                            "plus a corpus (three-way choices, self-referencing alternatives, complex / irrational eigenvalues, conditioned draw, guard), "
                            "kept when Polar's default settings accept them; each analysed under "
                            f"{len(settings_list(ctx.quick))} settings = 8 combinations of cond2arithm x transform_categoricals x force_cyclic with inferred types "
                            "+ declared (= inferred) and declared-superset types; one evaluation = one pair of settings under which the same goal "
                            f"succeeded, compared exactly for n <= {NVALS} (and with the exact moments of the source program for n <= {n_oracle}); plus linear systems "
                            "with irrational / complex roots under numeric_roots / numeric_croots / numeric_eps; non-trivial = system with >= 2 monomials; "
                            "distinct by (program text, goal, settings pair) resp. (A, v, options)")
    ctx.coverage["trusted_base"] += [
        "harness/progast.py printers (one AST printed as Polar text and as a Coq term), harness/tasks_core.py structural dumps of Polar's programs / types / systems",
        "harness/exppoly.py decomposition of closed forms (re-evaluated by the validator)",
        "sympy (in the harness only) to count real roots of characteristic polynomials when classifying numeric-root results",
    ]
    ctx.assumptions += [
        "programs and systems are sampled; per instance the validators give 'for all n' (closed form = A^n v; with check_pipeline: = exact moments of the flat program), "
        f"pairs of settings with different flat programs are additionally compared for n <= {NVALS} against each other and for n <= {n_oracle} with the source semantics",
        "since /repo 0c1450d the conditioned-draw branch of the cond2arithm model (fresh u = D; x = [C]u + [not C]default) is tied to the real pass "
        "like the polynomial branch (c2a_matches on the snapshots)",
        "transform_categoricals: the theorem is about the source statement; the normalisation passes applied afterwards are C02's subject "
        "(those pairs are validated per flat program and compared on n <= 8)",
        "numeric options: the tolerance 100*eps*(n+1)^2*max(1,|value|) for n <= 15 is a validation bound, not a theorem",
        "finite discrete programs (continuous draws enter the theorems through cmom_ok)",
    ]
