"""C15 — Bayesian-network import and queries agree with the network's joint law.

proof part (props/C15.v): for ALL networks — CPT notations agree, acceptance implies fully
  specified rows within tolerance, the queue-based topological sort is a parents-first
  permutation exactly on DAGs, one execution of the generated body draws the product law
  (last probability of each choice implicit), the exact-inference and sampling-time
  identities and the limit 1/q.  All about the Gallina model theories/BayesNet*.v.
tie (K, every run): generated BIF texts (harness/bifgen.py, valid + malformed streams) are run
  through the REAL BifParser / NetworkTransformer / CodeGenerator / Polar Parser
  (harness/tasks_bif.py) and through the Coq model (vm_compute in generated case files):
  accept/reject, the assembled network, the generated program and the name mapping are
  compared inside Coq against what Polar produced.
independent oracle: the generator knows the intended CPTs; the joint law is enumerated from
  them in this file (Fractions).  It is compared (a) with the exact law of Polar's generated
  program under an interpreter of the dumped program, (b) with the Coq specification
  joint_expect evaluated in the kernel, (c) with the printed answers of the real
  --exact_inference / --sample_time_until actions."""
import json
import re
from fractions import Fraction

import bifgen
import lib

TOL = Fraction(1, 1000)
POLAR_KEYWORDS = {"if", "elif", "else", "end", "while", "true", "false", "types"}
SYMENGINE_CONSTANTS = {"e", "pi", "oo", "zoo", "nan", "inf"}


# ------------------------------------------------------------------ Coq term printers
def cstr(s):
    return '"' + s.replace('"', '""') + '"'


def clist(xs):
    return "[" + "; ".join(xs) + "]"


def cq(fr):
    fr = Fraction(fr)
    return f"(mkq ({fr.numerator}) {fr.denominator})"


def cqlits(lits):
    return clist([cq(bifgen.lit_value(x)) for x in lits])


def coq_bif(east):
    vs = []
    for v in east["vars"]:
        ts = clist([f"({n}, {clist([cstr(x) for x in dom])})" for n, dom in v["types"]])
        vs.append(f"{{| vd_name := {cstr(v['name'])}; vd_types := {ts} |}}")
    ps = []
    for pb in east["probs"]:
        items = []
        for it in pb["items"]:
            if it[0] == "default":
                items.append(f"IDefault {cqlits(it[1])}")
            elif it[0] == "table":
                items.append(f"ITable {cqlits(it[1])}")
            elif it[0] == "entry":
                items.append(f"IEntry {clist([cstr(x) for x in it[1]])} {cqlits(it[2])}")
            else:
                raise ValueError(it[0])
        ps.append(f"{{| pb_var := {cstr(pb['var'])}; pb_parents := {clist([cstr(x) for x in pb['parents']])}; "
                  f"pb_items := {clist(items)} |}}")
    return f"{{| b_vars := {clist(vs)}; b_probs := {clist(ps)} |}}"


class Unrepresentable(Exception):
    pass


def coq_network(dump):
    """Polar's network dump -> Coq term of type network (indices by declaration order)"""
    names = [v["name"] for v in dump]
    if len(set(names)) != len(names):
        raise Unrepresentable("duplicate variable names in network")
    idx = {n: i for i, n in enumerate(names)}
    doms = [v["domain"] for v in dump]
    out = []
    for v in dump:
        if v["parents"] is None or v["cpt"] is None:
            raise Unrepresentable(f"variable {v['name']} without parents/cpt")
        if v["vname"] != v["name"]:
            raise Unrepresentable("dict key differs from variable name")
        try:
            pars = [idx[p] for p in v["parents"]]
        except KeyError as e:
            raise Unrepresentable(f"unknown parent {e}")
        rows = []
        for key, row in v["cpt"]:
            if len(key) != len(pars):
                raise Unrepresentable("key length")
            try:
                k = [doms[p].index(x) for p, x in zip(pars, key)]
            except ValueError:
                raise Unrepresentable(f"key value outside the parent domain: {key}")
            try:
                r = [Fraction(x) for x in row]
            except ValueError:
                raise Unrepresentable(f"row with a non-number: {row}")
            rows.append(f"({clist([str(x) for x in k])}, {clist([cq(x) for x in r])})")
        out.append(f"{{| nv_name := {cstr(v['name'])}; nv_dom := {clist([cstr(x) for x in v['domain']])}; "
                   f"nv_par := {clist([str(p) for p in pars])}; nv_cpt := {clist(rows)} |}}")
    return clist(out)


def name_index(g, m):
    """polar name -> variable index of the model (network variables in declaration order, then the
    two auxiliary variables of the query)"""
    idx = {}
    for i, (_bif, polar) in enumerate(g["mapping"]):
        if polar in idx:
            raise Unrepresentable(f"name mapping not injective: {polar}")
        idx[polar] = i
    aux = g.get("aux", {})
    for nm, off in (("indicator_name", 0), ("inference_name", 1), ("count_name", 0), ("continue_name", 1)):
        if nm in aux:
            if aux[nm] in idx:
                raise Unrepresentable(f"auxiliary name {aux[nm]} collides with a network variable")
            idx[aux[nm]] = m + off
    return idx


def conv_assign(a, idx, flags=None):
    """dumped assignment -> (coq term, python tuple); flags collects float residues of the implicit
    last probability (Polar computes it as a float subtraction printed with 15 digits)"""
    if a.get("k") != "assign":
        raise Unrepresentable(f"statement {a}")
    if a["var"] not in idx:
        raise Unrepresentable(f"unknown variable {a['var']}")
    x = idx[a["var"]]
    polys = a["polys"]
    if all("num" in p for p in polys):
        try:
            vals = [int(p["num"]) for p in polys]
        except ValueError:
            raise Unrepresentable(f"non-integer value in {a}")
        if any(v < 0 for v in vals):
            raise Unrepresentable("negative value")
        if not all(a["probs_rational"]):
            raise Unrepresentable(f"non-rational probability in {a}")
        probs = [Fraction(p) for p in a["probs"]]
        if len(probs) != len(vals):
            raise Unrepresentable("lengths")
        head = probs[:-1]
        if flags is not None and len(probs) >= 2 and probs[-1] != 1 - sum(head, Fraction(0)):
            flags.append({"choice": a["probs"], "implicit_last_should_be": str(1 - sum(head, Fraction(0)))})
        return (f"ACat {x} {clist([str(v) for v in vals])} {clist([cq(p) for p in head])}",
                ("cat", x, vals, probs))
    if len(polys) == 1 and polys[0].get("op") in ("mul", "add") and all(polys[0]["args_sym"]) \
            and len(polys[0]["args"]) == 2 and a["probs"] == ["1"]:
        try:
            ab = sorted(idx[s] for s in polys[0]["args"])
        except KeyError as e:
            raise Unrepresentable(f"unknown variable {e}")
        op = "AMul" if polys[0]["op"] == "mul" else "AAdd"
        return f"{op} {x} {ab[0]} {ab[1]}", (polys[0]["op"], x, ab[0], ab[1])
    raise Unrepresentable(f"assignment shape {a}")


def conv_cond(atoms, idx):
    out = []
    for at in atoms:
        if at[0] != "atom" or at[2] != "==":
            raise Unrepresentable(f"condition {at}")
        if at[1] not in idx:
            raise Unrepresentable(f"unknown variable {at[1]} in condition")
        try:
            c = int(at[3])
        except ValueError:
            raise Unrepresentable(f"condition constant {at[3]}")
        out.append((idx[at[1]], c))
    return out


def conv_program(g, m):
    """-> (Coq gprog term, python program for the interpreter); g["float_last"] lists float residues"""
    idx = name_index(g, m)
    flags = g.setdefault("float_last", [])
    prog = g["program"]
    if not prog["guard_true"] or prog["typedefs"]:
        raise Unrepresentable("loop guard / typedefs")
    init = []
    pinit = []
    for a in prog["initial"]:
        t, p = conv_assign(a, idx)
        if p[0] != "cat" or len(p[2]) != 1:
            raise Unrepresentable("initial assignment not constant")
        init.append(f"({p[1]}, {p[2][0]})")
        pinit.append((p[1], p[2][0]))
    body = []
    pbody = []
    for s in prog["body"]:
        if s.get("k") == "if":
            brs = []
            pbrs = []
            if len(s["conds"]) != len(s["branches"]):
                raise Unrepresentable("if shape")
            for atoms, br in zip(s["conds"], s["branches"]):
                if len(br) != 1:
                    raise Unrepresentable("branch with several statements")
                c = conv_cond(atoms, idx)
                t, p = conv_assign(br[0], idx, flags)
                brs.append(f"({clist([f'({x}, {v})' for x, v in c])}, {t})")
                pbrs.append((c, p))
            if s["else"] is None:
                els, pels = "None", None
            else:
                if len(s["else"]) != 1:
                    raise Unrepresentable("else with several statements")
                t, pels = conv_assign(s["else"][0], idx, flags)
                els = f"(Some ({t}))"
            body.append(f"SIf {clist(brs)} {els}")
            pbody.append(("if", pbrs, pels))
        else:
            t, p = conv_assign(s, idx, flags)
            body.append(f"SAssign ({t})")
            pbody.append(("assign", p))
    return f"{{| g_init := {clist(init)}; g_body := {clist(body)} |}}", (pinit, pbody)


def coq_query(spec, net):
    if spec["type"] == "none":
        return "QNone"
    ev = clist([f"({cstr(net.names[v])}, {cstr(net.domains[v][x])})" for v, x in spec["evidence"]])
    if spec["type"] == "exact":
        return f"(QExact {cstr(net.names[spec['target']])} {ev})"
    return f"(QSample {ev})"


# ------------------------------------------------------------------ interpreter of dumped programs
def run_assign(p, st):
    if p[0] == "cat":
        _, x, vals, probs = p
        return [(pr, st[:x] + (v,) + st[x + 1:]) for v, pr in zip(vals, probs)]
    op, x, a, b = p
    v = st[a] * st[b] if op == "mul" else st[a] + st[b]
    return [(Fraction(1), st[:x] + (v,) + st[x + 1:])]


def run_stmt(s, st):
    if s[0] == "assign":
        return run_assign(s[1], st)
    for c, p in s[1]:
        if all(st[x] == v for x, v in c):
            return run_assign(p, st)
    if s[2] is not None:
        return run_assign(s[2], st)
    return [(Fraction(1), st)]


def run_body(body, dist):
    for s in body:
        nd = {}
        for st, w in dist.items():
            for pr, st2 in run_stmt(s, st):
                if pr != 0:
                    nd[st2] = nd.get(st2, 0) + w * pr
        dist = nd
    return dist


def program_law(pprog, nvars, iters=1):
    pinit, pbody = pprog
    st = [0] * nvars
    for x, v in pinit:
        st[x] = v
    dist = {tuple(st): Fraction(1)}
    for _ in range(iters):
        dist = run_body(pbody, dist)
    return dist


# ------------------------------------------------------------------ the check
HEADER = ("From Coq Require Import String QArith Qcanon List.\n"
          "From Polar Require Import Qcx BayesNet BayesNetSem BayesNetSpec.\n"
          "Import ListNotations.\nOpen Scope string_scope.\nOpen Scope list_scope.\nOpen Scope nat_scope.\n"
          "Definition tol := mkq 1 1000.\n")


def classify_reject(exc):
    if exc["etype"] == "BifFormatException":
        return "BifFormatException"
    if exc["module"].startswith("lark"):
        return "lark:" + exc["etype"]
    return "crash:" + exc["etype"]


def build_cases(ctx):
    rng = ctx.rng
    cases = []
    n_valid = ctx.pick(90, 600)
    n_mal = ctx.pick(3, 14)
    for i in range(n_valid):
        ast, text, info, net = bifgen.valid_case(rng, max_vars=6)
        qs = [{"type": "none"}] + bifgen.draw_queries(rng, net, n_exact=1 if rng.random() < 0.6 else 0,
                                                     n_sample=1 if rng.random() < 0.6 else 0)
        cases.append({"kind": "valid", "ast": ast, "text": text, "info": info, "net": net, "queries": qs})
    for kind in bifgen.MALFORMED:
        for _ in range(n_mal):
            ast, text, info, net = bifgen.malform(rng, kind)
            cases.append({"kind": "valid+property-line" if kind == "prob_property" else "malformed:" + kind, "ast": ast, "text": text, "info": info, "net": net,
                          "queries": [{"type": "none"}]})
    # names whose sanitised form is a keyword of Polar's language or a symengine constant
    for rep in range(ctx.pick(1, 3)):
        for res in bifgen.RESERVED_POOL:
            def names(r, m, res=res):
                ns = bifgen.draw_names(r, m - 1) if m > 1 else []
                ns.insert(r.randrange(len(ns) + 1), res)
                return ns if len(set(ns)) == len(ns) else [res] + [f"v{j}" for j in range(m - 1)]
            ast, text, info, net = bifgen.valid_case(rng, max_vars=3, small=True, names=names)
            info["reserved"] = res
            cases.append({"kind": "reserved-name", "ast": ast, "text": text, "info": info, "net": net,
                          "queries": [{"type": "none"}]})
    for i, c in enumerate(cases):
        c["id"] = i
    return cases


def target_network_matches(net, dump):
    """compare Polar's network with the generator's intended one (names, domains, parents, rows)"""
    if [v["name"] for v in dump] != net.names:
        return "variable names/order"
    for i, v in enumerate(dump):
        if v["domain"] != net.domains[i]:
            return f"domain of {v['name']}"
        if v["parents"] != [net.names[p] for p in net.parents[i]]:
            return f"parents of {v['name']}"
        keys = net.keys(i)
        got = {tuple(k): [Fraction(x) for x in row] for k, row in v["cpt"]}
        if len(got) != len(keys):
            return f"number of rows of {v['name']}"
        for k in keys:
            ks = tuple(net.domains[p][x] for p, x in zip(net.parents[i], k))
            if got.get(ks) != net.cpt[i][k]:
                return f"row {ks} of {v['name']}: network has {got.get(ks)}, the file denotes {net.cpt[i][k]}"
    return None


def marginal(dist, m):
    out = {}
    for st, w in dist.items():
        out[st[:m]] = out.get(st[:m], 0) + w
    return {k: v for k, v in out.items() if v != 0}


def replay_of(c, **kw):
    d = {"kind": c["kind"], "text": c["text"], "ast": bifgen.effective_ast(c["ast"]), "info": c["info"]}
    d.update(kw)
    return d


def run(ctx):
    ok, log = lib.coq_check_props(ctx)
    if not ok:
        ctx.violation("proof-broken", {"theorem": "props/C15.v", "log": log[-3000:]},
                      "props/C15.v no longer checks", no_input=True)
        return
    ctx.coverage["trusted_base"] += [
        "hand-written Gallina model theories/BayesNet.v of bayesnet/transformer.py, code_generator.py, query/*.py "
        "(tied by the correspondence check, not verified against the Python text)",
        "lark grammar bif-syntax.lark and inputparser (text -> AST) are exercised, not modelled: harness/bifgen.py "
        "renders each text from the AST the model receives",
        "harness/checks/c15.py converters (Polar dumps -> Coq terms), interpreter of dumped programs and "
        "joint-law enumerator (exact Fractions)",
        "generated case files evaluated by vm_compute in the kernel (no extraction)",
        "C15_sampling_time_limit and C15_sampling_time_program_limit use Coquelicot/Reals: axioms "
        "ClassicalDedekindReals.sig_forall_dec and FunctionalExtensionality.functional_extensionality_dep; every "
        "other C15 theorem is closed under the global context",
    ]
    ctx.assumptions += [
        "probabilities are decimal literals with <= 6 significant digits read as exact rationals; Python float "
        "summation and the float subtraction behind the implicit last probability are not modelled (the check "
        "compares Polar's parsed probabilities exactly, so a float effect would be reported)",
        "generated rows keep |1 - sum| <= 0.0005 or >= 0.002 (tolerance 0.001 never approached)",
        "states of the reference semantics are natural-number valued (all values of generated programs are)",
        "get_unique_name's random suffix is modelled as a relation (valid_mapping), not as a function",
        "query strings are parsed by the harness generator (split on '|', ',', '=', '**' is not modelled); queries "
        "only over names/values without those characters",
    ]
    cases = build_cases(ctx)
    tasks = [{"kind": "bif", "id": c["id"], "text": c["text"],
              "queries": [{"type": q["type"], "q": q.get("q")} for q in c["queries"]], "timeout": 60}
             for c in cases]
    results = lib.run_tasks(tasks, timeout=60)

    hist = {}
    rejects = {}
    notation_hist = {}
    coq_defs = []
    layout = []          # (case, list of labels) in the order of the booleans
    for c, r in zip(cases, results):
        hist[c["kind"]] = hist.get(c["kind"], 0) + 1
        for nt in c["info"].get("notations", []):
            notation_hist[nt] = notation_hist.get(nt, 0) + 1
        c["real"] = r
        if "error" in r:
            ctx.violation(f"worker:{r['error']}:{c['kind']}", replay_of(c, result=r),
                          f"Polar worker {r['error']} on a {c['kind']} BIF input", no_input=True)
            continue
        i = c["id"]
        east = bifgen.effective_ast(c["ast"])
        labels = ["accept"]
        defs = [f"Definition b{i} : bif := {coq_bif(east)}.", f"Definition n{i} := assemble tol b{i}."]
        terms = [f"is_some n{i}"]
        m = len(c["net"].names)
        if r["accept"]:
            try:
                defs.append(f"Definition e{i} : network := {coq_network(r['network'])}.")
                terms.append(f"network_eqb n{i} (Some e{i})")
                labels.append("network")
            except Unrepresentable as e:
                c["net_unrep"] = str(e)
            for j, (q, g) in enumerate(zip(c["queries"], r["gen"])):
                cqy = coq_query(q, c["net"])
                model = f"(obind n{i} (fun net => codegen net {cqy}))"
                if g.get("stage") == "codegen" and g["exc"]["etype"] == "AssertionError":
                    terms.append(f"gprog_eqb {model} None")
                    labels.append(f"codegen-refused:{j}")
                    continue
                if "program" not in g:
                    g["unrep"] = f"stage {g.get('stage')}: {g.get('exc')}"
                    continue
                try:
                    t, pprog = conv_program(g, m)
                except Unrepresentable as e:
                    g["unrep"] = str(e)
                    continue
                g["pprog"] = pprog
                defs.append(f"Definition p{i}_{j} : gprog := {t}.")
                terms.append(f"gprog_eqb {model} (Some p{i}_{j})")
                labels.append(f"program:{j}")
                nm = clist([cstr(a) for a, _ in g['mapping']])
                mp = clist([cstr(b) for _, b in g['mapping']])
                terms.append(f"valid_mapping {nm} {mp}")
                labels.append(f"mapping:{j}")

        defs.append(f"Definition r{i} : list bool := {clist(terms)}.")
        coq_defs.append((i, "\n".join(defs)))
        layout.append((c, labels))

    # evaluate the model in Coq, in chunks
    per = 25
    files = []
    for k in range(0, len(coq_defs), per):
        chunk = coq_defs[k:k + per]
        body = HEADER + "\n".join(d for _, d in chunk) + "\n"
        body += "Eval vm_compute in (" + " ++ ".join(f"r{i}" for i, _ in chunk) + ").\n"
        files.append((f"c15_{k // per}", body))
    res = lib.coq_run_many(ctx, files, timeout=600)
    verdict = {}
    for k in range(0, len(coq_defs), per):
        okc, out = res[f"c15_{k // per}"]
        bl = lib.parse_bool_list(out) if okc else None
        chunk = layout[k:k + per]
        need = sum(len(lbls) for _, lbls in chunk)
        if bl is None or len(bl) != need:
            ctx.violation(f"coq-eval:c15_{k // per}", {"output": out[-3000:]},
                          "the Coq model could not be evaluated on a chunk of generated cases", no_input=True)
            continue
        pos = 0
        for c, lbls in chunk:
            verdict[c["id"]] = dict(zip(lbls, bl[pos:pos + len(lbls)]))
            pos += len(lbls)

    n_prog_sem = 0
    for c in cases:
        r = c["real"]
        v = verdict.get(c["id"])
        if v is None or "error" in r:
            continue
        kind = c["kind"]
        real_acc = bool(r["accept"])
        model_acc = v["accept"]
        nontriv = len(c["net"].names) >= 2
        ctx.count({"t": c["text"]}, nontrivial=nontriv)
        if not real_acc:
            rk = classify_reject(r["exc"])
            rejects[rk] = rejects.get(rk, 0) + 1
        exp = c["info"].get("expect_accept")
        # ---- accept / reject
        ctx.coverage["obligations"] += 1
        if exp is not None:
            # text-level case: outcome known by construction
            if real_acc != exp:
                ctx.violation(f"accept:{kind}", replay_of(c, polar=r.get("exc"), expected_accept=exp),
                              f"{kind}: BifParser {'accepted' if real_acc else 'refused'} the file")
            else:
                ctx.coverage["discharged"] += 1
            if not real_acc and c["info"].get("well_formed_bif"):
                ctx.coverage["refused_well_formed"] = ctx.coverage.get("refused_well_formed", 0) + 1
            continue
        if kind == "valid+property-line" and model_acc and not real_acc and \
                r["exc"]["etype"] == "AssertionError" and "__add_cpt__" in r.get("tb", ""):
            newv = ctx.violation("accept:property-in-probability-block", replay_of(c, polar=r.get("exc"), tb=r.get("tb")),
                                 "a property line inside a probability block (allowed by bif-syntax.lark) makes "
                                 "__add_cpt__ fail with `assert False`: the well-formed file yields no network")
            if not newv:
                ctx.coverage["discharged"] += 1
            continue
        if real_acc != model_acc:
            if kind == "valid" or kind == "reserved-name":
                what = (f"a well-formed BIF file ({', '.join(c['info'].get('notations', []))}) is "
                        f"{'accepted' if real_acc else 'refused'} by BifParser but {'accepted' if model_acc else 'refused'} "
                        f"by the model: {r.get('exc')}")
            else:
                what = (f"{kind}: BifParser {'accepts' if real_acc else 'refuses'} the file, the model of "
                        f"__add_cpt__ {'accepts' if model_acc else 'refuses'} it ({r.get('exc')})")
            intended_reject = kind.startswith("malformed:") and not c["info"].get("maybe_accepted")
            concrete = (kind == "valid" and not real_acc) or (intended_reject and real_acc)
            ctx.violation(f"accept:{kind}", replay_of(c, polar_accepts=real_acc, model_accepts=model_acc,
                                                      polar=r.get("exc")), what, no_input=not concrete)
            continue
        ctx.coverage["discharged"] += 1
        if kind == "valid" and not real_acc:
            ctx.violation("accept:valid-refused-by-both", replay_of(c, polar=r.get("exc")),
                          "a file generated as well-formed is refused by Polar and by the model (generator defect?)",
                          no_input=True)
            continue
        if not real_acc:
            continue
        # ---- network
        ctx.coverage["obligations"] += 1
        intended = kind in ("valid", "reserved-name", "valid+property-line")
        tgt = target_network_matches(c["net"], r["network"]) if intended else None
        if "net_unrep" in c:
            ctx.violation(f"network:shape:{kind}", replay_of(c, why=c["net_unrep"], network=r["network"]),
                          f"accepted network outside the modelled shape: {c['net_unrep']}", no_input=tgt is None)
        elif not v.get("network", False) or tgt is not None:
            ctx.violation(f"network:{kind}", replay_of(c, network=r["network"], differs=tgt,
                                                       model_equal=v.get("network")),
                          f"the network BifParser builds differs from the one the file denotes"
                          f"{': ' + tgt if tgt else ' (model of __add_cpt__ disagrees)'}", no_input=tgt is None)
        else:
            ctx.coverage["discharged"] += 1
        if "net_unrep" in c or not v.get("network", False) or tgt is not None:
            continue      # the programs generated from a wrong network add nothing
        # ---- generated programs
        oracle = None
        for j, (q, g) in enumerate(zip(c["queries"], r["gen"])):
            ctx.coverage["obligations"] += 1
            ctx.count({"t": c["text"], "q": q.get("q"), "ty": q["type"]}, nontrivial=nontriv)
            sig_q = q["type"]
            if f"codegen-refused:{j}" in v:
                if v[f"codegen-refused:{j}"]:
                    ctx.coverage["discharged"] += 1
                    ctx.coverage["codegen_refusals"] = ctx.coverage.get("codegen_refusals", 0) + 1
                else:
                    ctx.violation(f"codegen:refused:{kind}", replay_of(c, query=q, polar=g.get("exc")),
                                  "CodeGenerator's topological sort refuses (assert) a network the model sorts",
                                  no_input=kind != "valid")
                continue
            if "unrep" in g and g.get("stage") in ("codegen", "query") and kind != "reserved-name":
                ctx.violation(f"codegen:exception:{sig_q}:{kind}", replay_of(c, query=q, polar=g.get("exc"), tb=g.get("tb")),
                              f"CodeGenerator fails on an accepted network: {g.get('exc')}", no_input=not intended)
                continue
            if "unrep" in g:
                if kind == "reserved-name":
                    low = c["info"]["reserved"].lower()
                    cls = ("keyword" if low in POLAR_KEYWORDS else
                           "symengine-constant" if low in SYMENGINE_CONSTANTS else low)
                    newv = ctx.violation(f"codegen:reserved-name:{cls}",
                                         replay_of(c, query=q, why=g["unrep"], code=g.get("code")),
                                         f"BIF variable named {c['info']['reserved']!r} becomes the Polar identifier "
                                         f"{low!r}: the generated program is not the network's program "
                                         f"({g['unrep'][:200]})")
                    if not newv:
                        ctx.coverage["discharged"] += 1
                else:
                    ctx.violation(f"codegen:shape:{sig_q}:{kind}", replay_of(c, query=q, why=g["unrep"], code=g.get("code")),
                                  f"generated program outside the modelled shape: {g['unrep'][:300]}", no_input=True)
                continue
            okp = v.get(f"program:{j}", False)
            okm = v.get(f"mapping:{j}", False)
            sem_bad = None
            if intended and tgt is None:
                # independent semantic check: exact law of Polar's program vs the product formula
                if oracle is None:
                    oracle = {a: p for a, p in bifgen.joint(c["net"]) if p != 0}
                m = len(c["net"].names)
                law = marginal(program_law(g["pprog"], m + 2, iters=1), m)
                n_prog_sem += 1
                if law != oracle:
                    diff = [(a, str(law.get(a, 0)), str(oracle.get(a, 0))) for a in sorted(set(law) | set(oracle))
                            if law.get(a, 0) != oracle.get(a, 0)][:3]
                    sem_bad = diff
            if sem_bad is None and intended and tgt is None and q["type"] != "none" and len(oracle) <= 600 \
                    and not g["float_last"]:
                # the query statements, by the interpreter on Polar's own program: two iterations
                m = len(c["net"].names)
                d2 = program_law(g["pprog"], m + 2, iters=2)
                ev = q["evidence"]
                pe = sum(p for a, p in oracle.items() if all(a[x] == y for x, y in ev))
                if q["type"] == "exact":
                    num = sum(p * a[q["target"]] ** q["power"] for a, p in oracle.items()
                              if all(a[x] == y for x, y in ev))
                    got = (sum(w * st[m + 1] ** q["power"] for st, w in d2.items()), sum(w * st[m] for st, w in d2.items()))
                    want = (num, pe)
                    names = "(E[inf^k], E[ind]) after 2 iterations"
                else:
                    got = sum(w * st[m] for st, w in d2.items())
                    want = 1 + (1 - pe) + (1 - pe) ** 2
                    names = "E[count] after 2 iterations"
                if got != want:
                    ctx.violation(f"query:{q['type']}:moments", replay_of(c, query=q, code=g["code"], got=str(got), want=str(want)),
                                  f"query \"{q['q']}\": {names} of the generated program is {got}, the joint law gives {want}")
                    continue
            if sem_bad is not None:
                a, pl, tr = sem_bad[0]
                tiny = all(abs(Fraction(x) - Fraction(y)) < Fraction(1, 10 ** 12) for _, x, y in sem_bad)
                if g["float_last"] and tiny:
                    fl = g["float_last"][0]
                    newv = ctx.violation(
                        "implicit-last:float-subtraction",
                        replay_of(c, query=q, code=g["code"], differences=sem_bad, float_last=g["float_last"][:3]),
                        f"the generated choice with probabilities {fl['choice'][:-1]} gets the implicit last probability "
                        f"{fl['choice'][-1]} instead of {fl['implicit_last_should_be']} (float subtraction in Polar's "
                        f"parser): assignment {a} has probability {pl}, the network's joint law gives {tr}")
                    if not newv:
                        ctx.coverage["discharged"] += 1
                else:
                    ctx.violation(f"codegen:law:{sig_q}", replay_of(c, query=q, code=g["code"], differences=sem_bad),
                                  f"one iteration of the generated loop gives assignment {a} probability {pl}, the "
                                  f"network's joint law gives {tr}")
            elif not okp:
                ctx.violation(f"codegen:{sig_q}:{kind}", replay_of(c, query=q, code=g["code"]),
                              "the generated program differs from the model's (same joint law on this input)",
                              no_input=True)
            elif not okm:
                ctx.violation(f"codegen:names:{kind}", replay_of(c, query=q, mapping=g["mapping"]),
                              f"variable name mapping {g['mapping']} is not a possible outcome of "
                              "sanitising + get_unique_name", no_input=True)
            else:
                ctx.coverage["discharged"] += 1
                if q["type"] != "none":
                    ctx.sample({"bif": c["text"], "query": q["q"], "generated": g["code"],
                                "verdict": "network and program equal to the model's; program law = product formula"},
                               limit=2)

    end_to_end(ctx)

    ctx.coverage["rule"] = (
        "BIF files from harness/bifgen.py: random DAGs with 1-6 variables, domain sizes 1-4, parents <= 3, CPTs "
        "expressed in table / entries / default / mixed notations with shuffled items and block order, names needing "
        "sanitising and colliding after it; malformed stream with one defect of each kind in bifgen.MALFORMED; "
        "each accepted file also with up to one exact-inference and one sampling-time query; end-to-end on networks "
        "with 2-4 variables.  Non-trivial = at least 2 variables; distinct by (text, query).")
    ctx.coverage["input_histogram"] = hist
    ctx.coverage["notation_histogram"] = notation_hist
    ctx.coverage["polar_reject_classes"] = rejects
    ctx.coverage["program_laws_enumerated"] = n_prog_sem


# ------------------------------------------------------------------ end to end
def parse_printed(stdout, spec):
    import sympy as sp
    if spec["type"] == "exact":
        prefix = f"E({spec['q']}) = "
    else:
        prefix = f"The expected number of samples until {spec['q']} is "
    for line in stdout.splitlines():
        if line.startswith(prefix) and " ≈ " in line:
            body = line[len(prefix):].rsplit(" ≈ ", 1)[0]
            return sp.sympify(body, locals={"n": sp.Symbol("n", integer=True)}), body
    return None, None


def end_to_end(ctx):
    import sympy as sp
    rng = ctx.rng
    n = ctx.pick(14, 70)
    cases = []
    tries = 0
    while len(cases) < n and tries < 50 * n:
        tries += 1
        ast, text, info, net = bifgen.valid_case(rng, max_vars=4, small=True)
        qs = bifgen.draw_queries(rng, net, n_exact=1, n_sample=1)
        if not qs:
            continue
        q = qs[0] if len(cases) % 2 == 0 else qs[-1]
        jt = bifgen.joint(net)
        pe = sum(p for a, p in jt if all(a[v] == x for v, x in q["evidence"]))
        if pe == 0 or any(p < 0 for _, p in jt):
            continue
        if q["type"] == "exact":
            num = sum(p * a[q["target"]] ** q["power"] for a, p in jt if all(a[v] == x for v, x in q["evidence"]))
            want = num / pe
        else:
            num = None
            want = 1 / pe
        cases.append({"ast": ast, "text": text, "net": net, "q": q, "pe": pe, "num": num, "want": want,
                      "id": len(cases)})
    tasks = [{"kind": "bifquery", "id": c["id"], "text": c["text"], "type": c["q"]["type"], "q": c["q"]["q"],
              "timeout": ctx.pick(75, 240)} for c in cases]
    results = lib.run_tasks(tasks, timeout=ctx.pick(75, 240))

    # the Coq specification evaluated on the same networks: joint_expect = harness oracle
    defs = []
    for c in cases:
        i = c["id"]
        q = c["q"]
        defs.append(f"Definition ev{i} : gcond := {clist([f'({v}, {x})' for v, x in q['evidence']])}.")
        ev = f"ev{i}"
        defs.append(f"Definition b{i} : bif := {coq_bif(bifgen.effective_ast(c['ast']))}.")
        if q["type"] == "exact":
            defs.append(f"Definition tg{i} : nat := {q['target']}.\nDefinition pw{i} : nat := {q['power']}.")
            f_num = f"(fun a => (ind (ev_holds {ev} a) * qpow (qnat (nth tg{i} a O)) pw{i})%Qc)"
            num = cq(c["num"])
        else:
            f_num = "(fun a => 0%Qc)"
            num = cq(0)
        defs.append(f"Definition s{i} : list bool := match assemble tol b{i} with None => [false; false] | Some net => "
                    f"[Qc_eqb (joint_expect net (fun a => ind (ev_holds {ev} a))) {cq(c['pe'])}; "
                    f"Qc_eqb (joint_expect net {f_num}) {num}] end.")
    body = HEADER + "\n".join(defs) + "\nEval vm_compute in (" + " ++ ".join(f"s{c['id']}" for c in cases) + ").\n"
    okc, out = lib.coq_run(ctx, "c15_e2e", body, timeout=600)
    bl = lib.parse_bool_list(out) if okc else None
    if bl is None or len(bl) != 2 * len(cases):
        ctx.violation("coq-eval:c15_e2e", {"output": out[-3000:]},
                      "the Coq specification joint_expect could not be evaluated", no_input=True)
        bl = None

    # the generated program of each case, dumped through Polar's own parser: gives the float residues of
    # the implicit last probabilities and the exact law of the program Polar actually analyses
    dumps = lib.run_tasks([{"kind": "bif", "id": c["id"], "text": c["text"],
                            "queries": [{"type": c["q"]["type"], "q": c["q"]["q"]}], "timeout": 60} for c in cases],
                          timeout=60)
    for c, d in zip(cases, dumps):
        c["float_last"] = []
        c["alt"] = None
        try:
            g = d["gen"][0]
            _t, pprog = conv_program(g, len(c["net"].names))
            c["float_last"] = g["float_last"]
            if c["float_last"]:
                m = len(c["net"].names)
                law = marginal(program_law(pprog, m + 2, iters=1), m)
                q = c["q"]
                pe = sum(p for a, p in law.items() if all(a[v] == x for v, x in q["evidence"]))
                if pe != 0:
                    if q["type"] == "exact":
                        num = sum(p * a[q["target"]] ** q["power"] for a, p in law.items()
                                  if all(a[v] == x for v, x in q["evidence"]))
                        c["alt"] = (pe, num / pe)
                    else:
                        c["alt"] = (pe, 1 / pe)
        except Exception:  # noqa  (shape problems are reported by the correspondence part)
            pass

    def closed_ok(val, nsym, qe):
        def closed(k):
            x = sum(((1 - qe) ** i for i in range(k + 1)), Fraction(0))
            return sp.Rational(x.numerator, x.denominator)
        return all(sp.simplify(val.subs(nsym, k) - closed(k)) == 0 for k in range(1, 6))

    def closed_near(val, nsym, qe):
        for k in range(1, 6):
            x = sum(((1 - qe) ** i for i in range(k + 1)), Fraction(0))
            try:
                if abs(complex(sp.N(val.subs(nsym, k), 30)) - float(x)) > 1e-9:
                    return False
            except Exception:  # noqa
                return False
        return True

    def float_finding(c, rp, raw, what):
        fl = c["float_last"][0]
        newv = ctx.violation(
            "implicit-last:float-subtraction", dict(rp, float_last=c["float_last"][:3]),
            f"{what}: the generated choice with probabilities {fl['choice'][:-1]} gets the implicit last probability "
            f"{fl['choice'][-1]} instead of {fl['implicit_last_should_be']} (float subtraction in Polar's parser)")
        if not newv:
            ctx.coverage["discharged"] += 1

    stats = {"exact_ok": 0, "sample_limit_missing": 0, "timeouts": 0, "float_residue_cases": 0}
    for c, r in zip(cases, results):
        q = c["q"]
        ctx.count({"t": c["text"], "q": q["q"], "e2e": q["type"]}, nontrivial=True)
        ctx.coverage["obligations"] += 1
        rp = {"text": c["text"], "query": q, "oracle_P_evidence": str(c["pe"]), "oracle_answer": str(c["want"])}
        if bl is not None and not (bl[2 * c["id"]] and bl[2 * c["id"] + 1]):
            ctx.violation("oracle:coq-vs-harness", rp,
                          "joint_expect of the Coq specification and the harness enumeration disagree", no_input=True)
            continue
        if r.get("error") == "timeout":
            stats["timeouts"] += 1
            ctx.coverage["obligations"] -= 1
            continue
        if "error" in r or "exc" in r:
            ctx.violation(f"e2e:{q['type']}:exception", dict(rp, result=r),
                          f"the {q['type']} query action failed: {r.get('exc') or r.get('error')}")
            continue
        val, raw = parse_printed(r["stdout"], q)
        rp["printed"] = raw
        if val is None:
            ctx.violation(f"e2e:{q['type']}:no-result-line", dict(rp, stdout=r["stdout"][-1500:]),
                          "no result line printed", no_input=True)
            continue
        if c["float_last"]:
            stats["float_residue_cases"] += 1
        free = {str(s) for s in val.free_symbols}
        opt = "--exact_inference" if q["type"] == "exact" else "--sample_time_until"
        truth = "enumeration of the joint law gives" if q["type"] == "exact" else "1/P(evidence) ="
        if not free:
            import exppoly
            got = exppoly.exact(val)   # never nsimplify an exact number: it 'identifies' rationals with radical products
            gotf = Fraction(int(got.p), int(got.q)) if got.is_Rational else None
            if gotf == c["want"]:
                ctx.coverage["discharged"] += 1
                if q["type"] == "exact":
                    stats["exact_ok"] += 1
                ctx.sample({"bif": c["text"], "query": q["q"], "printed": raw, "enumeration": str(c["want"])}, limit=5)
            elif gotf is not None and c["float_last"] and abs(gotf - c["want"]) < Fraction(1, 10 ** 9):
                # a float residue was exhibited in this very program and the answer deviates by its magnitude.
                # (The program is then not a probability distribution: Polar's value need not equal the
                # interpreter's, e.g. E[ind] ignores variables ind does not depend on.)
                float_finding(c, rp, raw, f"{opt} \"{q['q']}\" prints {raw}; {truth} {c['want']}")
            else:
                ctx.violation(f"e2e:{q['type']}:value", rp, f"{opt} \"{q['q']}\" prints {raw}; {truth} {c['want']}")
            continue
        if q["type"] == "sample" and free == {"n"}:
            # the defect of cli.common.transform_to_after_loop: E[count]_n printed instead of its limit.
            nsym = list(val.free_symbols)[0]
            exact_q = closed_ok(val, nsym, c["pe"])
            float_q = (not exact_q) and bool(c["float_last"]) and closed_near(val, nsym, c["pe"])
            if exact_q or float_q:
                stats["sample_limit_missing"] += 1
                new = ctx.violation(
                    "sample_time_until:limit-not-taken",
                    dict(rp, note="printed expression equals E[count]_n = sum_{i<=n} (1-q)^i for n=1..5; its limit "
                                  "1/q (theorem C15_sampling_time_program) is what the action claims to print"),
                    f"--sample_time_until \"{q['q']}\" prints the n-dependent {raw} instead of the number "
                    f"1/P(evidence) = {c['want']}")
                if not new:
                    ctx.coverage["discharged"] += 1
                if float_q:
                    ctx.coverage["obligations"] += 1
                    float_finding(c, rp, raw, f"--sample_time_until \"{q['q']}\": E[count]_n is computed with "
                                              f"a perturbed P(evidence) instead of {c['pe']}")
                continue
        ctx.violation(f"e2e:{q['type']}:value", rp,
                      f"the {q['type']} query prints {raw}; expected {c['want']}")
    ctx.coverage["end_to_end"] = stats
