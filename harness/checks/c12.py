"""C12 — simulation follows the same semantics and laws as the exact analysis.

proof part : props/C12.v — the Gallina transcription of Simulator.simulate/execute,
             Assignment.evaluate and the random sources (theories/Simulator.v) composed with the
             parser's desugaring (SimulatorParse.v) is Sem.run when summed over all scripts of
             random choices (simulator_transcription_is_S); enumeration sound/complete; frozen
             state; sampler descriptors GENERATED from program/distribution/*.py
             (translate_sim.py -> gen/SimSamplers.v): support and parameter theorems for all
             parameters (TruncNormal included since /repo 5c6c4c3; the old rule: truncnormal_sampler_old_rule_refuted).
tie (K)    : on every run the REAL simulator is driven by scripted random sources
             (tasks_sim.py) through every script of generated finite programs; each script's
             probability and whole state sequence is compared with the transcription executed
             by the Coq kernel on the same script (vm_compute), the number of scripts with
             Coq's own enumeration, and the merged law at every n with Sem.run.  The sampler
             descriptors are compared with the arguments the sample methods really pass.
search     : the first script whose probability or state sequence differs (replay = program
             text + script); for samplers the first parameter vector whose sampled
             mean/variance/support differs from get_moment / get_support.
validation : 1000 seeded real draws per family checked for membership in get_support();
             a subset of programs also compared with Polar's closed forms."""
import hashlib
import math
import re
from fractions import Fraction

import lib
import progast
import simgen
import translate_sim

HEADER = ("From Coq Require Import List String QArith Qcanon ZArith.\n"
          "From Polar Require Import Qcx Dist Syntax Sem Simulator SimulatorParse SimulatorK.\n"
          "Import ListNotations.\nOpen Scope string_scope.\n")

# signatures of the two defects this check found (both repaired in /repo: 5c6c4c3, f308946); they are reported under
# these stable signatures again, with the concrete input, should they return
KNOWN_TRUNCNORMAL = "TruncNormal.sample:unstandardised-bounds"
KNOWN_TAIL_GOAL = "SimulationResult._goal_to_float:non-strict-bound-decided-false-at-equality"


# ---- independent evaluator of the AST on exact rationals (frozen-suffix statistics) ----------
def ev(e, st):
    k = e[0]
    if k == "const":
        return e[1]
    if k == "var":
        return st[e[1]]
    if k == "add":
        return ev(e[1], st) + ev(e[2], st)
    if k == "sub":
        return ev(e[1], st) - ev(e[2], st)
    if k == "mul":
        return ev(e[1], st) * ev(e[2], st)
    if k == "neg":
        return -ev(e[1], st)
    if k == "pow":
        return ev(e[1], st) ** e[2]
    raise ValueError(e)


def evc(c, st):
    k = c[0]
    if k == "true":
        return True
    if k == "false":
        return False
    if k == "atom":
        a, b = ev(c[1], st), ev(c[3], st)
        return {"==": a == b, "<=": a <= b, ">=": a >= b, "<": a < b, ">": a > b}[c[2]]
    if k == "not":
        return not evc(c[1], st)
    if k == "and":
        return evc(c[1], st) and evc(c[2], st)
    return evc(c[1], st) or evc(c[2], st)


# ---- reading Coq's answers ---------------------------------------------------------------
def parse_nested(out):
    """all results `= [...] : list ...` of a case file -> python nested lists of ints"""
    res = []
    for m in re.finditer(r"=\s*(\[.*?\])\s*:\s*list", out, re.S):
        stack = [[]]
        for tok in re.finditer(r"\[|\]|-?\d+", m.group(1)):
            t = tok.group(0)
            if t == "[":
                stack.append([])
            elif t == "]":
                top = stack.pop()
                stack[-1].append(top)
            else:
                stack[-1].append(int(t))
        res.append(stack[0][0])
    return res


def take_q(lst, i):
    return Fraction(lst[i], lst[i + 1]), i + 2


def merge_law(entries):
    """entries: iterable of (prob, state tuple) -> dict state -> prob without zero entries"""
    d = {}
    for w, s in entries:
        d[s] = d.get(s, 0) + w
    return {s: w for s, w in d.items() if w != 0}


def sig_of(text):
    return hashlib.sha1(text.encode()).hexdigest()[:10]


# ---- K 1: simulator against transcription and Sem ------------------------------------------
def read_redirected(ctx, name, n):
    """results are written by Coq's `Redirect` (a case file's stdout is not read until coqc exits,
    so large answers must not go through the pipe)"""
    import os
    out = ""
    for k in range(n):
        path = os.path.join(ctx.scratch, f"{name}_r{k}.out")
        if not os.path.exists(path):
            return None
        with open(path) as f:
            out += f.read() + "\n"
    return out


def case_file(name, chunk):
    body = HEADER
    for i, c in enumerate(chunk):
        scripts = progast.lst([progast.lst([str(x) for x in p["script"]]) for p in c["paths"]])
        vars_ = progast.lst([f'"{v}"' for v in c["vars"]])
        body += f"Definition p{i} : prog := {progast.prog_coq(c['prog'])}.\n"
        body += f"Definition v{i} : list var := {vars_}.\n"
        body += f"Redirect \"{name}_r{3 * i}\" Eval vm_compute in k_scripts p{i} {c['N']} v{i} ({scripts}%nat : list (list nat)).\n"
        body += f"Redirect \"{name}_r{3 * i + 1}\" Eval vm_compute in k_sem p{i} {c['N']} v{i}.\n"
        body += f"Redirect \"{name}_r{3 * i + 2}\" Eval vm_compute in k_enum p{i} {c['N']}.\n"
    return body


def compare_program(ctx, c, coq_scripts, coq_sem, coq_enum, stats):
    """c: case dict with prog, src, vars, N, paths (from the real simulator).  Returns True if all agree."""
    nv = len(c["vars"])
    N = c["N"]
    replay_base = {"program": c["src"], "iterations": N, "variables": c["vars"], "parsed_by_polar": c.get("parsed"),
                   "ast": enc(c["prog"]), "form": "parsed" if c["src"].startswith("(parsed form") else "source",
                   "explicit_last": c.get("explicit_last", False)}
    sig = "sim:" + sig_of(c["src"])
    # (a) script by script
    if len(coq_scripts) != len(c["paths"]):
        ctx.violation(sig, dict(replay_base, stage="case file"), "Coq returned a different number of script results", no_input=True)
        return False
    # float(result) is outside the model: decide first, on the EXACT values computed by Coq, whether the program
    # stays in the domain where double arithmetic is exact for the generated expression shapes (every value a
    # dyadic rational with numerator and denominator below 2^24: products of two and small sums stay below 2^53)
    # (the hand-written close-value programs only scale by powers of two and add 1: every value is a double by construction)
    for cq in ([] if "close-values" in c.get("kinds", {}) else coq_scripts):
        if cq and cq[0] == 1:
            body = cq[4:]
            for j in range(0, len(body), 2):
                if abs(body[j]) >= 2 ** 24 or body[j + 1] >= 2 ** 24 or body[j + 1] & (body[j + 1] - 1):
                    stats["outside_lossless_float_domain"] = stats.get("outside_lossless_float_domain", 0) + 1
                    return None
    py_states = []
    for p, cq in zip(c["paths"], coq_scripts):
        prob = Fraction(p["prob"])
        states = [tuple(None if v is None or v == "nan" else Fraction(v) for v in st) for st in p["states"]]
        py_states.append((prob, states))
        what = None
        if cq[0] != 1:
            what = "the transcription cannot run this script (a random source was called a different number of times or with a different arity)"
        else:
            if cq[1] != 0:
                what = f"the transcription leaves {cq[1]} entries of the script unused (the simulator made more random calls)"
            w, i = take_q(cq, 2)
            cstates = []
            for _ in range(N + 1):
                st = []
                for _ in range(nv):
                    q, i = take_q(cq, i)
                    st.append(q)
                cstates.append(tuple(st))
            if what is None and len(states) != N + 1:
                what = f"the simulator returned {len(states)} states for {N} iterations"
            if what is None and w != prob:
                what = f"probability of the script: simulator {prob}, transcription {w}"
            if what is None:
                for n in range(N + 1):
                    if states[n] != cstates[n]:
                        what = (f"state after {n} iterations: simulator {dict(zip(c['vars'], map(str, states[n])))}, "
                                f"transcription/Sem {dict(zip(c['vars'], map(str, cstates[n])))}")
                        break
        if what is not None:
            ctx.violation(sig, dict(replay_base, script=p["script"], simulator_probability=p["prob"],
                                    simulator_states=p["states"], transcription=cq),
                          f"{what}\n  script {p['script']} of\n{c['src']}")
            return False
    # (b) no script missing / none extra
    if coq_enum[0] != len(c["paths"]) or Fraction(coq_enum[1], coq_enum[2]) != 1 or sum(p for p, _ in py_states) != 1:
        ctx.violation(sig, dict(replay_base, simulator_paths=len(c["paths"]), enumerated=coq_enum[0],
                                total_probability_simulator=str(sum(p for p, _ in py_states))),
                      f"number/total probability of scripts differ: simulator {len(c['paths'])} paths "
                      f"(mass {sum(p for p, _ in py_states)}), enumeration {coq_enum[0]} (mass {coq_enum[1]}/{coq_enum[2]}) for\n{c['src']}")
        return False
    # (c) law at every n against Sem.run
    for n in range(N + 1):
        mine = merge_law((w, st[n]) for w, st in py_states)
        flat = coq_sem[n]
        ent = []
        i = 0
        while i < len(flat):
            w, i = take_q(flat, i)
            st = []
            for _ in range(nv):
                q, i = take_q(flat, i)
                st.append(q)
            ent.append((w, tuple(st)))
        ref = merge_law(ent)
        if mine != ref:
            diff = [s for s in set(mine) | set(ref) if mine.get(s, 0) != ref.get(s, 0)]
            s = sorted(diff, key=str)[0]
            wit = next((p["script"] for p, (w, sts) in zip(c["paths"], py_states) if sts[n] == s and w != 0), None)
            ctx.violation(sig, dict(replay_base, n=n, state=dict(zip(c["vars"], map(str, s))),
                                    simulator_probability=str(mine.get(s, 0)), sem_probability=str(ref.get(s, 0)), script=wit),
                          f"law after {n} iterations differs at state {dict(zip(c['vars'], map(str, s)))}: simulator "
                          f"{mine.get(s, 0)}, Sem.run {ref.get(s, 0)} (a script reaching it: {wit}) for\n{c['src']}")
            return False
    # (d) frozen suffix, checked directly on the simulator's sequences with an evaluator of our own
    for p, (w, states) in zip(c["paths"], py_states):
        for n in range(N):
            st = dict(zip(c["vars"], states[n]))
            if not evc(c["prog"]["guard"], st):
                stats["frozen_steps"] += 1
                if states[n + 1] != states[n]:
                    ctx.violation(sig, dict(replay_base, script=p["script"], n=n, simulator_states=p["states"]),
                                  f"guard false after {n} iterations but the next state differs (script {p['script']}) for\n{c['src']}")
                    return False
        if any(not evc(c["prog"]["guard"], dict(zip(c["vars"], states[n]))) for n in range(N)):
            stats["paths_with_frozen_suffix"] += 1
    return True


def action_goals(c):
    x, y = c["vars"][0], c["vars"][-1]
    goals = [f"E({x})", f"E({x}**2)", f"E({x}*{y} + 1)", f"P({x} >= 1) <= ?", f"P({y} > 0) >= ?"]
    if len(set(c["vars"])) == 1:
        goals = goals[:2] + goals[3:]
    return goals


def k_action(ctx, cases, stats):
    """SimulationAction / SimulationResult: goals E(..), P(.. >= c), P(.. > c) averaged over two scripted samples
    (first and last script of the program) must be the average of the goal on the two end states
    (computed here on exact rationals)"""
    st = {"runs": 0, "agree": 0}
    for c in cases:
        r = c.get("action")
        if r is None:
            continue
        st["runs"] += 1
        x, y = c["vars"][0], c["vars"][-1]
        goals = c["goals"]
        p1, p2 = c["paths"][0], c["paths"][-1]
        exp = []
        for g in goals:
            vals = []
            for p in (p1, p2):
                stt = dict(zip(c["vars"], (Fraction(v) for v in p["states"][-1])))
                if g.startswith(f"E({x})"):
                    vals.append(stt[x])
                elif g.startswith(f"E({x}**2)"):
                    vals.append(stt[x] ** 2)
                elif g.startswith("E("):
                    vals.append(stt[x] * stt[y] + 1)
                elif ">=" in g.split(")")[0]:
                    vals.append(Fraction(1 if stt[x] >= 1 else 0))
                else:
                    vals.append(Fraction(1 if stt[y] > 0 else 0))
            exp.append(sum(vals) / 2)
        ctx.coverage["obligations"] += 1
        ctx.count({"action": c["src"], "s": [p1["script"], p2["script"]]})
        what = None
        sig = "action:" + sig_of(c["src"])
        if "lines" not in r:
            what = f"SimulationAction failed: {r.get('etype')}: {str(r.get('msg'))[:200]}"
        elif len(r["lines"]) != len(goals):
            what = f"SimulationAction printed {len(r['lines'])} result lines for {len(goals)} goals: {r['lines']}"
        else:
            for g, e, line in zip(goals, exp, r["lines"]):
                try:
                    v = Fraction(float(line.split(" = ")[-1]))
                except ValueError:
                    v = None
                if v != e:
                    what = f"goal {g}: --simulate prints `{line}`, the average over the two scripted samples is {e}"
                    if g.startswith("P(") and ">=" in g.split(")")[0]:
                        ends = [Fraction(p["states"][-1][0]) for p in (p1, p2)]
                        strict = sum(Fraction(1 if t > 1 else 0) for t in ends) / 2
                        if v == strict and any(t == 1 for t in ends):
                            sig = KNOWN_TAIL_GOAL        # equality with the bound counted as "not >="
                    break
        if what is None:
            st["agree"] += 1
            ctx.coverage["discharged"] += 1
        else:
            if sig == KNOWN_TAIL_GOAL:
                st["tail_goal_at_equality"] = st.get("tail_goal_at_equality", 0) + 1
            new = ctx.violation(sig, {"program": c["src"], "iterations": c["N"], "goals": goals,
                                      "scripts": [p1["script"], p2["script"]], "printed": r.get("lines"),
                                      "expected": [str(e) for e in exp]},
                                f"{what}\n  scripts {p1['script']} and {p2['script']} (number_samples=2) of\n{c['src']}")
            if not new:
                ctx.coverage["discharged"] += 1          # instance decided: known finding
    stats["simulation_action"] = st


def dec_e(t):
    k = t[0]
    if k == "const":
        return ("const", Fraction(t[1][1]))
    if k == "var":
        return ("var", t[1])
    if k == "pow":
        return ("pow", dec_e(t[1]), t[2])
    if k == "neg":
        return ("neg", dec_e(t[1]))
    return (k, dec_e(t[1]), dec_e(t[2]))


def dec_c(t):
    k = t[0]
    if k in ("true", "false"):
        return (k,)
    if k == "atom":
        return ("atom", dec_e(t[1]), t[2], dec_e(t[3]))
    if k == "not":
        return ("not", dec_c(t[1]))
    return (k, dec_c(t[1]), dec_c(t[2]))


def dec_r(t):
    if t[0] == "choice":
        return ("choice", [(dec_e(p), dec_e(e)) for p, e in t[1]])
    d = t[1]
    if d[0] == "bern":
        return ("draw", ("bern", dec_e(d[1])))
    if d[0] == "cat":
        return ("draw", ("cat", [dec_e(q) for q in d[1]]))
    return ("draw", ("unif", d[1], d[2]))


def dec_b(b):
    out = []
    for st in b:
        if st[0] == "assign":
            out.append(("assign", st[1], dec_r(st[2])))
        elif st[0] == "gassign":
            out.append(("gassign", st[1], dec_c(st[2]), st[3], dec_r(st[4])))
        elif st[0] == "simult":
            out.append(("simult", [(x, dec_r(r)) for x, r in st[1]]))
        else:
            out.append(("if", [(dec_c(c), dec_b(bb)) for c, bb in st[1]], dec_b(st[2]) if st[2] is not None else None))
    return out


def dec_prog(a):
    return {"types": [], "init": dec_b(a["init"]), "guard": dec_c(a["guard"]), "body": dec_b(a["body"])}


def k_simulator(ctx, only=None):
    nprog = ctx.pick(70, 420)
    N0 = ctx.pick(3, 4)
    cap = ctx.pick(1000, 2000)
    gens = simgen.generate(ctx.rng, nprog, size=ctx.pick(1, 2)) if only is None else only
    cases = []
    for g in gens:
        p = g["prog"]
        cases.append({"prog": p, "src": progast.prog_text(p, implicit_last=not g["explicit_last"]),
                      "vars": progast.prog_vars(p), "N": g.get("N", N0), "kinds": g["kinds"], "explicit_last": g["explicit_last"]})
    stats = {"programs": len(cases), "paths": 0, "frozen_steps": 0, "paths_with_frozen_suffix": 0,
             "programs_with_frozen_suffix": 0, "overflow_retries": 0, "dropped_overflow": 0, "worker_errors": {},
             "random_calls": {"choices": 0, "choice": 0, "bernoulli": 0}, "horizon_hist": {}, "paths_hist": {}}
    limit = ctx.pick(24, 150)
    tasks = []
    for i, c in enumerate(cases):
        t = {"kind": "sim_enum", "src": c["src"], "N": c["N"], "vars": c["vars"], "cap": cap, "timeout": 240}
        if i < limit:
            c["goals"] = action_goals(c)
            t["goals"] = c["goals"]
        tasks.append(t)
    res = yield tasks
    done = []
    for i, (c, r) in enumerate(zip(cases, res)):
        if r.get("overflow"):
            stats["dropped_overflow"] += 1
            continue
        if "error" in r:
            key = r.get("etype", r["error"])
            stats["worker_errors"][key] = stats["worker_errors"].get(key, 0) + 1
            if r["error"] == "exception":
                # the model never fails on these (initialised, finite) programs: a disagreement
                ctx.violation("sim-exception:" + sig_of(c["src"]),
                              {"program": c["src"], "iterations": c["N"], "exception": r.get("etype"), "message": r.get("msg"),
                               "where": r.get("where")},
                              f"the simulator raised {r.get('etype')}: {str(r.get('msg'))[:200]} on\n{c['src']}")
            continue
        c["paths"] = r["paths"]
        c["parsed"] = r["parsed"]
        c["N"] = r["N"]
        c["action"] = r.get("action")
        stats["overflow_retries"] += r["overflow_retries"]
        for k in stats["random_calls"]:
            stats["random_calls"][k] += r["calls"][k]
        done.append(i)
    # Coq side: several programs per file, balanced by number of paths
    order = sorted(done, key=lambda i: -len(cases[i]["paths"]))
    files, cur, load = [], [], 0
    for i in order:
        cur.append(i)
        load += len(cases[i]["paths"]) + 20
        if load > 900 or len(cur) >= 8:
            files.append(cur)
            cur, load = [], 0
    if cur:
        files.append(cur)
    outs = lib.coq_run_many(ctx, [(f"c12_sim_{j}", case_file(f"c12_sim_{j}", [cases[i] for i in f])) for j, f in enumerate(files)], timeout=600)
    kinds = {}
    agreed = 0
    for j, f in enumerate(files):
        ok, o = outs[f"c12_sim_{j}"]
        red = read_redirected(ctx, f"c12_sim_{j}", 3 * len(f)) if ok else None
        rs = parse_nested(red) if red is not None else []
        if not ok or len(rs) != 3 * len(f):
            ctx.violation("sim-casefile", {"file": f"c12_sim_{j}", "programs": [cases[i]["src"] for i in f], "log": o[-1500:]},
                          "a generated case file did not evaluate in Coq", no_input=True)
            continue
        for k, i in enumerate(f):
            c = cases[i]
            ctx.coverage["obligations"] += 1
            npaths = len(c["paths"])
            stats["paths"] += npaths
            stats["horizon_hist"][str(c["N"])] = stats["horizon_hist"].get(str(c["N"]), 0) + 1
            b = "1" if npaths == 1 else "2-9" if npaths < 10 else "10-99" if npaths < 100 else "100-999" if npaths < 1000 else "1000+"
            stats["paths_hist"][b] = stats["paths_hist"].get(b, 0) + 1
            before = stats["paths_with_frozen_suffix"]
            good = compare_program(ctx, c, rs[3 * k], rs[3 * k + 1], rs[3 * k + 2], stats)
            if good is None:
                ctx.coverage["obligations"] -= 1        # not an instance: float rounding is not modelled
                c["action"] = None
                continue
            if stats["paths_with_frozen_suffix"] > before:
                stats["programs_with_frozen_suffix"] += 1
            for kk, v in c["kinds"].items():
                kinds[kk] = kinds.get(kk, 0) + v
            ctx.count({"src": c["src"], "N": c["N"]}, nontrivial=npaths >= 2)
            ctx.coverage["evaluations"] += npaths - 1      # every script is one evaluated case
            if good:
                agreed += 1
                ctx.coverage["discharged"] += 1
                if npaths >= 4:
                    ex = next((p for p in reversed(c["paths"]) if Fraction(p["prob"]) not in (0, 1)), c["paths"][-1])
                    ctx.sample({"program": c["src"], "iterations": c["N"], "scripts": npaths,
                                "example_script": ex["script"], "probability": ex["prob"],
                                "states": ex["states"], "result": "every script and the law at every n agree"})
    stats["programs_agreeing"] = agreed
    stats["statement_kinds"] = dict(sorted(kinds.items()))
    k_action(ctx, [cases[i] for i in done], stats)
    ctx.coverage["simulator_correspondence"] = stats


# ---- K 1b: Assignment.evaluate with condition and default (programs given in the parsed form) ----
def enc(t):
    if isinstance(t, Fraction):
        return ["q", f"{t.numerator}/{t.denominator}"]
    if isinstance(t, (tuple, list)):
        return [enc(x) for x in t]
    if isinstance(t, dict):
        return {k: enc(v) for k, v in t.items()}
    return t


def pstmt_coq(st):
    if st[0] == "gassign":
        _, x, c, d, r = st
        return (f'(PAssign {{| ga_var := "{x}"; ga_cond := {progast.c_coq(c)}; ga_default := "{d}"; '
                f'ga_rhs := {progast.r_coq(r)} |}})')
    brs = "PBrNil"
    for c, b in reversed(st[1]):
        brs = f"(PBrCons {progast.c_coq(c)} {pblock_coq(b)} {brs})"
    return f"(PIf {brs} {pblock_coq(st[2]) if st[2] is not None else 'PNil'})"


def pblock_coq(b):
    t = "PNil"
    for st in reversed(b):
        t = f"(PCons {pstmt_coq(st)} {t})"
    return t


def pprog_text(p):
    def blk(b, ind):
        out = []
        for st in b:
            pad = "    " * ind
            if st[0] == "gassign":
                out.append(f"{pad}{st[1]} = {progast.r_text(st[4], implicit_last=False)}  |  {progast.c_text(st[2])}  :  {st[3]}")
            else:
                for i, (c, bb) in enumerate(st[1]):
                    out.append(f"{pad}{'if' if i == 0 else 'elif'} {progast.c_text(c)}:")
                    out += blk(bb, ind + 1)
                if st[2] is not None:
                    out.append(f"{pad}else:")
                    out += blk(st[2], ind + 1)
                out.append(f"{pad}end")
        return out
    return "\n".join(blk(p["init"], 0) + [f"while {progast.c_text(p['guard'])}:"] + blk(p["body"], 1) + ["end"]) + "\n"


def k_guarded(ctx, only=None):
    n = ctx.pick(30, 160)
    N = 3
    gens = simgen.guarded(ctx.rng, n) if only is None else only
    cases = []
    for g in gens:
        cases.append({"prog": g["prog"], "vars": g["vars"], "N": g.get("N", N), "src": "(parsed form: assignment | condition : default)\n" + pprog_text(g["prog"])})
    tasks = [{"kind": "sim_enum_parsed", "prog": {k: enc(v) for k, v in c["prog"].items()}, "N": c["N"], "vars": c["vars"],
              "cap": 2000, "timeout": 240} for c in cases]
    res = yield tasks
    stats = {"programs": len(cases), "paths": 0, "frozen_steps": 0, "paths_with_frozen_suffix": 0, "dropped_overflow": 0,
             "programs_agreeing": 0}
    done = []
    for c, r in zip(cases, res):
        if r.get("overflow"):
            stats["dropped_overflow"] += 1
            continue
        if "error" in r:
            if r["error"] == "exception":
                ctx.violation("sim-exception:" + sig_of(c["src"]), {"program": c["src"], "exception": r.get("etype"), "message": r.get("msg"),
                                                                    "where": r.get("where")},
                              f"the simulator raised {r.get('etype')}: {str(r.get('msg'))[:200]} on\n{c['src']}")
            continue
        c["paths"] = r["paths"]
        c["parsed"] = r["parsed"]
        done.append(c)
    files = [done[i:i + 8] for i in range(0, len(done), 8)]
    texts = []
    for j, f in enumerate(files):
        name = f"c12_par_{j}"
        body = HEADER
        for i, c in enumerate(f):
            p = c["prog"]
            scripts = progast.lst([progast.lst([str(x) for x in pp["script"]]) for pp in c["paths"]])
            body += (f"Definition p{i} : pprog := {{| pp_init := {pblock_coq(p['init'])}; pp_guard := {progast.c_coq(p['guard'])}; "
                     f"pp_body := {pblock_coq(p['body'])} |}}.\n")
            vars_ = progast.lst([f'"{v}"' for v in c["vars"]])
            body += f"Definition v{i} : list var := {vars_}.\n"
            body += f"Redirect \"{name}_r{3 * i}\" Eval vm_compute in k_pscripts p{i} {c['N']} v{i} ({scripts}%nat : list (list nat)).\n"
            body += f"Redirect \"{name}_r{3 * i + 1}\" Eval vm_compute in k_psem p{i} {c['N']} v{i}.\n"
            body += f"Redirect \"{name}_r{3 * i + 2}\" Eval vm_compute in k_penum p{i} {c['N']}.\n"
        texts.append((name, body))
    outs = lib.coq_run_many(ctx, texts, timeout=600)
    for j, f in enumerate(files):
        name = f"c12_par_{j}"
        ok, o = outs[name]
        red = read_redirected(ctx, name, 3 * len(f)) if ok else None
        rs = parse_nested(red) if red is not None else []
        if len(rs) != 3 * len(f):
            ctx.violation("sim-casefile", {"file": name, "programs": [c["src"] for c in f], "log": o[-1500:]},
                          "a generated case file did not evaluate in Coq", no_input=True)
            continue
        for k, c in enumerate(f):
            ctx.coverage["obligations"] += 1
            stats["paths"] += len(c["paths"])
            ctx.count({"src": c["src"], "N": c["N"]}, nontrivial=len(c["paths"]) >= 2)
            ctx.coverage["evaluations"] += len(c["paths"]) - 1
            good = compare_program(ctx, c, rs[3 * k], rs[3 * k + 1], rs[3 * k + 2], stats)
            if good is None:
                ctx.coverage["obligations"] -= 1
            elif good:
                stats["programs_agreeing"] += 1
                ctx.coverage["discharged"] += 1
    ctx.coverage["guarded_assignment_correspondence"] = stats


# ---- K 2: samplers ---------------------------------------------------------------------------
def sampler_cases(ctx):
    r = ctx.rng
    n = ctx.pick(3, 14)
    dy = [Fraction(1, 2), Fraction(1, 4), Fraction(3, 4), Fraction(1, 8), Fraction(5, 8)]
    sq = [Fraction(1), Fraction(4), Fraction(9, 4), Fraction(1, 4), Fraction(9), Fraction(25, 16)]
    pw = [Fraction(1, 2), Fraction(1), Fraction(2), Fraction(4), Fraction(1, 4), Fraction(8)]
    small = [Fraction(x, 2) for x in range(-6, 7)]
    pos = [Fraction(x, 2) for x in range(1, 9)]
    cases = []
    for _ in range(n):
        cases.append(("Bernoulli", [r.choice(dy)]))
        a = r.choice(small)
        cases.append(("Uniform", [a, a + r.choice(pos)]))
        cases.append(("DistExp", [r.choice(pw)]))
        cases.append(("Gamma", [r.choice(pos), r.choice(pos)]))
        cases.append(("Beta", [r.choice(pos), r.choice(pos)]))
        cases.append(("Beta", [r.choice(pos), r.choice(pos), r.choice(pos)]))
        cases.append(("Normal", [r.choice(small), r.choice(sq)]))
        cases.append(("Laplace", [r.choice(small), r.choice(pos)]))
        k = r.choice([2, 3, 4])
        cases.append(("Categorical", simgen.prob_vector(r, k)))
        lo = r.randint(-3, 3)
        cases.append(("DiscreteUniform", [Fraction(lo), Fraction(lo + r.randint(0, 4))]))
        mu = r.choice(small)
        a = mu + r.choice([Fraction(-1), Fraction(1, 2), Fraction(2), Fraction(-3)])
        cases.append(("TruncNormal", [mu, r.choice(sq), a, a + r.choice(pos)]))
    # the hand-confirmed witness of the known defect
    cases.append(("TruncNormal", [Fraction(10), Fraction(1), Fraction(9), Fraction(11)]))
    return cases


PREFIX = {"Bernoulli": "bernoulli", "Uniform": "uniform", "DistExp": "exponential", "Gamma": "gamma", "Beta": "beta",
          "Normal": "normal", "Laplace": "laplace", "Categorical": "categorical", "DiscreteUniform": "discreteuniform",
          "TruncNormal": "truncnormal"}
ATTRS = {"Bernoulli": ["p"], "Uniform": ["a", "b"], "DistExp": ["lamb"], "Gamma": ["k", "theta"],
         "Beta": ["a", "b", "scale"], "Normal": ["mu", "sigma2"], "Laplace": ["mu", "b"],
         "TruncNormal": ["mu", "sigma2", "a", "b"]}


def qsqrt(x):
    x = Fraction(x)
    n, d = math.isqrt(x.numerator), math.isqrt(x.denominator)
    if x < 0 or n * n != x.numerator or d * d != x.denominator:
        raise ValueError(f"sqrt of non-square {x}")
    return Fraction(n, d)


def xev(e, env):
    if e is None:
        return None
    k = e[0]
    if k == "param":
        return env[e[1]]
    if k == "const":
        return Fraction(e[1])
    if k == "sqrt":
        return qsqrt(xev(e[1], env))
    a, b = xev(e[1], env), xev(e[2], env)
    return {"add": a + b, "sub": a - b, "mul": a * b, "div": a / b if b != 0 else None}[k]


# python copy of the table in SimulatorSamplerBase.v (std_supp / std_mean_var), used ONLY to turn a
# proof failure into a concrete parameter vector
def std_table(fam, shape):
    if fam == "bernoulli":
        p = shape[0]
        return (p, p * (1 - p)), (Fraction(0), Fraction(1))
    if fam == "norm":
        return (Fraction(0), Fraction(1)), (None, None)
    if fam == "laplace":
        return (Fraction(0), Fraction(2)), (None, None)
    if fam == "expon":
        return (Fraction(1), Fraction(1)), (Fraction(0), None)
    if fam == "gamma":
        return (shape[0], shape[0]), (Fraction(0), None)
    if fam == "beta":
        a, b = shape
        return (a / (a + b), a * b / ((a + b) ** 2 * (a + b + 1))), (Fraction(0), Fraction(1))
    if fam == "uniform":
        return (Fraction(1, 2), Fraction(1, 12)), (Fraction(0), Fraction(1))
    if fam == "truncnorm":
        return None, (shape[0], shape[1])
    raise ValueError(fam)


def interval_in_support(lo, hi, items):
    """[lo, hi] (None = infinite) inside one declared interval"""
    for it in items:
        if it[0] != "interval":
            continue
        lo_ok = it[1] == "-oo" or (lo is not None and it[1] != "oo" and Fraction(it[1]) <= lo)
        hi_ok = it[2] == "oo" or (hi is not None and it[2] != "-oo" and hi <= Fraction(it[2]))
        if lo_ok and hi_ok:
            return True
    return False


def same_number(recorded, exact):
    """a float the code computed against the exact rational the descriptor denotes: equal as rationals,
    or (non-dyadic results of a division / square root) equal up to 1e-12 relative"""
    if recorded is None or exact is None:
        return recorded is None and exact is None
    recorded, exact = Fraction(recorded), Fraction(exact)
    return recorded == exact or abs(recorded - exact) <= Fraction(1, 10 ** 12) * max(1, abs(exact))


def k_samplers(ctx, desc, proof_ok=True):
    cases = sampler_cases(ctx)
    tcases = [{"dist": d, "params": [str(p) for p in ps]} for d, ps in cases]
    chunks = [tcases[i::4] for i in range(4)]
    idx = [list(range(len(tcases)))[i::4] for i in range(4)]
    both = yield ([{"kind": "sim_sampler_args", "cases": ch, "timeout": 240} for ch in chunks] +
                  [{"kind": "sim_draws", "cases": ch, "n": 1000, "seed": 12345 + 1000 * j, "timeout": 240}
                   for j, ch in enumerate(chunks)])
    args_res, draws_res = both[:len(chunks)], both[len(chunks):]
    rec = [None] * len(tcases)
    drw = [None] * len(tcases)
    for ch_i, (ra, rd) in enumerate(zip(args_res, draws_res)):
        for k, gi in enumerate(idx[ch_i]):
            rec[gi] = ra["results"][k] if "results" in ra else {"error": ra.get("error")}
            drw[gi] = rd["results"][k] if "results" in rd else {"error": rd.get("error")}
    st = {"cases": len(cases), "descriptor_agrees": 0, "params_agree": 0, "support_inside": 0, "draws": 0, "draws_outside": {},
          "per_family": {}, "errors": 0}
    coq_rows = []
    for (dist, ps), r, d in zip(cases, rec, drw):
        fam = PREFIX[dist]
        st["per_family"][dist] = st["per_family"].get(dist, 0) + 1
        ctx.count({"dist": dist, "params": [str(p) for p in ps]})
        label = f"{dist}({', '.join(str(p) for p in ps)})"
        if r is None or "error" in r or d is None or "error" in d:
            st["errors"] += 1
            ctx.violation(f"sampler-error:{dist}", {"distribution": label, "args": r, "draws": d},
                          f"{label}: sample() / get_support() raised", no_input=False)
            continue
        calls = r["calls"]
        ctx.coverage["obligations"] += 3
        # -- 1. descriptor = what the code really passes --------------------------------
        has_desc = desc is not None and "sample" in desc.get(fam, {})
        ok_desc = has_desc and len(calls) == 1
        expected = None
        if ok_desc:
            dsc = desc[fam]["sample"]
            call = calls[0]
            if dsc[0] == "scipy":
                attrs = ATTRS[dist]
                env = dict(zip(attrs, ps))
                if dist == "Beta" and len(ps) == 2:
                    env["scale"] = Fraction(1)
                try:
                    expected = {"family": dsc[1], "args": [xev(s, env) for s in dsc[2]], "loc": xev(dsc[3], env),
                                "scale": xev(dsc[4], env), "post": xev(dsc[5], env)}
                except ValueError:
                    expected = None
                if expected is None:
                    ok_desc = False
                else:
                    got_kw = {k: Fraction(v) for k, v in call.get("kwargs", {}).items()}
                    got_args = [Fraction(a) for a in call.get("args", [])]
                    ok_desc = (call["family"] == expected["family"] and len(got_args) == len(expected["args"])
                               and all(same_number(g, e) for g, e in zip(got_args, expected["args"]))
                               and same_number(got_kw.get("loc"), expected["loc"])
                               and same_number(got_kw.get("scale"), expected["scale"])
                               and set(got_kw) <= {"loc", "scale"})
                    post = expected["post"] if expected["post"] is not None else Fraction(1)
                    try:
                        ok_desc = ok_desc and same_number(Fraction(r["returned"]), post * Fraction(1, 2))
                    except Exception:
                        ok_desc = False
            elif dsc[0] == "choices_range":
                ok_desc = (call["family"] == "random.choices" and call["k"] == 1
                           and [Fraction(x) for x in call["weights"]] == list(ps)
                           and [Fraction(x) for x in call["population"]] == [Fraction(i) for i in range(len(ps))])
            else:
                ok_desc = (call["family"] == "random.choice"
                           and [Fraction(x) for x in call["population"]] == [Fraction(i) for i in range(int(ps[0]), int(ps[1]) + 1)])
        if ok_desc:
            st["descriptor_agrees"] += 1
            ctx.coverage["discharged"] += 1
        elif not has_desc:
            st["untranslated"] = st.get("untranslated", 0) + 1      # reported once, below; the call itself is still checked
        else:
            ctx.violation(f"descriptor-mismatch:{dist}", {"distribution": label, "recorded_call": calls,
                                                          "descriptor": None if desc is None else desc[fam]["sample"],
                                                          "expected": None if expected is None else {k: str(v) for k, v in expected.items()}},
                          f"{label}.sample({{}}) called its random source as {calls}, the generated descriptor says "
                          f"{None if desc is None else desc[fam]['sample']}", no_input=False)
        # -- 2./3. what the recorded call means (std table) vs get_moment / get_support -----
        call = calls[0] if calls else None
        if call is not None and call["family"] in translate_sim_scipy():
            if ok_desc and expected is not None:
                # the call agrees with the descriptor: use the exact values the descriptor denotes
                shape = expected["args"]
                loc = expected["loc"] if expected["loc"] is not None else Fraction(0)
                scale = expected["scale"] if expected["scale"] is not None else Fraction(1)
                post = expected["post"] if expected["post"] is not None else Fraction(1)
            else:
                shape = [Fraction(a) for a in call.get("args", [])]
                kw = {k: Fraction(v) for k, v in call.get("kwargs", {}).items()}
                loc, scale = kw.get("loc", Fraction(0)), kw.get("scale", Fraction(1))
                try:
                    post = Fraction(r["returned"]) / Fraction(1, 2)
                except Exception:
                    post = Fraction(1)
            mv, (lo, hi) = std_table(call["family"], shape)
            s_lo = None if lo is None else post * (loc + scale * lo)
            s_hi = None if hi is None else post * (loc + scale * hi)
            if scale * post < 0:
                s_lo, s_hi = s_hi, s_lo
            inside = interval_in_support(s_lo, s_hi, r["support"]) or (
                call["family"] == "bernoulli" and all(any(it[0] == "point" and Fraction(it[1]) == v for it in r["support"]) for v in (s_lo, s_hi)))
            if inside:
                st["support_inside"] += 1
                ctx.coverage["discharged"] += 1
            else:
                sig = KNOWN_TRUNCNORMAL if dist == "TruncNormal" else f"sampler-support:{dist}"
                new = ctx.violation(sig, {"distribution": label, "recorded_call": call, "sampled_support": [str(s_lo), str(s_hi)],
                                          "get_support": r["support"], "seeded_draws": d},
                                    f"{label}: the call {call['family']}.rvs{tuple(call.get('args', []))} {call.get('kwargs')} samples "
                                    f"[{s_lo}, {s_hi}], get_support() = {r['support']}")
                if not new:
                    ctx.coverage["discharged"] += 1
            if mv is not None and r.get("m1") is not None and r.get("m2") is not None:
                mean = post * (loc + scale * mv[0])
                var = post * post * scale * scale * mv[1]
                m1, m2 = Fraction(r["m1"]), Fraction(r["m2"])
                if mean == m1 and var == m2 - m1 * m1:
                    st["params_agree"] += 1
                    ctx.coverage["discharged"] += 1
                    env = dict(zip(ATTRS[dist], ps))
                    if dist == "Beta" and len(ps) == 2:
                        env["scale"] = Fraction(1)
                    coq_rows.append((fam, env, m1, m2 - m1 * m1, label))
                else:
                    ctx.violation(f"sampler-params:{dist}", {"distribution": label, "recorded_call": call,
                                                             "sampled_mean": str(mean), "sampled_variance": str(var),
                                                             "get_moment_1": r["m1"], "get_moment_2": r["m2"]},
                                  f"{label}: sample() draws a law with mean {mean}, variance {var}; get_moment gives mean {m1}, "
                                  f"variance {m2 - m1 * m1}")
            else:
                ctx.coverage["obligations"] -= 1       # TruncNormal moments are floats by Polar's own disclaimer
        else:
            # random.choices / random.choice: support and law are the finite lists themselves
            if call is not None:
                pop = [Fraction(x) for x in call["population"]]
                if all(any(it[0] == "point" and Fraction(it[1]) == v for it in r["support"]) for v in pop):
                    st["support_inside"] += 1
                    ctx.coverage["discharged"] += 1
                else:
                    ctx.violation(f"sampler-support:{dist}", {"distribution": label, "population": call["population"], "get_support": r["support"]},
                                  f"{label}: population {call['population']} not inside get_support() {r['support']}")
                w = [Fraction(x) for x in call.get("weights", [1] * len(pop))]
                tot = sum(w)
                mean = sum(wi / tot * v for wi, v in zip(w, pop))
                m2s = sum(wi / tot * v * v for wi, v in zip(w, pop))
                if r.get("m1") is not None and Fraction(r["m1"]) == mean and Fraction(r["m2"]) == m2s:
                    st["params_agree"] += 1
                    ctx.coverage["discharged"] += 1
                else:
                    ctx.violation(f"sampler-params:{dist}", {"distribution": label, "recorded_call": call, "get_moment_1": r.get("m1"),
                                                             "get_moment_2": r.get("m2")},
                                  f"{label}: sample() draws mean {mean}, second moment {m2s}; get_moment gives {r.get('m1')}, {r.get('m2')}")
        # -- 4. validation: 1000 seeded real draws ------------------------------------------
        st["draws"] += 1000
        if d["outside"]:
            st["draws_outside"][dist] = st["draws_outside"].get(dist, 0) + d["outside"]
            sig = KNOWN_TRUNCNORMAL if dist == "TruncNormal" else f"draw-outside-support:{dist}"
            ctx.violation(sig, {"distribution": label, "seeded_draws": d},
                          f"{label}: {d['outside']} of 1000 seeded draws outside get_support() {d['support']}, first {d['first']}")
    # the Coq table polar_mean_var (the specification used by the *_sampler_params theorems) = get_moment
    if coq_rows and proof_ok:      # (needs SimulatorSamplers.vo, i.e. the sampler theorems must check)
        body = ("From Coq Require Import List String QArith Qcanon ZArith.\nFrom Polar Require Import Qcx SimulatorSamplerBase SimulatorSamplers.\n"
                "Import ListNotations.\nOpen Scope string_scope.\n"
                "Definition mk (l : list (string * Qc)) (x : string) : Qc := match find (fun p => String.eqb (fst p) x) l with Some p => snd p | None => 0%Qc end.\n"
                "Definition row (f : string) (l : list (string * Qc)) : list Z := let mv := polar_mean_var f (mk l) in [qnum (fst mv); Zpos (qden (fst mv)); qnum (snd mv); Zpos (qden (snd mv))].\n")
        rows = []
        for fam, env, m, v, _ in coq_rows:
            rows.append(f'row "{fam}" ' + progast.lst([f'("{k}", {progast.q_coq(x)})' for k, x in env.items()]))
        body += "Eval vm_compute in " + progast.lst(rows) + ".\n"
        ok, o = lib.coq_run(ctx, "c12_polar_mean_var", body)
        rs = parse_nested(o) if ok else []
        good = 0
        if ok and rs and len(rs[0]) == len(coq_rows):
            for (fam, env, m, v, label), row in zip(coq_rows, rs[0]):
                ctx.coverage["obligations"] += 1
                if Fraction(row[0], row[1]) == m and Fraction(row[2], row[3]) == v:
                    good += 1
                    ctx.coverage["discharged"] += 1
                else:
                    ctx.violation(f"spec-table:{fam}", {"distribution": label, "coq_mean_var": [str(Fraction(row[0], row[1])), str(Fraction(row[2], row[3]))],
                                                        "get_moment_mean_var": [str(m), str(v)]},
                                  f"{label}: polar_mean_var (Coq specification) differs from get_moment")
        else:
            ctx.violation("spec-table-casefile", {"log": o[-1500:]}, "polar_mean_var case file did not evaluate", no_input=True)
        st["spec_table_rows_agreeing"] = good
    ctx.coverage["sampler_correspondence"] = st


def translate_sim_scipy():
    return {"bernoulli", "norm", "laplace", "expon", "gamma", "beta", "uniform", "truncnorm"}


# ---- K 3: the simulator's law against what the analysis computes (validation) ---------------
def mono_value(m, st):
    v = Fraction(1)
    for x, k in m.items():
        v *= st[x] ** k
    return v


def mono_str(m):
    return "*".join(x if k == 1 else f"{x}**{k}" for x, k in sorted(m.items()))


def k_analysis(ctx):
    n = ctx.pick(8, 40)
    N = 3
    progs = simgen.analysable(ctx.rng, n)
    monos = [{"x": 1}, {"y": 1}, {"x": 2}, {"x": 1, "y": 1}, {"c": 1}]
    tasks = []
    for g in progs:
        src = progast.prog_text(g["prog"])
        g["src"] = src
        g["vars"] = progast.prog_vars(g["prog"])
        tasks.append({"kind": "sim_enum", "src": src, "N": N, "vars": g["vars"], "cap": 4000, "timeout": 120})
        tasks.append({"kind": "sim_analysis", "src": src, "monomials": [mono_str(m) for m in monos], "N": N, "timeout": 120})
    res = yield tasks
    st = {"programs": len(progs), "compared_moments": 0, "agree": 0, "analysis_refused": {}, "skipped": 0}
    for i, g in enumerate(progs):
        sim, ana = res[2 * i], res[2 * i + 1]
        if "paths" not in sim:
            st["skipped"] += 1
            continue
        if "values" not in ana:
            key = ana.get("etype", ana.get("error", "?"))
            st["analysis_refused"][key] = st["analysis_refused"].get(key, 0) + 1
            continue
        ctx.count({"analysis": g["src"]})
        for m in monos:
            vals = ana["values"][mono_str(m)]
            for k in range(N + 1):
                if vals[k].startswith("~"):
                    continue
                e = Fraction(0)
                for p in sim["paths"]:
                    stt = dict(zip(g["vars"], (Fraction(v) for v in p["states"][k])))
                    e += Fraction(p["prob"]) * mono_value(m, stt)
                st["compared_moments"] += 1
                ctx.coverage["obligations"] += 1
                if e == Fraction(vals[k]):
                    st["agree"] += 1
                    ctx.coverage["discharged"] += 1
                else:
                    ctx.violation("analysis-vs-simulator:" + sig_of(g["src"]) + ":" + mono_str(m),
                                  {"program": g["src"], "monomial": mono_str(m), "n": k, "closed_form_value": vals[k],
                                   "simulator_law_moment": str(e), "paths": len(sim["paths"])},
                                  f"E({mono_str(m)}) after {k} iterations: Polar's closed form gives {vals[k]}, the exact law of the "
                                  f"simulator gives {e}, for\n{g['src']}")
                    break
    ctx.coverage["analysis_vs_simulator"] = st


def drive(ctx, campaigns):
    """every campaign is a generator: it yields the worker tasks it needs, receives their results and then does
    its Coq evaluations and comparisons.  All tasks go through ONE pool of Polar workers."""
    phases = {}
    t0 = ctx.elapsed()
    lists = [(name, g, next(g)) for name, g in campaigns]
    alltasks = [t for _, _, ts in lists for t in ts]
    results = lib.run_tasks(alltasks, timeout=240) if alltasks else []
    phases["polar_workers"] = round(ctx.elapsed() - t0, 1)
    pos = 0
    for name, g, ts in lists:
        t0 = ctx.elapsed()
        try:
            g.send(results[pos:pos + len(ts)])
        except StopIteration:
            pass
        pos += len(ts)
        phases[name] = round(ctx.elapsed() - t0, 1)
    return phases


def run(ctx):
    # T: sampler descriptors from the working tree
    desc = translate_sim.main()
    trans_err = {k: v["error"] for k, v in desc.items() if "error" in v}
    ok, log = lib.coq_check_props(ctx)
    if not ok:
        # keep the executable part available for the search below
        lib.coq_make(["theories/SimulatorK.vo"], timeout=600)
    ctx.coverage["trusted_base"] += [
        "theories/SimulatorSamplerBase.v: table of scipy.stats standard families (support, mean, variance; loc/scale convention)",
        "harness/translate_sim.py (Python ast -> descriptor; fail-closed) — cross-checked on every run against the recorded rvs arguments",
        "harness/tasks_sim.py scripted replacements of random.choices / random.choice / scipy.stats.bernoulli.rvs (index conventions shared with sim_sample)",
        "harness/progast.py printers (program text for Polar, Coq term for Sem) — a printer slip shows up as a disagreement, never as agreement",
        "generated case files evaluated by vm_compute in the kernel (no extraction)",
    ]
    ctx.assumptions += [
        "states are total maps to Q: programs are initialised (reading an unset variable raises in the simulator); generators initialise every variable",
        "float(result) in Assignment.evaluate is not modelled: generated programs use integer/dyadic constants, values are compared as exact Fraction(float)",
        "wf_prog: the source program does not use names _t<digits...> (reserved for the parser's temporaries) and every probabilistic choice has total weight 1 "
        "(true for the implicit last probability: C12_implicit_last_probability_has_unit_mass; constant explicit vectors are validated by "
        "PolyAssignment since /repo 626892e; since 156ba8a get_unique_var skips names of the program text — under wf_prog nothing is skipped)",
        "that scipy.stats / random sample their documented laws is trusted (seeded draws are validation only)",
        "settings.transform_categoricals = False (default); the categorical-expansion option is C17's",
    ]
    if ctx.replay:
        # ./check C12 --replay replays/C12/<hash>.json : re-run the recorded program through every script
        import json
        with open(ctx.replay) as f:
            rp = json.load(f)
        if "ast" in rp:
            prog = dec_prog(rp["ast"])
            if rp.get("form") == "parsed":
                drive(ctx, [("guarded", k_guarded(ctx, only=[{"prog": prog, "vars": rp["variables"], "N": rp["iterations"]}]))])
            else:
                drive(ctx, [("simulator", k_simulator(ctx, only=[{"prog": prog, "kinds": {}, "N": rp["iterations"],
                                                                   "explicit_last": rp.get("explicit_last", False)}]))])
            ctx.coverage["rule"] = f"replay of {ctx.replay}"
            return
        print("  replay file has no program; running the whole check", flush=True)
    before = len(ctx.violations) + len(ctx.known_hits)
    phases = {"translate+coq_build": round(ctx.elapsed(), 1)}
    phases.update(drive(ctx, [("simulator", k_simulator(ctx)), ("guarded", k_guarded(ctx)),
                              ("samplers", k_samplers(ctx, desc, ok)), ("analysis", k_analysis(ctx))]))
    ctx.coverage["phase_seconds"] = phases
    found = len(ctx.violations) + len(ctx.known_hits) - before
    if trans_err and not ctx.violations:
        ctx.violation("translator-unsupported", {"errors": trans_err},
                      f"a sample/get_support method left the translated subset: {trans_err}", no_input=True)
    if not ok and not ctx.violations:
        ctx.violation("proof-broken", {"theorem": "props/C12.v", "log": log[-3000:]},
                      "props/C12.v no longer checks and no failing input was found by the correspondence runs", no_input=True)
    elif not ok:
        print("  (props/C12.v no longer checks; the failing inputs above were found by the search)", flush=True)
    sc = ctx.coverage.get("simulator_correspondence", {})
    ctx.coverage["rule"] = (
        "programs from harness/simgen.py (finite discrete; nested if/elif/else, 2-4 way choices incl. state-dependent "
        "probabilities, Bernoulli/Categorical/DiscreteUniform, simultaneous assignments, guards that fail); every script of the "
        f"real simulator to n <= {ctx.pick(3, 4)} (cap {ctx.pick(1000, 2000)} paths, horizon lowered on overflow) is one evaluation; "
        "non-trivial = program with >= 2 scripts; distinct by (text, horizon); sampler cases distinct by (family, parameters); "
        "input distribution in coverage.simulator_correspondence (statement_kinds, paths_hist, frozen suffix counts)")
