"""C13 — Sin/Cos/Exp moments of random variables are the true expectations.

proof  : props/C13.v over the GENERATED gen/FuncGen.v (translate_func.py: get_func_moment,
         get_trig_moment, get_exp_moment, convert_func_moment, get_const_moment, cf/mgf of Bernoulli
         and DiscreteUniform) and gen/DistGen.v (mgf_exists_at of every family): product-to-sum for
         all (b, c); trig / exp moments of ALL finite integer-supported laws for all (a, b, c) in
         every commutative ring with exp(i m); dispatch model; existence domains; constants.
K      : on every run the REAL FunctionalAssignment.get_func_moment is called for every family,
         sampled parameters and exponent triples (exact and rounding mode) and compared with an
         INDEPENDENT oracle: the defining finite sum (discrete families) / mpmath quadrature of the
         defining integral over the support (continuous families) at 40 digits; whole programs with
         Sin/Cos/Exp assignments of draws and constants: Polar's closed forms at n <= N against the
         expectation computed in the harness (enumeration of discrete draws, quadrature of the
         continuous draw, exact moment recursion for accumulators); the translated dispatch is run
         by the Coq kernel on the requests the real get_func_moment is probed with.
known  : get_func_moment tests `"Expt" in func_powers` (typo): a mixed Sin/Cos+Exp request is answered
         by the trig branch, which ignores the exponential factor (DESIGN section 6 #5)."""
import json
import math
import os
from fractions import Fraction

import lib

DPS = 40
EXACT_TOL = "1e-25"
ROUND_TOL = "2e-19"
ORACLE_ERR_MAX = "1e-30"
KNOWN_SIG = "get_func_moment:Expt-typo:mixed-exp-trig"
KNOWN_BETA = "get_trig_moment:Beta:cf-piecewise:frequency-0-derivative-dropped"
KNOWN_DECIMAL = "FunctionalAssignment:decimal-literal-argument:float-arithmetic"


def zero_freq_coefficient(b, c):
    """coefficient K(-1)^(b/2)/2^(b+c) of E[X^a] contributed by the frequency-0 terms of the product-to-sum
    expansion of sin^b cos^c (the constant term of sin^b x cos^c x); 0 unless b and c are even"""
    if (b + c) % 2 or b % 2:
        return Fraction(0)
    K = sum(math.comb(c, k1) * math.comb(b, k2) * (-1) ** (b - k2)
            for k1 in range(c + 1) for k2 in range(b + 1) if 2 * (k1 + k2) == b + c)
    return Fraction(K * (-1) ** (b // 2), 2 ** (b + c))


# =====================================================================================
# independent oracle (mpmath; runs in the harness process / a pool of harness processes)
# =====================================================================================
def _mp():
    import mpmath as mp
    mp.mp.dps = DPS
    return mp


def _q(mp, s):
    f = Fraction(s)
    return mp.mpf(f.numerator) / mp.mpf(f.denominator)


def discrete_law(family, params):
    """-> list of (Fraction prob, int value) or None"""
    ps = [Fraction(p) for p in params]
    if family == "Bernoulli":
        return [(1 - ps[0], 0), (ps[0], 1)]
    if family == "DiscreteUniform":
        a, b = int(ps[0]), int(ps[1])
        n = b - a + 1
        return [(Fraction(1, n), v) for v in range(a, b + 1)]
    if family == "Categorical":
        return [(p, i) for i, p in enumerate(ps)]
    return None


def integrator(family, params):
    """continuous families: -> function integrate(g) = (int g(x) pdf(x) dx, error estimate),
    by tanh-sinh quadrature over the support; algebraic endpoint singularities of the Gamma/Beta
    densities are removed by the substitution x = u^q (shape = p/q)."""
    mp = _mp()
    ps = [Fraction(p) for p in params]
    P = [_q(mp, p) for p in params]

    def quad(f, pts):
        v, err = mp.quad(f, pts, error=True, maxdegree=10)
        return v, err

    if family == "Normal":
        mu, s2 = P
        sd = mp.sqrt(s2)
        c = 1 / (sd * mp.sqrt(2 * mp.pi))
        pts = [-mp.inf] + [mu + k * sd for k in (-16, -8, -4, -2, 0, 2, 4, 8, 16, 24)] + [mp.inf]
        return lambda g: quad(lambda x: g(x) * c * mp.exp(-(x - mu) ** 2 / (2 * s2)), pts)
    if family == "Uniform":
        a, b = P
        n = max(1, int(math.ceil(float(b - a) / 2)))
        pts = [a + (b - a) * mp.mpf(i) / n for i in range(n + 1)]
        return lambda g: quad(lambda x: g(x) / (b - a), pts)
    if family == "Laplace":
        mu, b = P
        pts = [-mp.inf, mu - 40 * b, mu - 10 * b, mu - 3 * b, mu, mu + 3 * b, mu + 10 * b, mu + 40 * b, mp.inf]
        return lambda g: quad(lambda x: g(x) * mp.exp(-abs(x - mu) / b) / (2 * b), pts)
    if family == "DistExp":
        lam = P[0]
        pts = [0, 2 / lam, 8 / lam, 30 / lam, 120 / lam, mp.inf]
        return lambda g: quad(lambda x: g(x) * lam * mp.exp(-lam * x), pts)
    if family == "Gamma":
        k, th = P
        kf = ps[0]
        p_, q_ = kf.numerator, kf.denominator
        norm = 1 / (mp.gamma(k) * th ** k)
        scale = th * max(k, 1)
        if q_ == 1:
            pts = [0, scale, 4 * scale, 16 * scale, 64 * scale, mp.inf]
            return lambda g: quad(lambda x: g(x) * norm * x ** (k - 1) * mp.exp(-x / th), pts)
        # x = u^q: x^(k-1) dx = q u^(p-1) du
        upts = [0] + [(s * scale) ** (mp.mpf(1) / q_) for s in (1, 4, 16, 64)] + [mp.inf]
        return lambda g: quad(lambda u: g(u ** q_) * norm * q_ * u ** (p_ - 1) * mp.exp(-u ** q_ / th), upts)
    if family == "Beta":
        a, b = P[0], P[1]
        sc = P[2] if len(P) == 3 else mp.mpf(1)
        af, bf = ps[0], ps[1]
        norm = 1 / mp.beta(a, b)
        qa, pa = af.denominator, af.numerator
        qb, pb = bf.denominator, bf.numerator
        half = mp.mpf(1) / 2

        def integ(g):
            # left half: x = u^qa ; right half: 1 - x = w^qb
            l, e1 = quad(lambda u: g(sc * u ** qa) * norm * qa * u ** (pa - 1) * (1 - u ** qa) ** (b - 1),
                         [0, half ** (mp.mpf(1) / qa)])
            r, e2 = quad(lambda w: g(sc * (1 - w ** qb)) * norm * qb * w ** (pb - 1) * (1 - w ** qb) ** (a - 1),
                         [0, half ** (mp.mpf(1) / qb)])
            return l + r, e1 + e2
        return integ
    if family == "TruncNormal":
        mu, s2, a, b = P
        sd = mp.sqrt(s2)
        z = mp.ncdf((b - mu) / sd) - mp.ncdf((a - mu) / sd)
        c = 1 / (sd * mp.sqrt(2 * mp.pi) * z)
        n = max(1, int(math.ceil(float(b - a) / 2)))
        pts = [a + (b - a) * mp.mpf(i) / n for i in range(n + 1)]
        return lambda g: quad(lambda x: g(x) * c * mp.exp(-(x - mu) ** 2 / (2 * s2)), pts)
    raise ValueError(f"no oracle for {family}")


def expectation(family, params):
    """-> E(g) = (value, error estimate) for g : mpf -> mpf"""
    mp = _mp()
    dl = discrete_law(family, params)
    if dl is not None:
        def E(g):
            return mp.fsum(_q(mp, p) * g(mp.mpf(v)) for p, v in dl), mp.mpf(0)
        return E
    return integrator(family, params)


def true_domain(family, params, c):
    """does E[exp(c X)] exist (textbook domains of the mgf)"""
    ps = [Fraction(p) for p in params]
    if family == "DistExp":
        return c < ps[0]
    if family == "Gamma":
        return c < 1 / ps[1]
    if family == "Laplace":
        return abs(c) < 1 / ps[1]
    return True


def oracle_moment(job):
    """job: family, params, powers {Id, Sin, Cos, Exp} -> {'value','err'} (strings) or {'diverges': True}"""
    mp = _mp()
    pw = job["powers"]
    a, b, c, d = (int(pw.get(k, 0)) for k in ("Id", "Sin", "Cos", "Exp"))
    if d and not true_domain(job["family"], job["params"], d):
        return {"diverges": True}
    E = expectation(job["family"], job["params"])

    def g(x):
        r = x ** a if a else mp.mpf(1)
        if b:
            r *= mp.sin(x) ** b
        if c:
            r *= mp.cos(x) ** c
        if d:
            r *= mp.exp(d * x)
        return r
    v, err = E(g)
    return {"value": mp.nstr(v, 45), "err": mp.nstr(err, 5)}


# ---- programs ---------------------------------------------------------------------------
# program: {"init": {var: frac-str}, "body": [stmt]}; stmt:
#   ["draw", x, family, [params]]            ["func", y, F, arg]   (arg: variable name or frac-str constant)
#   ["poly", v, [[coef, {var: pow}], ...]]   ["if", cvar, cval, [stmts], [stmts]]
# at most one accumulator: a poly assignment to s that mentions s (affine in s), placed after all locals.
def prog_text(prog):
    lines = [f"{v} = {val}" for v, val in prog["init"].items()]
    lines.append("while true:")

    def poly_str(p):
        ts = []
        for coef, mon in p:
            fs = [f"({coef})"] + [f"{v}**{k}" if k != 1 else v for v, k in mon.items()]
            ts.append("*".join(fs))
        return " + ".join(ts) if ts else "0"

    def emit(ss, ind):
        pad = "    " * ind
        for s in ss:
            if s[0] == "draw":
                lines.append(f"{pad}{s[1]} = {s[2]}({', '.join(s[3])})")
            elif s[0] == "func":
                lines.append(f"{pad}{s[1]} = {s[2]}({s[3]})")
            elif s[0] == "poly":
                lines.append(f"{pad}{s[1]} = {poly_str(s[2])}")
            elif s[0] == "if":
                lines.append(f"{pad}if {s[1]} == {s[2]}:")
                emit(s[3], ind + 1)
                if s[4]:
                    lines.append(f"{pad}else:")
                    emit(s[4], ind + 1)
                lines.append(f"{pad}end")
    emit(prog["body"], 1)
    lines.append("end")
    return "\n".join(lines) + "\n"


def _draws(body):
    out = []
    for s in body:
        if s[0] == "draw":
            out.append(s)
        elif s[0] == "if":
            out += _draws(s[3]) + _draws(s[4])
    return out


def oracle_program_brute(job):
    """discrete draws only: exact enumeration of all draw sequences for n <= nmax, sequential state semantics (a read
    before the assignment of the same iteration sees the value of the previous iteration)."""
    mp = _mp()
    prog, goals, nmax = job["prog"], job["goals"], job["nmax"]
    fun = {"Sin": mp.sin, "Cos": mp.cos, "Exp": mp.exp}

    def step(ss, env, w):
        """-> list of (env, weight) after executing ss"""
        if not ss:
            return [(env, w)]
        s, rest = ss[0], ss[1:]
        if s[0] == "draw":
            out = []
            for p, v in discrete_law(s[2], s[3]):
                if p:
                    e2 = dict(env)
                    e2[s[1]] = mp.mpf(v)
                    out += step(rest, e2, w * _q(mp, p))
            return out
        e2 = dict(env)
        if s[0] == "func":
            e2[s[1]] = fun[s[2]](env[s[3]] if s[3] in env else _q(mp, s[3]))
        elif s[0] == "poly":
            r = mp.mpf(0)
            for coef, mon in s[2]:
                t = _q(mp, coef)
                for v, k in mon.items():
                    t *= env[v] ** k
                r += t
            e2[s[1]] = r
        elif s[0] == "if":
            return step((s[3] if env[s[1]] == s[2] else s[4]) + rest, env, w)
        return step(rest, e2, w)

    states = [({v: _q(mp, x) for v, x in prog["init"].items()}, mp.mpf(1))]
    vals = {g: [] for g in goals}
    for n in range(nmax + 1):
        for g, mon in goals.items():
            vals[g].append(mp.fsum(w * mp.fprod(env[v] ** k for v, k in mon.items()) for env, w in states))
        if n < nmax:
            states = [x for env, w in states for x in step(prog["body"], env, w)]
    return {"values": {g: [mp.nstr(v, 45) for v in vs] for g, vs in vals.items()}, "err": "0"}


def oracle_program_cond_keep(job):
    """shape T5b: c = Bernoulli(p); x = D; if c == 1: y = f(x) end; s = s + y.  y_n = f(x_n) with probability p, else y_{n-1}
    (independent of the past):  E(y_n^k) = p m_k + (1-p) E(y_{n-1}^k),  E(s_n) = E(s_{n-1}) + E(y_n)."""
    mp = _mp()
    prog, goals, nmax = job["prog"], job["goals"], job["nmax"]
    body = prog["body"]
    p = _q(mp, body[0][3][0])
    fam, params = body[1][2], body[1][3]
    f = {"Sin": mp.sin, "Cos": mp.cos, "Exp": mp.exp}[body[2][3][0][2]]
    E = expectation(fam, params)
    errs = mp.mpf(0)
    mk = {}
    for k in (1, 2):
        v, e = E(lambda x, k=k: f(x) ** k)
        mk[k] = v
        errs = max(errs, abs(e))
    y0, s0 = _q(mp, prog["init"]["y"]), _q(mp, prog["init"]["s"])
    ey = {1: [y0], 2: [y0 ** 2]}
    es = [s0]
    for n in range(1, nmax + 1):
        for k in (1, 2):
            ey[k].append(p * mk[k] + (1 - p) * ey[k][-1])
        es.append(es[-1] + ey[1][-1])
    vals = {}
    for g, mon in goals.items():
        if mon == {"y": 1}:
            vals[g] = ey[1]
        elif mon == {"y": 2}:
            vals[g] = ey[2]
        elif mon == {"s": 1}:
            vals[g] = es
        else:
            raise ValueError("goal outside the shape")
    return {"values": {g: [mp.nstr(v, 45) for v in vs] for g, vs in vals.items()}, "err": mp.nstr(errs, 5)}


def oracle_program(job):
    """E[goal monomial] at n = 0..nmax, independent of Polar.  Iteration-local variables depend only
    on the current iteration's draws; the accumulator acc' = A*acc + U with A, U local; so
    E[acc_n^k L_n] = sum_j C(k,j) E[acc_{n-1}^j] E[A^j U^(k-j) L]  (independence of iterations),
    the local expectations being enumerated (discrete draws) / integrated by quadrature (one
    continuous draw)."""
    if job.get("acc") == "__brute__":
        return oracle_program_brute(job)
    if job.get("acc") == "__cond_keep__":
        return oracle_program_cond_keep(job)
    mp = _mp()
    prog, goals, nmax = job["prog"], job["goals"], job["nmax"]
    init = {v: _q(mp, x) for v, x in prog["init"].items()}
    body = prog["body"]
    draws = _draws(body)
    acc = job.get("acc")
    disc = [(s[1], discrete_law(s[2], s[3])) for s in draws if discrete_law(s[2], s[3]) is not None]
    cont = [s for s in draws if discrete_law(s[2], s[3]) is None]
    if len(cont) > 1:
        raise ValueError("more than one continuous draw per iteration")

    def run_body(dv):
        """dv: draw variable -> value; returns env of locals and (A, U) of the accumulator"""
        env = dict(dv)
        AU = [mp.mpf(1), mp.mpf(0)]

        def val(v):
            if v in env:
                return env[v]
            raise KeyError(v)     # a local read before its assignment: outside the generated shapes

        def ex(ss):
            for s in ss:
                if s[0] == "draw":
                    continue
                if s[0] == "func":
                    arg = env[s[3]] if s[3] in env else _q(mp, s[3])
                    env[s[1]] = {"Sin": mp.sin, "Cos": mp.cos, "Exp": mp.exp}[s[2]](arg)
                elif s[0] == "poly":
                    if s[1] == acc:
                        A = mp.mpf(0)
                        U = mp.mpf(0)
                        for coef, mon in s[2]:
                            t = _q(mp, coef)
                            k_acc = 0
                            for v, k in mon.items():
                                if v == acc:
                                    k_acc = k
                                else:
                                    t *= val(v) ** k
                            if k_acc == 0:
                                U += t
                            elif k_acc == 1:
                                A += t
                            else:
                                raise ValueError("accumulator not affine")
                        AU[0], AU[1] = A, U
                    else:
                        r = mp.mpf(0)
                        for coef, mon in s[2]:
                            t = _q(mp, coef)
                            for v, k in mon.items():
                                t *= val(v) ** k
                            r += t
                        env[s[1]] = r
                elif s[0] == "if":
                    ex(s[3] if val(s[1]) == s[2] else s[4])
        ex(body)
        return env, AU[0], AU[1]

    errs = [mp.mpf(0)]

    def E_local(h):
        """E[h(env, A, U)] over the draws of one iteration"""
        def over_disc(i, dv, w):
            if i == len(disc):
                if cont:
                    integ = integrator(cont[0][2], cont[0][3])

                    def g(x):
                        d2 = dict(dv)
                        d2[cont[0][1]] = x
                        return h(*run_body(d2))
                    v, e = integ(g)
                    errs[0] = max(errs[0], abs(e))
                    return w * v
                return w * h(*run_body(dv))
            name, law = disc[i]
            tot = mp.mpf(0)
            for p, v in law:
                if p == 0:
                    continue
                d2 = dict(dv)
                d2[name] = mp.mpf(v)
                tot += over_disc(i + 1, d2, w * _q(mp, p))
            return tot
        return over_disc(0, {}, mp.mpf(1))

    out = {}
    for gname, mon in goals.items():
        k = mon.get(acc, 0) if acc else 0
        loc = {v: p for v, p in mon.items() if v != acc}
        vals = []
        # n = 0: initial state
        v0 = mp.mpf(1)
        for v, p in mon.items():
            v0 *= init[v] ** p
        vals.append(v0)

        def lam(env):
            r = mp.mpf(1)
            for v, p in loc.items():
                r *= env[v] ** p
            return r
        # local coefficients c_j = E[A^j U^(k-j) L] for the goal, and a_ij = E[A^j U^(i-j)] for pure moments
        cj = [E_local(lambda env, A, U, j=j: A ** j * U ** (k - j) * lam(env)) for j in range(k + 1)]
        aij = {}
        for i in range(1, k + 1):
            for j in range(i + 1):
                aij[(i, j)] = E_local(lambda env, A, U, i=i, j=j: A ** j * U ** (i - j))
        m_prev = [init[acc] ** j if acc else mp.mpf(1) for j in range(k + 1)]   # E[acc_0^j]
        for n in range(1, nmax + 1):
            vals.append(mp.fsum(math.comb(k, j) * m_prev[j] * cj[j] for j in range(k + 1)))
            m_new = [mp.mpf(1)]
            for i in range(1, k + 1):
                m_new.append(mp.fsum(math.comb(i, j) * m_prev[j] * aij[(i, j)] for j in range(i + 1)))
            m_prev = m_new
        out[gname] = [mp.nstr(v, 45) for v in vals]
    return {"values": out, "err": mp.nstr(errs[0], 5)}


def _pool_start(named_jobs, procs=6):
    """named_jobs: list of (function name, job); -> (pool, async result); runs beside the Polar workers"""
    import multiprocessing as mpc
    pool = mpc.get_context("fork").Pool(max(1, min(procs, len(named_jobs))))
    return pool, pool.map_async(_guard, named_jobs, chunksize=1)


def _guard(a):
    name, job = a
    try:
        return globals()[name](job)
    except Exception as e:  # noqa
        return {"oracle_error": f"{type(e).__name__}: {e}"}


# =====================================================================================
# generators
# =====================================================================================
FAMILY_PARAMS = {
    "Bernoulli": [["1/3"], ["3/4"], ["1/2"], ["2/7"]],
    "DiscreteUniform": [["-1", "2"], ["0", "3"], ["2", "4"], ["-3", "-1"]],
    "Categorical": [["1/2", "1/4", "1/4"], ["1/5", "4/5"]],
    "Normal": [["1/2", "2"], ["0", "1"], ["-1", "1/4"], ["2", "3"]],
    "Uniform": [["-1", "2"], ["0", "1"], ["1/2", "5/2"], ["-3", "-1"]],
    "Laplace": [["1", "1/2"], ["0", "1/4"], ["-1/2", "1/3"], ["2", "2/7"]],
    "DistExp": [["2"], ["7/2"], ["4"], ["1/2"]],
    "Gamma": [["2", "1/3"], ["3", "1/5"], ["1/2", "1/4"], ["5/2", "2/7"]],
    "Beta": [["2", "3"], ["1", "2"], ["3", "1", "2"], ["1/2", "3/2"]],
    "TruncNormal": [["0", "1", "-1", "3"], ["1/2", "2", "0", "2"], ["-1", "1/2", "-2", "1"]],
}
SLOW = {"Beta", "TruncNormal"}


def moment_requests(ctx):
    """(family, params, powers, exact) for the direct calls of get_func_moment"""
    reqs = []
    amax = ctx.pick(2, 3)
    trig = [(a, b, c) for a in range(amax + 1) for b in range(3) for c in range(3) if b + c >= 1]
    if not ctx.quick:
        trig += [(a, b, c) for a in range(3) for (b, c) in ((3, 0), (0, 3), (3, 1), (1, 3), (3, 2), (2, 3), (4, 0), (0, 4))]
    expo = [(a, d) for a in range(amax + 1) for d in (1, 2, 3)]
    # always present: frequency 0 with and without an identity power, odd/even mixes
    forced = [(1, 2, 0), (0, 1, 1), (1, 0, 2), (2, 1, 1), (0, 2, 0), (1, 1, 0)]
    for fam, plist in FAMILY_PARAMS.items():
        heavy = fam in SLOW or fam == "DiscreteUniform"
        nps = ctx.pick(1, 2 if heavy else len(plist))
        chosen = ctx.rng.sample(plist, min(nps, len(plist)))
        for params in chosen:
            if fam == "Categorical":
                for pw in ({"Sin": 1}, {"Id": 1, "Exp": 1}):
                    reqs.append((fam, params, pw, True))
                continue
            tr = list(trig)
            ex = list(expo)
            if not ctx.quick and heavy:
                tr = forced + ctx.rng.sample([t for t in tr if t[0] <= 2 and max(t[1], t[2]) <= 2 and t not in forced], 8)
                ex = ctx.rng.sample(ex, 6)
            if ctx.quick:
                if heavy:
                    # sympy is slow on these closed forms (TruncNormal erf, Beta Piecewise, DiscreteUniform quotient)
                    tr = [t for t in forced if t[0] <= 1][:4] + ctx.rng.sample([t for t in tr if t[0] <= 1 and t not in forced], 3)
                    ex = ctx.rng.sample(ex, 3)
                else:
                    tr = forced + ctx.rng.sample([t for t in tr if t not in forced], 9)
                    ex = ctx.rng.sample(ex, 5)
            for a, b, c in tr:
                pw = {k: v for k, v in (("Id", a), ("Sin", b), ("Cos", c)) if v}
                reqs.append((fam, params, pw, True))
            for a, d in ex:
                pw = {k: v for k, v in (("Id", a), ("Exp", d)) if v}
                reqs.append((fam, params, pw, True))
            # rounding mode on a sample
            for a, b, c in ctx.rng.sample(tr, min(len(tr), ctx.pick(2, 8))):
                pw = {k: v for k, v in (("Id", a), ("Sin", b), ("Cos", c)) if v}
                reqs.append((fam, params, pw, False))
            for a, d in ctx.rng.sample(ex, min(len(ex), ctx.pick(1, 4))):
                pw = {k: v for k, v in (("Id", a), ("Exp", d)) if v}
                reqs.append((fam, params, pw, False))
    # mixed Sin/Cos + Exp requests: must be rejected ("Exp can be mixed with Id" only)
    for fam, params in (("Normal", ["0", "1"]), ("Bernoulli", ["1/3"]), ("Uniform", ["0", "1"]), ("Laplace", ["0", "1/4"])):
        for pw in ({"Sin": 1, "Exp": 1}, {"Id": 1, "Cos": 1, "Exp": 1}):
            reqs.append((fam, params, pw, True))
    # exponential moments at and beyond the edge of the domain (must be rejected), and just inside
    for fam, params in (("DistExp", ["2"]), ("DistExp", ["3"]), ("DistExp", ["5/2"]), ("Gamma", ["2", "1/2"]),
                        ("Gamma", ["3/2", "1/3"]), ("Laplace", ["0", "1/2"]), ("Laplace", ["1", "1/3"]),
                        ("Laplace", ["0", "2/5"])):
        for d in (1, 2, 3, 4):
            reqs.append((fam, params, {"Exp": d}, True))
            reqs.append((fam, params, {"Id": 1, "Exp": d}, True))
    return reqs


def P(*terms):
    return [[str(c), dict(m)] for c, m in terms]


def gen_programs(ctx):
    """-> list of (label, prog, acc, goals {name: monomial}, exact)"""
    rng = ctx.rng
    out = []
    disc = [("Bernoulli", ["1/3"]), ("Bernoulli", ["3/5"]), ("DiscreteUniform", ["1", "3"]), ("DiscreteUniform", ["-1", "1"])]
    cont = [("Normal", ["1/2", "2"]), ("Normal", ["0", "1"]), ("Uniform", ["-1", "2"]), ("Uniform", ["0", "1"]),
            ("Laplace", ["1", "1/2"]), ("Laplace", ["0", "1/4"]), ("DistExp", ["2"]), ("DistExp", ["4"]),
            ("Gamma", ["2", "1/3"]), ("Gamma", ["3", "1/5"])]
    if not ctx.quick:
        cont += [("Beta", ["2", "3"]), ("TruncNormal", ["0", "1", "-1", "3"]), ("Gamma", ["1/2", "1/4"])]
    anyd = disc + cont
    accd = [d for d in anyd if d[0] != "DiscreteUniform"] if ctx.quick else anyd
    fr = lambda: str(Fraction(rng.randint(-4, 4), rng.randint(1, 3)))   # noqa
    frnz = lambda: str(Fraction(rng.choice([-3, -2, -1, 1, 2, 3]), rng.randint(1, 3)))   # noqa

    def mon_str(m):
        return "*".join(f"{v}**{k}" if k != 1 else v for v, k in m.items())

    def goals_of(mons):
        return {mon_str(m): m for m in mons if m}

    def trig_locals(d, mixed=False):
        body = [["draw", "x", d[0], d[1]], ["func", "y", "Sin", "x"], ["func", "z", "Cos", "x"]]
        init = {"x": fr(), "y": fr(), "z": fr()}
        return init, body

    n_each = ctx.pick(3, 10)
    # T1 locals, trig
    for d in rng.sample(anyd, min(len(anyd), ctx.pick(5, len(anyd)))):
        init, body = trig_locals(d)
        pool = [{"y": 1}, {"z": 1}, {"y": 1, "z": 1}, {"x": 1, "y": 1}, {"y": 2}, {"z": 2}, {"x": 1, "z": 1},
                {"x": 2, "y": 1}, {"x": 1, "y": 1, "z": 1}, {"y": 2, "z": 1}, {"x": 1, "z": 2}, {"y": 3}]
        out.append(("T1-trig", {"init": init, "body": body}, None, goals_of(rng.sample(pool, 4)), True))
    # T1 locals, exp
    for d in rng.sample(anyd, min(len(anyd), ctx.pick(4, len(anyd)))):
        body = [["draw", "x", d[0], d[1]], ["func", "w", "Exp", "x"]]
        init = {"x": fr(), "w": fr()}
        pool = [{"w": 1}, {"x": 1, "w": 1}, {"x": 2, "w": 1}]
        lim = {"DistExp": Fraction(d[1][0]), "Gamma": 1 / Fraction(d[1][1]) if d[0] == "Gamma" else None,
               "Laplace": 1 / Fraction(d[1][1]) if d[0] == "Laplace" else None}.get(d[0])
        if lim is None or lim > 2:
            pool += [{"w": 2}, {"x": 1, "w": 2}]
        out.append(("T1-exp", {"init": init, "body": body}, None, goals_of(rng.sample(pool, min(3, len(pool)))), True))
    # T2 additive accumulator
    for _ in range(n_each):
        d = rng.choice(accd)
        init, body = trig_locals(d)
        init["s"] = fr()
        lam = rng.choice([{"y": 1}, {"z": 1}, {"y": 1, "z": 1}, {"x": 1, "y": 1}, {"y": 2}])
        a = rng.choice(["1", "1", "1/2", "-1/3"])
        body.append(["poly", "s", P((a, {"s": 1}), (frnz(), lam), (fr(), {}))])
        out.append(("T2-acc", {"init": init, "body": body}, "s",
                    goals_of([{"s": 1}, {"s": 2}, rng.choice([{"s": 1, "y": 1}, {"s": 1, "z": 1}, {"s": 1, "x": 1, "y": 1}])]), True))
    # T3 multiplicative accumulator
    for _ in range(n_each):
        d = rng.choice(accd)
        init, body = trig_locals(d)
        init["s"] = frnz()
        f = rng.choice(["y", "z"])
        body.append(["poly", "s", P((frnz(), {"s": 1, f: 1}), (fr(), {}))])
        out.append(("T3-mulacc", {"init": init, "body": body}, "s", goals_of([{"s": 1}, {"s": 2}]), True))
    # T4 constants (number, and variable holding a constant assigned in the loop)
    for i4 in range(n_each):
        # the grammar allows an unsigned NUMBER or a variable as argument: integers, decimals (i4 == 0), variables
        c1, c2 = (rng.choice(["0.5", "1.25", "0.1"]) if i4 == 0 else str(rng.randint(0, 4))), frnz()
        f1, f2 = rng.choice(["Sin", "Cos", "Exp"]), rng.choice(["Sin", "Cos", "Exp"])
        body = [["func", "y", f1, c1], ["poly", "k", P((c2, {}))], ["func", "z", f2, "k"],
                ["poly", "s", P(("1", {"s": 1}), ("1", {"y": 1, "z": 1}))]]
        init = {"y": fr(), "z": fr(), "k": c2, "s": fr()}
        out.append(("T4-const", {"init": init, "body": body}, "s",
                    goals_of([{"y": 1}, {"y": 2, "z": 1}, {"z": 3}, {"s": 1}, {"s": 2}]), True))
    # T5 branch on a Bernoulli variable
    for _ in range(n_each):
        d = rng.choice(anyd)
        fA, fB = rng.choice(["Sin", "Cos", "Exp"]), rng.choice(["Sin", "Cos"])
        if fA == "Exp" and d[0] in ("DistExp", "Gamma", "Laplace"):
            fA = "Cos"
        els = rng.choice([[["func", "y", fB, "x"]], [["poly", "y", P(("1", {"x": 1}))]], [["poly", "y", P((fr(), {}))]]])
        body = [["draw", "c", "Bernoulli", [rng.choice(["1/2", "1/3", "3/4"])]], ["draw", "x", d[0], d[1]],
                ["if", "c", 1, [["func", "y", fA, "x"]], els]]
        init = {"c": "0", "x": fr(), "y": fr()}
        gl = [{"y": 1}, {"c": 1, "y": 1}, {"x": 1, "y": 1}]
        if not (fA == "Exp" and els[0][0] == "func"):
            gl.append({"y": 2})
        out.append(("T5-branch", {"init": init, "body": body}, None, goals_of(gl), True))
    # T5b functional assignment under a condition WITHOUT else (the variable keeps its previous value otherwise), and under a loop guard
    for d in [("Normal", ["0", "1"]), ("Bernoulli", ["1/3"]), ("Uniform", ["0", "1"])][:ctx.pick(2, 3)]:
        fA = rng.choice(["Sin", "Cos"])
        body = [["draw", "c", "Bernoulli", ["1/4"]], ["draw", "x", d[0], d[1]], ["if", "c", 1, [["func", "y", fA, "x"]], []],
                ["poly", "s", P(("1", {"s": 1}), ("1", {"y": 1}))]]
        out.append(("T5b-branch-no-else", {"init": {"c": "0", "x": "0", "y": "1/2", "s": "0"}, "body": body}, "__cond_keep__",
                    goals_of([{"y": 1}, {"y": 2}, {"s": 1}]), True))
    # T6 reference to the draw
    for _ in range(n_each):
        d = rng.choice(anyd)
        f = rng.choice(["Sin", "Cos"])
        body = [["draw", "x", d[0], d[1]], ["poly", "u", P(("1", {"x": 1}))], ["func", "y", f, "u"]]
        init = {"x": fr(), "u": fr(), "y": fr()}
        out.append(("T6-ref", {"init": init, "body": body}, None,
                    goals_of([{"x": 1, "y": 1}, {"u": 1, "y": 2}, {"y": 1}]), True))
    # T7 two draws with their own functions (trig of one, exp of the other: legitimately mixed)
    for _ in range(n_each):
        d1 = rng.choice(cont)
        d2 = rng.choice(disc)
        body = [["draw", "x", d1[0], d1[1]], ["draw", "v", d2[0], d2[1]], ["func", "y", rng.choice(["Sin", "Cos"]), "x"],
                ["func", "w", "Exp", "v"]]
        init = {"x": fr(), "v": "0", "y": fr(), "w": fr()}
        out.append(("T7-twodraws", {"init": init, "body": body}, None,
                    goals_of([{"y": 1, "w": 1}, {"x": 1, "y": 1, "w": 1}, {"y": 2, "v": 1}, {"v": 1, "w": 2}]), True))
    # T8 function (or the copy it refers to) placed BEFORE the draw of its argument: it reads the value of the previous
    # iteration, whose law is not the draw's at n = 1 and which is not independent of ... ; Polar must refuse or be right
    for d in [("DiscreteUniform", ["1", "2"]), ("Bernoulli", ["1/3"])]:
        f = rng.choice(["Sin", "Cos"])
        out.append(("T8-before-draw", {"init": {"a": "1/2", "y": "0"}, "body": [["func", "y", f, "a"], ["draw", "a", d[0], d[1]]]},
                    "__brute__", goals_of([{"y": 1}, {"y": 2}, {"a": 1, "y": 1}]), True))
        out.append(("T8-copy-before-draw", {"init": {"a": "0", "b": "2", "y": "0", "x": "0"},
                                            "body": [["poly", "b", P(("1", {"a": 1}))], ["draw", "a", d[0], d[1]], ["func", "y", f, "b"],
                                                     ["poly", "x", P(("1", {"a": 1, "y": 1}))]]},
                    "__brute__", goals_of([{"x": 1}, {"y": 1}, {"b": 1, "y": 1}]), True))
    out.append(("T8-exp-before-draw", {"init": {"a": "1", "w": "0"}, "body": [["func", "w", "Exp", "a"], ["draw", "a", "DiscreteUniform", ["-1", "1"]]]},
                "__brute__", goals_of([{"w": 1}, {"a": 1, "w": 1}]), True))
    # rounding mode on a few programs
    extra = []
    for lab, prog, acc, goals, _ in rng.sample(out, min(len(out), ctx.pick(4, 12))):
        extra.append((lab + "-rounded", prog, acc, goals, False))
    out += extra
    # the witness of DESIGN section 6 #5 (mixed Exp/trig functions of ONE draw)
    wit = {"init": {"x": "0", "y": "0", "z": "0"},
           "body": [["draw", "x", "Normal", ["0", "1"]], ["func", "y", "Sin", "x"], ["func", "z", "Exp", "x"]]}
    out.append(("W-mixed", wit, None, goals_of([{"y": 1, "z": 1}, {"y": 1}, {"z": 1}]), True))
    return out


# =====================================================================================
# comparison helpers
# =====================================================================================
def polar_number(mp, r):
    """value dict of tasks_func._num -> mpf or None"""
    if "rat" in r:
        return _q(mp, r["rat"])
    if "dec" in r:
        if "im" in r and abs(mp.mpf(r["im"])) > mp.mpf("1e-30"):
            return None
        return mp.mpf(r["dec"])
    return None


def close(mp, a, b, tol):
    return abs(a - b) <= mp.mpf(tol) * max(mp.mpf(1), abs(b))


# =====================================================================================
# dispatch: translated get_func_moment (Coq kernel) vs the real one
# =====================================================================================
def coq_fdict(fp):
    return "[" + "; ".join(f'("{k}", {v}%nat)' for k, v in fp) + "]"


def dispatch_requests(ctx):
    keys = ["Id", "Sin", "Cos", "Exp", "Expt", "Tan", "exp", ""]
    reqs = [[("Sin", 1), ("Exp", 1)], [("Id", 1)], [], [("Exp", 2)], [("Cos", 1)], [("Sin", 1), ("Expt", 1)],
            [("Exp", 1), ("Expt", 1)], [("Id", 2), ("Sin", 1), ("Cos", 2), ("Exp", 1)]]
    for _ in range(ctx.pick(40, 300)):
        ks = ctx.rng.sample(keys, ctx.rng.randint(0, 4))
        reqs.append([(k, ctx.rng.randint(0, 3)) for k in ks])
    return reqs


def check_dispatch(ctx):
    reqs = dispatch_requests(ctx)
    res = lib.run_tasks([{"kind": "func_dispatch", "requests": [[list(kv) for kv in r] for r in reqs], "timeout": 60}], timeout=60)[0]
    if "outcomes" not in res:
        ctx.violation("dispatch:probe-failed", {"result": res}, f"probing the real get_func_moment failed: {str(res)[:200]}",
                      no_input=True)
        return
    terms = []
    for r, o in zip(reqs, res["outcomes"]):
        if o == "TRIG":
            want = "DTrig"
        elif o == "EXP":
            want = "DExp"
        elif o.startswith("RAISE:"):
            msg = o[6:]
            want = f'(DRaise "{msg}")' if '"' not in msg else None
        else:
            want = None
        if want is None:
            ctx.violation(f"dispatch:unexpected-outcome:{r}", {"request": r, "outcome": o},
                          f"get_func_moment({dict(r)}) -> {o[:120]} (neither branch nor FunctionalAssignmentException)", no_input=False)
            terms.append("false")
            continue
        terms.append(f"deqb (get_func_moment {coq_fdict(r)}) {want}")
    body = ("From Coq Require Import List ZArith Bool String.\nFrom Polar Require Import CRing Stats Func FuncThm.\n"
            "From PolarGen Require Import FuncGen.\nImport ListNotations.\nLocal Open Scope string_scope.\n"
            "Definition deqb (a b : dispatch) : bool := match a, b with DTrig, DTrig => true | DExp, DExp => true\n"
            "  | DRaise x, DRaise y => String.eqb x y | _, _ => false end.\n"
            "Eval vm_compute in [" + "; ".join(terms) + "].\n")
    refuted = ("From Coq Require Import List ZArith Bool String.\nFrom Polar Require Import CRing Stats Func FuncThm.\n"
               "From PolarGen Require Import FuncGen.\nImport ListNotations.\n"
               "Theorem dispatch_refuted : exists fp, has_trig fp = true /\\ has_exp fp = true /\\ get_func_moment fp = DTrig.\n"
               "Proof. exists mixed_witness. vm_compute. repeat split; reflexivity. Qed.\nPrint Assumptions dispatch_refuted.\n")
    exact = ("From Coq Require Import List ZArith Bool String.\nFrom Polar Require Import CRing Stats Func FuncThm.\n"
             "From PolarGen Require Import FuncGen.\nImport ListNotations.\n"
             "Theorem dispatch_exact : forall fp, has_trig fp = true -> has_exp fp = true -> is_raise (get_func_moment fp) = true.\n"
             "Proof. apply dispatch_mixed_decided_by_witness. vm_compute. reflexivity. Qed.\nPrint Assumptions dispatch_exact.\n")
    out = lib.coq_run_many(ctx, [("c13_dispatch", body), ("c13_refuted", refuted), ("c13_exact", exact)], timeout=300)
    ok, o = out["c13_dispatch"]
    bl = lib.parse_bool_list(o) if ok else None
    ctx.coverage["obligations"] += 1
    if bl is None or len(bl) != len(reqs):
        ctx.violation("dispatch:coq-case-file", {"log": o[-1500:]}, "the dispatch case file did not evaluate", no_input=True)
    else:
        bad = [(r, oc) for r, oc, b in zip(reqs, res["outcomes"], bl) if not b]
        for r, oc in bad[:3]:
            ctx.violation(f"dispatch:model-differs:{r}", {"request": r, "real": oc},
                          f"translated get_func_moment differs from the real one on {dict(r)} (real: {oc[:80]})", no_input=False)
        if not bad:
            ctx.coverage["discharged"] += 1
        for r in reqs:
            ctx.count({"dispatch": r}, nontrivial=len(r) >= 2)
    ctx.coverage["dispatch_requests"] = len(reqs)
    # exactly one of the two kernel-checked statements about mixed requests holds for the code present
    ctx.coverage["obligations"] += 1
    r_ok, e_ok = out["c13_refuted"][0], out["c13_exact"][0]
    if r_ok == e_ok:
        ctx.violation("dispatch:mixed-undecided", {"refuted_log": out["c13_refuted"][1][-800:], "exact_log": out["c13_exact"][1][-800:]},
                      "neither/both of dispatch_refuted and dispatch_exact check for the translated get_func_moment", no_input=True)
    else:
        ctx.coverage["discharged"] += 1
        ctx.coverage.setdefault("theorems", []).append("C13.run:dispatch_refuted (mixed_witness answered by the trig branch)"
                                                       if r_ok else "C13.run:dispatch_exact (all mixed requests rejected)")
    ctx.coverage["mixed_requests_rejected_by_translated_code"] = bool(e_ok and not r_ok)
    return bool(r_ok and not e_ok)


def check_trig_model(ctx):
    """the GENERATED get_trig_moment_num/_den run by the Coq kernel in the Gaussian model (e m = i^m, angle pi/2)
    against the REAL get_trig_moment on the same laws placed at multiples of pi/2: exact rational comparison
    num = den * value.  Ties sign, frequency, binomials, divisor and derivative order of the translation to the code."""
    rng = ctx.rng
    reqs = []
    for _ in range(ctx.pick(14, 60)):
        nv = rng.randint(1, 4)
        vals = rng.sample(range(-3, 5), nv)
        ws = [rng.randint(1, 5) for _ in vals]
        law = [[str(Fraction(w, sum(ws))), v] for w, v in zip(ws, vals)]
        a, b, c = rng.randint(0, 2), rng.randint(0, 3), rng.randint(0, 3)
        if b + c == 0:
            b = 1
        reqs.append((law, [[k, v] for k, v in (("Id", a), ("Sin", b), ("Cos", c)) if v]))
    res = lib.run_tasks([{"kind": "func_trig_model", "requests": reqs, "timeout": 200}], timeout=200)[0]
    ctx.coverage["obligations"] += 1
    if "values" not in res:
        ctx.violation("trig-model:probe-failed", {"result": res}, f"running the real get_trig_moment on angle laws failed: {str(res)[:200]}",
                      no_input=True)
        return
    terms, used = [], []
    for (law, pw), v in zip(reqs, res["values"]):
        if not isinstance(v, str):
            ctx.violation(f"trig-model:real-code-failed:{law}:{pw}", {"law": law, "powers": pw, "result": v},
                          f"get_trig_moment on the law {law} (atoms at multiples of pi/2), powers {dict(pw)}: {v}")
            continue
        L = "[" + "; ".join(f"(gq {lib.cq(Fraction(p))}, ({x})%Z)" for p, x in law) + "]"
        fp = coq_fdict(pw)
        terms.append(f"(let L : zlaw G := {L} in reqb (get_trig_moment_num G gi false (mom_of G L) (tf_of e4 L) (dtf_of e4 gi L) {fp}) "
                     f"(rmul (get_trig_moment_den G gi false (mom_of G L) (tf_of e4 L) (dtf_of e4 gi L) {fp}) (gq {lib.cq(Fraction(v))})))")
        used.append((law, pw, v))
    body = ("From Coq Require Import List ZArith Bool String QArith Qcanon.\nFrom Polar Require Import Qcx CRing Stats Func FuncThm FuncModel.\n"
            "From PolarGen Require Import FuncGen.\nImport ListNotations.\nLocal Open Scope string_scope.\n"
            "Eval vm_compute in [" + ";\n ".join(terms) + "].\n")
    ok, o = lib.coq_run(ctx, "c13_trigmodel", body, timeout=300)
    bl = lib.parse_bool_list(o) if ok else None
    if bl is None or len(bl) != len(used):
        ctx.violation("trig-model:coq-case-file", {"log": o[-1500:]}, "the trig-model case file did not evaluate", no_input=True)
        return
    bad = [u for u, b in zip(used, bl) if not b]
    for law, pw, v in bad[:3]:
        ctx.violation(f"trig-model:differs:{law}:{pw}", {"law": law, "powers": pw, "real_value": v},
                      f"translated get_trig_moment (kernel, angle pi/2) differs from the real one on law {law}, powers {dict(pw)} "
                      f"(real value {v} * (pi/2)^a)", no_input=False)
    if not bad:
        ctx.coverage["discharged"] += 1
    for law, pw, v in used:
        ctx.count({"trig_model": [law, pw]}, nontrivial=True)
    ctx.coverage["trig_model_requests"] = len(used)


# =====================================================================================
def run(ctx):
    mp = _mp()
    # ---- T: translate, build, gate ------------------------------------------------------
    import translate_func
    import translate_dist
    try:
        translate_dist.main()
        translate_func.main()
    except (translate_func.Abort, translate_dist.Unsupported) as e:
        ctx.violation("translator-abort", {"why": str(e)}, f"translator aborted (code outside the translated subset): {e}",
                      no_input=True)
        broken_tie = True
    else:
        broken_tie = False
    proof_ok = False
    if not broken_tie:
        ok, log = lib.coq_check_props(ctx)
        if not ok:
            ctx.violation("proof-broken", {"theorem": "props/C13.v", "log": log[-3000:]},
                          "props/C13.v no longer checks against the translated functional_assignment.py / distribution code",
                          no_input=True)
        else:
            proof_ok = True
    ctx.coverage["trusted_base"] += [
        "harness/translate_func.py (Python ast -> Gallina, fail-closed; math.comb read as the binomial coefficient)",
        "mpmath 40-digit arithmetic and tanh-sinh quadrature (oracle of the correspondence check: VALIDATION, not proof)",
        "sympy N(.,45) evaluating the exact expression Polar returned",
    ]
    ctx.assumptions += [
        "theorems are ring-level: e m stands for exp(i m) / exp(m); that the complex numbers with exp form such a ring is standard and not formalised",
        "the transform identity E[X^a e^{itX}] = (-i)^a phi^(a)(t) and the cf/mgf formulas of the CONTINUOUS families are not proved; they are validated against quadrature of the defining integral on every run",
        "formal t-derivatives are proved for laws given as exponential sums; the t-derivative sympy takes of DiscreteUniform's closed-form quotient is validated numerically",
        "the true mgf domains (Exponential t < lambda, Gamma t < 1/theta, Laplace |t| < 1/b) are textbook facts; the theorem equates the translated mgf_exists_at with them",
        "rounding mode: |value - truth| <= 2e-19 relative (20 significant digits of N(m, 20) then an exact Rational of the binary float)",
        "Categorical declares no cf/mgf (NotImplementedError: a refusal); DiscreteUniform/Uniform closed-form cf at frequency 0 is 0/0 and ends in AssertionError (a refusal, C18)",
    ]
    mixed_is_trig = None
    if proof_ok:
        mixed_is_trig = check_dispatch(ctx)
        check_trig_model(ctx)

    # ---- K1: direct calls ----------------------------------------------------------------
    rd = lib.replay_data(ctx)
    reqs = moment_requests(ctx)
    if rd and "request" in rd:
        q = rd["request"]
        reqs = [(q["family"], q["params"], q["powers"], q.get("exact", True))]
    tasks = [{"kind": "func_moment", "family": f, "params": p, "powers": pw, "exact": ex, "timeout": ctx.pick(60, 150)}
             for f, p, pw, ex in reqs]
    # constants
    crs = []
    for _ in range(ctx.pick(12, 60)):
        crs.append((ctx.rng.choice(["Sin", "Cos", "Exp"]), str(Fraction(ctx.rng.randint(-6, 6), ctx.rng.randint(1, 4))),
                    ctx.rng.randint(0, 4), ctx.rng.random() < 0.7))
    ctasks = [{"kind": "func_const", "func": f, "arg": a, "k": k, "exact": ex, "timeout": 60} for f, a, k, ex in crs]
    # programs
    progs = gen_programs(ctx)
    if rd and "prog" in rd:
        progs = [(rd.get("label", "replay"), rd["prog"], rd.get("acc"), rd["goals"], rd.get("exact", True))]
    nmax = ctx.pick(3, 4)
    ptasks = [{"kind": "func_program", "text": prog_text(pr), "goals": list(goals), "exact": ex, "nmax": nmax, "timeout": ctx.pick(60, 150)}
              for _, pr, _, goals, ex in progs]
    # oracles first (harness processes), then Polar
    ojobs = {}
    for f, p, pw, ex in reqs:
        key = json.dumps([f, p, pw], sort_keys=True)
        ojobs.setdefault(key, {"family": f, "params": p, "powers": pw})
        if f == "Beta" and pw.get("Id", 0) >= 1 and zero_freq_coefficient(pw.get("Sin", 0), pw.get("Cos", 0)) != 0:
            pw1 = {"Id": pw["Id"]}                         # E[X^a]: the frequency-0 term of the expansion
            ojobs.setdefault(json.dumps([f, p, pw1], sort_keys=True), {"family": f, "params": p, "powers": pw1})
        if set(pw) & {"Sin", "Cos"} and "Exp" in pw:       # what the trig branch would answer
            pw2 = {k: v for k, v in pw.items() if k != "Exp"}
            ojobs.setdefault(json.dumps([f, p, pw2], sort_keys=True), {"family": f, "params": p, "powers": pw2})
    okeys = list(ojobs)
    pjobs = [{"prog": pr, "goals": goals, "nmax": nmax, "acc": acc} for _, pr, acc, goals, _ in progs]
    import time
    tm = {"setup": round(ctx.elapsed(), 1)}
    t0 = time.time()
    pool, pending = _pool_start([("oracle_moment", ojobs[k]) for k in okeys] + [("oracle_program", j) for j in pjobs])
    try:
        allres = lib.run_tasks(tasks + ctasks + ptasks, timeout=ctx.pick(60, 150), jobs=10)
        tm["polar"] = round(time.time() - t0, 1)
        try:
            ores_all = pending.get(timeout=ctx.pick(900, 3000))
        except Exception as e:  # noqa   (a lost oracle process: nothing can be compared, nothing is alarmed)
            ores_all = [{"oracle_error": f"oracle pool: {type(e).__name__}"}] * (len(okeys) + len(pjobs))
    finally:
        pool.terminate()
    tm["polar_and_oracle"] = round(time.time() - t0, 1)
    oracle = dict(zip(okeys, ores_all[:len(okeys)]))
    pres_o = ores_all[len(okeys):]
    tm["polar_slowest"] = sorted(((round(r.get("secs", 0), 1), (t.get("family") or t.get("text", "")[:0] or t["kind"]), str(t.get("powers") or t.get("goals")))
                                  for t, r in zip(tasks + ctasks + ptasks, allres) if isinstance(r, dict)), reverse=True)[:12]
    ctx.coverage["timing"] = tm
    mres, cres, pres = allres[:len(tasks)], allres[len(tasks):len(tasks) + len(ctasks)], allres[len(tasks) + len(ctasks):]

    stats = {"agree": 0, "rejected_correctly": 0, "refusals": {}, "oracle_imprecise": 0, "known": 0}
    famhist = {}
    for (f, p, pw, ex), r in zip(reqs, mres):
        label = {"family": f, "params": p, "powers": pw, "exact": ex}
        famhist[f] = famhist.get(f, 0) + 1
        ctx.count(label, nontrivial=sum(pw.values()) >= 2)
        ctx.coverage["obligations"] += 1
        o = oracle[json.dumps([f, p, pw], sort_keys=True)]
        mixed = bool(set(pw) & {"Sin", "Cos"}) and "Exp" in pw
        sig_in = f"{f}({','.join(p)}):{json.dumps(pw, sort_keys=True)}:{'exact' if ex else 'rounded'}"
        if "oracle_error" in o:
            stats["oracle_imprecise"] += 1
            ctx.coverage["obligations"] -= 1
            continue
        if "error" in r:
            if r.get("error") == "timeout":
                stats["refusals"]["timeout"] = stats["refusals"].get("timeout", 0) + 1
                ctx.coverage["obligations"] -= 1
                continue
            ctx.violation(f"func_moment:exception:{sig_in}", {"request": label, "result": r},
                          f"get_func_moment({f}({', '.join(p)}), {pw}) died with {r.get('etype')}: {str(r.get('msg'))[:160]}")
            continue
        if "raised" in r:
            et = r["raised"]
            if et == "FunctionalAssignmentException" and (o.get("diverges") or mixed):
                stats["rejected_correctly"] += 1
                ctx.coverage["discharged"] += 1
                continue
            if et == "FunctionalAssignmentException":
                ctx.violation(f"func_moment:rejected-but-exists:{sig_in}", {"request": label, "result": r, "true_value": o},
                              f"get_func_moment({f}({', '.join(p)}), {pw}) is rejected ({r['msg'][:100]}) although the "
                              f"expectation exists: {o.get('value')}")
                continue
            # NotImplementedError (no cf/mgf), AssertionError (0/0 closed form): refusals, no value is used
            stats["refusals"][f"{f}:{et}"] = stats["refusals"].get(f"{f}:{et}", 0) + 1
            ctx.coverage["obligations"] -= 1
            continue
        val = polar_number(mp, r)
        if o.get("diverges"):
            ctx.violation(f"func_moment:answered-but-diverges:{sig_in}", {"request": label, "polar": r},
                          f"get_func_moment({f}({', '.join(p)}), {pw}) = {r.get('expr')} although E[exp({pw['Exp']} X)] "
                          f"does not exist for this law")
            continue
        if val is None:
            ctx.violation(f"func_moment:not-a-real-number:{sig_in}", {"request": label, "polar": r},
                          f"get_func_moment({f}({', '.join(p)}), {pw}) is not a real number: {str(r)[:200]}")
            continue
        if mp.mpf(o["err"]) > mp.mpf(ORACLE_ERR_MAX):
            stats["oracle_imprecise"] += 1
            ctx.coverage["obligations"] -= 1
            continue
        truth = mp.mpf(o["value"])
        tol = EXACT_TOL if ex else ROUND_TOL
        if close(mp, val, truth, tol):
            if mixed:
                # a mixed request answered with the right value would be fine, too
                pass
            stats["agree"] += 1
            ctx.coverage["discharged"] += 1
            ctx.sample({"request": label, "polar": r.get("expr"), "true_value": o["value"], "oracle_error_estimate": o["err"]})
            continue
        what = (f"get_func_moment({f}({', '.join(p)}), {pw}){'' if ex else ' [rounding mode]'} = {mp.nstr(val, 30)} "
                f"({str(r.get('expr'))[:80]}), the true expectation is {mp.nstr(truth, 30)}")
        sig = f"func_moment:wrong-value:{sig_in}"
        if mixed:
            o2 = oracle.get(json.dumps([f, p, {k: v for k, v in pw.items() if k != "Exp"}], sort_keys=True), {})
            if "value" in o2 and close(mp, val, mp.mpf(o2["value"]), EXACT_TOL):
                sig = KNOWN_SIG     # exactly the trig-only answer: the exponential factor was ignored
                what += " — the value is that of the request without the Exp power"
        elif f == "Beta" and pw.get("Id", 0) >= 1:
            kz = zero_freq_coefficient(pw.get("Sin", 0), pw.get("Cos", 0))
            o1 = oracle.get(json.dumps([f, p, {"Id": pw["Id"]}], sort_keys=True), {})
            if kz != 0 and "value" in o1 and close(mp, val, truth - _q(mp, kz) * mp.mpf(o1["value"]), tol):
                sig = KNOWN_BETA    # exactly the true value minus the frequency-0 term K E[X^a]
                what += f" — the difference is the frequency-0 term {kz}*E[X^{pw['Id']}] of the product-to-sum expansion"
        new = ctx.violation(sig, {"request": label, "polar": r, "true_value": o["value"], "oracle_error_estimate": o["err"]}, what)
        if not new:
            stats["known"] += 1
            ctx.coverage["discharged"] += 1

    # constants
    for (fn, a, k, ex), r in zip(crs, cres):
        ctx.count({"const": [fn, a, k, ex]}, nontrivial=k >= 1)
        ctx.coverage["obligations"] += 1
        x = _q(mp, a)
        truth = {"Sin": mp.sin, "Cos": mp.cos, "Exp": mp.exp}[fn](x) ** k
        val = polar_number(mp, r) if "error" not in r else None
        if val is None:
            ctx.violation(f"const:{fn}({a})**{k}:no-value", {"func": fn, "arg": a, "k": k, "result": r},
                          f"get_const_moment of {fn}({a}), k={k}: {str(r)[:200]}")
        elif close(mp, val, truth, EXACT_TOL if ex else ROUND_TOL):
            ctx.coverage["discharged"] += 1
        else:
            ctx.violation(f"const:{fn}({a})**{k}:{'exact' if ex else 'rounded'}", {"func": fn, "arg": a, "k": k, "polar": r,
                                                                                   "true_value": mp.nstr(truth, 40)},
                          f"{fn}({a})**{k}: Polar uses {mp.nstr(val, 30)}, true value {mp.nstr(truth, 30)}")

    # ---- K2: programs ----------------------------------------------------------------------
    pst = {"goals_agree": 0, "refusals": {}, "oracle_imprecise": 0}
    labhist = {}
    for (lab, prog, acc, goals, ex), r, o in zip(progs, pres, pres_o):
        text = prog_text(prog)
        labhist[lab] = labhist.get(lab, 0) + 1
        if "oracle_error" in o:
            pst["oracle_imprecise"] += 1
            continue
        if "goals" not in r:
            et = r.get("etype", r.get("error"))
            pst["refusals"][et] = pst["refusals"].get(et, 0) + 1
            pst.setdefault("refusal_examples", {}).setdefault(et, {"text": text, "msg": str(r.get("msg"))[:200]})
            if lab.startswith("W-") or et in ("timeout",):
                continue
            # the generated shapes are inside the documented class: a refusal is C18's business, noted here
            continue
        imprecise = mp.mpf(o["err"]) > mp.mpf(ORACLE_ERR_MAX)
        for g, mon in goals.items():
            gr = r["goals"].get(g, {})
            ctx.count({"prog": text, "goal": g, "exact": ex}, nontrivial=True)
            if "raised" in gr:
                pst["refusals"][gr["raised"]] = pst["refusals"].get(gr["raised"], 0) + 1
                pst.setdefault("refusal_examples", {}).setdefault(gr["raised"], {"text": text, "goal": g, "msg": gr.get("msg")})
                continue
            if imprecise:
                pst["oracle_imprecise"] += 1
                continue
            ctx.coverage["obligations"] += 1
            bad = None
            for n, (pv, tv) in enumerate(zip(gr["values"], o["values"][g])):
                val = polar_number(mp, pv)
                truth = mp.mpf(tv)
                tol = EXACT_TOL if ex else "1e-16"
                if val is None or not close(mp, val, truth, tol):
                    bad = (n, pv, tv)
                    break
            if bad is None:
                pst["goals_agree"] += 1
                ctx.coverage["discharged"] += 1
                ctx.sample({"program": text, "goal": f"E({g})", "closed_form": gr["closed_form"], "values_n<=N": o["values"][g]},
                           limit=9)
                continue
            n, pv, tv = bad
            val = polar_number(mp, pv)
            per_arg = {}
            for st in _flat(prog["body"]):
                if st[0] == "func" and st[1] in mon:
                    per_arg.setdefault(st[3], set()).add(st[2])
            mixed = any("Exp" in fs and fs & {"Sin", "Cos"} for fs in per_arg.values())
            what = (f"program with Sin/Cos/Exp assignments, goal E({g}) at n={n}: Polar's closed form {gr['closed_form'][:100]} "
                    f"gives {str(pv)[:60]}, the true expectation is {tv[:40]}")
            sig = KNOWN_SIG if mixed else f"program:{lab}:{g}:{json.dumps(prog, sort_keys=True)}"
            dec_args = [st[3] for st in _flat(prog["body"]) if st[0] == "func" and st[1] in _deps(prog, mon)
                        and "." in st[3]]
            if dec_args and val is not None and abs(val - mp.mpf(tv)) <= mp.mpf("1e-13") * max(1, abs(mp.mpf(tv))):
                # f(decimal literal) evaluated in double precision: an error at the level of float rounding
                sig = KNOWN_DECIMAL
                what += f" — the argument {dec_args[0]} is a decimal literal and f({dec_args[0]}) was evaluated in float arithmetic"
            elif not mixed:
                # shape of the Beta finding: a Beta draw with an identity power >= 1 and an even total
                # Sin/Cos power >= 2 of its functions in the goal (attribution by shape, thorough tier only)
                for st in _flat(prog["body"]):
                    if st[0] == "draw" and st[2] == "Beta" and mon.get(st[1], 0) >= 1:
                        tp = sum(mon[q[1]] for q in _flat(prog["body"])
                                 if q[0] == "func" and q[3] == st[1] and q[2] in ("Sin", "Cos") and q[1] in mon)
                        if tp >= 2 and tp % 2 == 0:
                            sig = KNOWN_BETA
            new = ctx.violation(sig, {"prog": prog, "acc": acc, "goals": goals, "exact": ex, "label": lab, "text": text, "goal": g,
                                      "n": n, "polar_value": pv, "true_value": tv, "closed_form": gr["closed_form"]}, what)
            if not new:
                ctx.coverage["discharged"] += 1
    if mixed_is_trig and KNOWN_SIG not in ctx.known_hits and not ctx.violations:
        # the kernel-checked refutation holds for the translated code, but no wrong value was exhibited
        ctx.violation("dispatch:mixed-request-answered-by-trig-branch", {"theorem": "dispatch_refuted"},
                      "translated get_func_moment answers E[sin(X) exp(X)] by the trig branch, but no wrong value was observed",
                      no_input=True)
    ctx.coverage["rule"] = (
        "direct calls: every family x sampled parameter sets x (a,b,c) with a<=%d, b,c<=2 (trig) / (a,c) c<=3 (exp), exact mode, "
        "plus a sample in rounding mode, mixed Exp/trig requests, exponential orders around the edge of the mgf domain; "
        "constants f(q)^k; programs from 8 templates (locals, additive/multiplicative accumulators, constants, branches, "
        "references, two draws) x goals, n <= %d; non-trivial = total power >= 2; distinct by (family, parameters, powers, mode) / "
        "(program text, goal, mode)" % (ctx.pick(2, 3), nmax))
    ctx.coverage["family_histogram"] = famhist
    ctx.coverage["program_histogram"] = labhist
    ctx.coverage["direct_calls"] = stats
    ctx.coverage["programs"] = pst


def _deps(prog, mon):
    """variables the goal monomial depends on through polynomial assignments of the body (one step is enough for
    the generated shapes: accumulators read the functional variables directly)"""
    vs = set(mon)
    for st in _flat(prog["body"]):
        if st[0] == "poly" and st[1] in vs:
            for _, m in st[2]:
                vs |= set(m)
    return vs


def _flat(body):
    for s in body:
        if s[0] == "if":
            yield from _flat(s[3])
            yield from _flat(s[4])
        else:
            yield s
