"""C08 — built-in distributions report their true moments, support and transforms.

T      : harness/translate_dist.py re-translates program/distribution/*.py and the four
         rewritings of program/transformer/dist_transformer.py into coq/gen/DistGen.v
         (fail-closed) on every run.
proof  : props/C08.v — theorems about the GENERATED definitions for all k and all
         admissible parameters (defining sums, moment recurrences with m0 = 1, Uniform's
         integral with Coquelicot, supports, flags, MGF domains, location/scale rewriting).
K      : the real get_moment / get_support / is_discrete / mgf_exists_at / DistTransformer
         are run in a Polar worker on a parameter grid and compared exactly with the generated
         definitions evaluated by vm_compute (this also ties the hand-written sympy.stats
         formulas of theories/DistSympy.v to what sympy.stats returns).
search : every real value is also compared with an oracle independent of Polar AND of the
         Coq development (defining sum / exact recurrence from m0 = 1 in Fractions); a
         broken proof, an untranslatable source or a K mismatch without a differing input is
         reported with no-failing-input-found.
val    : cf/mgf Taylor coefficients at 0 (sympy series) vs get_moment(k), k <= 6;
         TruncNormal moments vs mpmath quadrature — validation only, not theorems."""
import json
import os
from fractions import Fraction
from math import comb, factorial

import lib
import translate_dist

F = Fraction

# (variant prefix in DistGen.v, factory name, parameter kinds)
VARIANTS = [
    ("bernoulli", "Bernoulli"), ("categorical", "Categorical"), ("discreteuniform", "DiscreteUniform"),
    ("uniform", "Uniform"), ("exponential", "DistExp"), ("gamma", "Gamma"), ("beta2", "Beta"), ("beta3", "Beta"),
    ("normal", "Normal"), ("laplace", "Laplace"), ("truncnormal", "TruncNormal"),
]
HAS_MGF_FLAG = {"bernoulli", "discreteuniform", "uniform", "exponential", "gamma", "beta2", "beta3", "normal", "laplace",
                "truncnormal"}


# ---- parameter generation ------------------------------------------------------------
def rq(rng, lo, hi, dens=(1, 2, 3, 4, 5, 7)):
    d = rng.choice(dens)
    return F(rng.randint(lo * d, hi * d), d)


def rpos(rng, hi=4):
    while True:
        x = rq(rng, 0, hi)
        if x > 0:
            return x


def gen_params(rng, variant):
    if variant == "bernoulli":
        return [rq(rng, 0, 1)]
    if variant == "categorical":
        n = rng.randint(1, 5)
        w = [rng.randint(0, 6) for _ in range(n)]
        if sum(w) == 0:
            w[0] = 1
        return [F(x, sum(w)) for x in w]
    if variant == "discreteuniform":
        a = rng.randint(-5, 5)
        return [F(a), F(a + rng.randint(0, 7))]
    if variant == "uniform":
        a = rq(rng, -4, 4)
        return [a, a + rpos(rng)]
    if variant == "exponential":
        return [rpos(rng)]
    if variant == "gamma":
        return [rpos(rng), rpos(rng)]
    if variant == "beta2":
        return [rpos(rng), rpos(rng)]
    if variant == "beta3":
        return [rpos(rng), rpos(rng), rpos(rng)]
    if variant == "normal":
        return [rq(rng, -3, 3), rpos(rng)]
    if variant == "laplace":
        return [rq(rng, -3, 3), rpos(rng, 3)]
    if variant == "truncnormal":
        # sigma2 a rational square: get_moment refuses (EvaluationException) when sqrt(sigma2) is irrational
        mu = rq(rng, -2, 2, (1, 2))
        a = mu - rpos(rng, 2)
        return [mu, rpos(rng, 2) ** 2, a, a + rpos(rng, 3) + 1]
    raise KeyError(variant)


# ---- oracle: independent of Polar and of the Coq development ----------------------------
def oracle_moments(variant, ps, kmax):
    """exact raw moments 0..kmax from the family's definition"""
    if variant == "bernoulli":
        p = ps[0]
        return [(1 - p) * (F(0) ** k if k else 1) + p for k in range(kmax + 1)]
    if variant == "categorical":
        return [sum(p * (F(i) ** k if (i or k) else 1) for i, p in enumerate(ps)) for k in range(kmax + 1)]
    if variant == "discreteuniform":
        vals = list(range(int(ps[0]), int(ps[1]) + 1))
        return [sum((F(v) ** k if (v or k) else F(1)) for v in vals) / len(vals) for k in range(kmax + 1)]
    if variant == "uniform":
        a, b = ps
        # E[(a + (b-a) U)^k], E[U^j] = 1/(j+1)
        return [sum(comb(k, j) * a ** (k - j) * (b - a) ** j / (j + 1) for j in range(k + 1)) for k in range(kmax + 1)]
    m = [F(1)]
    if variant == "exponential":
        for k in range(kmax):
            m.append(F(k + 1) / ps[0] * m[k])
        return m
    if variant == "gamma":
        kap, th = ps
        for k in range(kmax):
            m.append(th * (kap + k) * m[k])
        return m
    if variant in ("beta2", "beta3"):
        a, b = ps[0], ps[1]
        s = ps[2] if variant == "beta3" else F(1)
        for k in range(kmax):
            m.append(s * (a + k) / (a + b + k) * m[k])
        return m
    if variant == "normal":
        mu, s2 = ps
        m.append(mu)
        for k in range(kmax - 1):
            m.append(mu * m[k + 1] + (k + 1) * s2 * m[k])
        return m[:kmax + 1]
    if variant == "laplace":
        mu, b = ps
        c = [(factorial(j) * b ** j if j % 2 == 0 else F(0)) for j in range(kmax + 1)]
        return [sum(comb(k, j) * mu ** (k - j) * c[j] for j in range(k + 1)) for k in range(kmax + 1)]
    return None


def oracle_support(variant, ps):
    fs = lambda x: f"{F(x).numerator}/{F(x).denominator}"  # noqa: E731
    if variant == "bernoulli":
        return sorted([["pt", "0/1"], ["pt", "1/1"]])
    if variant == "categorical":
        return sorted(["pt", fs(i)] for i in range(len(ps)))
    if variant == "discreteuniform":
        return sorted(["pt", fs(v)] for v in range(int(ps[0]), int(ps[1]) + 1))
    if variant == "uniform":
        return [["iv", fs(ps[0]), fs(ps[1])]]
    if variant in ("exponential", "gamma"):
        return [["iv", "0/1", "oo"]]
    if variant == "beta2":
        return [["iv", "0/1", "1/1"]]
    if variant == "beta3":
        return [["iv", "0/1", fs(ps[2])]]
    if variant in ("normal", "laplace"):
        return [["iv", "-oo", "oo"]]
    if variant == "truncnormal":
        return [["iv", fs(ps[2]), fs(ps[3])]]


def oracle_mgf_exists(variant, ps, t):
    if variant == "exponential":
        return t < ps[0]
    if variant == "gamma":
        return t < 1 / ps[1]
    if variant == "laplace":
        return abs(t) < 1 / ps[1]
    return True


DISCRETE = {"bernoulli", "categorical", "discreteuniform"}


# ---- Coq printing ----------------------------------------------------------------------
def coq_args(variant, ps):
    if variant == "categorical":
        return lib.clist([lib.cq(p) for p in ps])
    if variant == "discreteuniform":
        return " ".join(f"({int(p)})%Z" for p in ps)
    return " ".join(lib.cq(p) for p in ps)


def coq_support(items):
    def ext(s):
        return "PosInf" if s == "oo" else "NegInf" if s == "-oo" else f"(Fin {lib.cq(F(s))})"
    out = []
    for it in items:
        if it[0] == "pt":
            out.append(f"SPoint {lib.cq(F(it[1]))}")
        else:
            out.append(f"SIv {ext(it[1])} {ext(it[2])}")
    return lib.clist(out)


CASE_HEAD = ("From Coq Require Import List QArith Qcanon ZArith Bool.\n"
             "From Polar Require Import Qcx DistBase DistSympy.\nFrom PolarGen Require Import DistGen.\n"
             "Import ListNotations.\nLocal Open Scope Qc_scope.\n")

MOMENT0_REFUTED = CASE_HEAD + """From Polar Require Import DistProofs.
Theorem C08_bernoulli_moment0_refuted :
  forall p, p <> 1 -> bernoulli_get_moment p 0 <> pmf_moment (bernoulli_pmf p) 0.
Proof.
  intros p Hp. rewrite pmf_moment_0, bernoulli_pmf_total. unfold bernoulli_get_moment. exact Hp.
Qed.
Theorem C08_bernoulli_moment0_witness : exists p, bernoulli_get_moment p 0 <> 1.
Proof. exists 0. unfold bernoulli_get_moment. discriminate. Qed.
Print Assumptions C08_bernoulli_moment0_refuted.
"""
MOMENT0_REPAIRED = CASE_HEAD + """From Polar Require Import DistProofs.
Theorem C08_bernoulli_moment0 :
  forall p, bernoulli_get_moment p 0 = pmf_moment (bernoulli_pmf p) 0.
Proof.
  intros p. rewrite pmf_moment_0, bernoulli_pmf_total. unfold bernoulli_get_moment. cbv zeta. cbn. reflexivity.
Qed.
Print Assumptions C08_bernoulli_moment0.
"""


def fstr(x):
    return f"{x.numerator}/{x.denominator}"


def frac_sqrt(q):
    """exact square root of a non-negative Fraction, or None"""
    from math import isqrt
    if q < 0:
        return None
    n, d = isqrt(q.numerator), isqrt(q.denominator)
    return F(n, d) if n * n == q.numerator and d * d == q.denominator else None


class Findings:
    """input-level disagreements with the oracle, grouped per (family, observation): one
    VIOLATION per group, for its smallest witness (lowest order first), the rest listed in the replay"""

    def __init__(self, ctx):
        self.ctx = ctx
        self.groups = {}

    def add(self, group, rank, signature, replay, what):
        self.groups.setdefault(group, []).append((rank, signature, replay, what))

    def flush(self):
        n = 0
        for group in sorted(self.groups):
            items = sorted(self.groups[group], key=lambda x: x[0])
            # a known signature anywhere in the group is reported as such, once
            known = {k["signature"] for k in self.ctx.findings.get("known", []) if k["property"] == self.ctx.prop}
            rest = [it for it in items if it[1] not in known]
            for it in items:
                if it[1] in known:
                    self.ctx.violation(it[1], it[2], it[3])
            if rest:
                rank, sig, replay, what = rest[0]
                replay = dict(replay)
                replay["further_failing_inputs_in_group"] = [r[3] for r in rest[1:40]]
                self.ctx.violation(sig, replay, what + (f"   [+{len(rest) - 1} more failing inputs of {group} in the replay]" if len(rest) > 1 else ""))
                n += 1
        self.groups = {}
        return n


def run(ctx):
    cov = ctx.coverage
    fnd = Findings(ctx)
    cov["trusted_base"] += [
        "harness/translate_dist.py: Python ast -> Gallina for the formula-level methods (subset and numeric-model "
        "conventions in its docstring); cross-checked on every run by K (real code vs generated definitions, exact)",
        "theories/DistSympy.v: hand-written closed formulas for sympy.stats moments of Gamma/Beta/Normal/Laplace "
        "(sympy is a CAS, not modelled); tied to the real sympy by K for k <= kmax at random rational parameters",
        "generated case files evaluated by vm_compute in the kernel (no extraction)",
        "moment recurrences / literal pmfs in theories/DistProofs.v are the SPECIFICATION of the continuous/discrete "
        "families (integration-by-parts identities; only Uniform is proved equal to the integral itself)",
    ]
    ctx.assumptions += [
        "parameters are numbers (Qc; integers for DiscreteUniform): symbolic parameters are covered only through "
        "the fact that the translated formulas are rational functions of the parameters",
        "cf/mgf are only VALIDATED (sympy series at 0 vs get_moment(k), k <= 6), not proved",
        "TruncNormal.get_moment is not modelled (float erf, result rounded through float()): validated against "
        "mpmath quadrature with tolerance 1e-9",
        "float literals: decimal literals with at most 15 significant digits (a double prints back to the literal); "
        "longer literals are rounded to the nearest double's 15-digit decimal",
        "admissible parameters: a<b (Uniform), lambda>0, kappa,theta>0, a,b,scale>0, sigma2>0, b>0, a<=b integers, "
        "probabilities summing to 1 (non-negativity of Categorical parameters is not checked by the code: C19)",
    ]
    kmax = ctx.pick(12, 20)
    npts = ctx.pick(5, 40)

    # ---- 1. translator ---------------------------------------------------------------
    tr_error = None
    try:
        translate_dist.main()
    except translate_dist.Unsupported as e:
        tr_error = e
        # fail closed: no stale definitions may satisfy the proofs
        lib.write_if_changed(os.path.join(lib.COQ, "gen", "DistGen.v"),
                             f"(* translator failed: {str(e).replace('*)', '* )')} *)\n")
    cov["translator"] = "ok" if tr_error is None else f"aborted: {tr_error}"

    # ---- 2. proofs -------------------------------------------------------------------
    proof_ok, proof_log = False, ""
    if tr_error is None:
        proof_ok, proof_log = lib.coq_check_props(ctx)
    else:
        cov["obligations"] += len(lib.props_obligations("C08"))
        cov["checker_cmd"] = "not run: translator aborted"

    # ---- 3. real code on the grid ---------------------------------------------------
    grid = []
    replay_point = None
    if ctx.replay:
        with open(ctx.replay) as f:
            inp = json.load(f).get("input") or {}
        if "family" in inp and "params" in inp:
            fam = inp["family"]
            var = [v for v, f2 in VARIANTS if f2 == fam and (fam != "Beta" or v == f"beta{len(inp['params'])}")]
            if var:
                replay_point = (var[0], fam, [F(x) for x in inp["params"]])
                npts = 0
        cov["replay"] = f"{ctx.replay}: " + ("re-running its input through every comparison" if replay_point else
                                             "no (family, params) input in the file: full run")
    for variant, fam in VARIANTS:
        for i in range(npts):
            grid.append((variant, fam, gen_params(ctx.rng, variant)))
    if replay_point:
        grid.append(replay_point)
    # a few hand-picked corners
    grid += [("bernoulli", "Bernoulli", [F(0)]), ("bernoulli", "Bernoulli", [F(1)]), ("bernoulli", "Bernoulli", [F(1, 3)]),
             ("categorical", "Categorical", [F(1)]), ("discreteuniform", "DiscreteUniform", [F(0), F(0)]),
             ("discreteuniform", "DiscreteUniform", [F(-3), F(-1)]), ("normal", "Normal", [F(0), F(1)]),
             ("normal", "Normal", [F(-1, 2), F(2)]), ("laplace", "Laplace", [F(0), F(1)]), ("uniform", "Uniform", [F(0), F(1)]),
             ("uniform", "Uniform", [F(-1), F(1)]), ("beta2", "Beta", [F(1, 2), F(1, 2)]), ("gamma", "Gamma", [F(1), F(1)])]
    tvals = {}
    tasks = []
    for variant, fam, ps in grid:
        ts = []
        if variant in HAS_MGF_FLAG:
            crit = {"exponential": ps[0], "gamma": 1 / ps[1] if variant == "gamma" else None,
                    "laplace": 1 / ps[1] if variant == "laplace" else None}.get(variant)
            ts = [F(0), rq(ctx.rng, -5, 5), rq(ctx.rng, -5, 5)]
            if crit is not None:
                ts += [crit, -crit, crit - F(1, 100), crit + F(1, 100)]
        tvals[id(ps)] = ts
        tasks.append({"kind": "dist_eval", "family": fam, "params": [fstr(p) for p in ps],
                      "ks": [] if variant == "truncnormal" else list(range(kmax + 1)),
                      "ts": [fstr(t) for t in ts], "timeout": 120})
    ls_tasks = []
    ls_meta = []
    for i in range(ctx.pick(4, 20)):
        mu, s2, a, w, b, num, den = rq(ctx.rng, -3, 3), rpos(ctx.rng), rq(ctx.rng, -3, 3), rpos(ctx.rng), rpos(ctx.rng, 3), rpos(ctx.rng), rpos(ctx.rng)
        for fam, sym, subs, coqname, cargs in [
            ("Normal", ["p0", "p1"], {"p0": mu, "p1": s2}, "normal", [mu, s2]),
            ("Normal", ["p0", fstr(s2)], {"p0": mu}, "normal", [mu, s2]),
            ("Uniform", ["p0", "p1"], {"p0": a, "p1": a + w}, "uniform", [a, a + w]),
            ("Laplace", ["p0", fstr(b)], {"p0": mu}, "laplace", [mu, b]),
            ("DistExp", [f"({fstr(num)})/p0"], {"p0": den}, "exponential", [num, den]),
        ]:
            ls_tasks.append({"kind": "dist_locscale", "family": fam, "sym_params": sym,
                             "subs": {k: fstr(v) for k, v in subs.items()}, "timeout": 60})
            ls_meta.append((fam, coqname, cargs, sym, subs))
    val_tasks = []
    val_meta = []
    per_variant = {}
    for variant, fam, ps in grid:
        if variant == "categorical" or per_variant.get(variant, 0) >= ctx.pick(1, 4):
            continue    # Categorical declares no cf/mgf
        if variant in ("beta2", "beta3") and (ctx.quick or per_variant.get(variant, 0) >= 1):
            continue    # sympy's E[exp(t X)] does not finish for non-integer Beta parameters: integer points below
        if variant == "truncnormal" and ctx.quick:
            ps = [F(0), F(1), F(-1), F(2)]   # erf series at generic points exceed the quick budget
        per_variant[variant] = per_variant.get(variant, 0) + 1
        val_tasks.append({"kind": "dist_transform", "family": fam, "params": [fstr(p) for p in ps],
                          "kmax": ctx.pick(3, 6) if variant == "truncnormal" else 6, "budget": ctx.pick(15, 60),
                          "tol": 1e-9 if variant == "truncnormal" else None,
                          "timeout": ctx.pick(70, 150)})
        val_meta.append((variant, fam, ps))
    # integer-parameter Beta: sympy finishes there
    for fam, ps, variant in [("Beta", [F(2), F(3)], "beta2"), ("Beta", [F(2), F(3), F(5, 2)], "beta3"),
                             ("Beta", [F(ctx.rng.randint(1, 4)), F(ctx.rng.randint(1, 4)), rpos(ctx.rng)], "beta3")]:
        val_tasks.append({"kind": "dist_transform", "family": fam, "params": [fstr(p) for p in ps], "kmax": 6,
                          "budget": 40, "tol": None, "timeout": 100})
        val_meta.append((variant, fam, ps))
    tn_tasks = [{"kind": "dist_truncnormal", "params": [fstr(p) for p in ps], "ks": list(range(0, 7)), "ts": ["1/2", "-1", "3/2"], "timeout": 120}
                for variant, fam, ps in grid if variant == "truncnormal"][:ctx.pick(3, 12)]
    stale_tasks = []
    for fam, sym, num, subs in [("Uniform", ["p0", "3"], ["1", "3"], {"p0": "1"}), ("DistExp", ["p0"], ["2"], {"p0": "2"}),
                                ("Normal", ["p0", "2"], ["1/2", "2"], {"p0": "1/2"}), ("Gamma", ["2", "p0"], ["2", "1/3"], {"p0": "1/3"}),
                                ("Beta", ["2", "3", "p0"], ["2", "3", "5/2"], {"p0": "5/2"}), ("Laplace", ["p0", "1"], ["2", "1"], {"p0": "2"}),
                                ("Categorical", ["p0", "1-p0"], ["1/4", "3/4"], {"p0": "1/4"}), ("Bernoulli", ["p0"], ["1/4"], {"p0": "1/4"})]:
        stale_tasks.append({"kind": "dist_stale", "family": fam, "sym_params": sym, "num_params": num, "subs": subs, "k": 2, "timeout": 60})
    fl_tasks = []
    fl_meta = []
    for lit in ["0.25", "1.1", "2.675", "0.1", "1e-7", "123456.789", "3.0", "0.000123456789012345"] + \
               [f"{ctx.rng.randint(0, 9)}.{ctx.rng.randint(0, 999999):06d}" for _ in range(ctx.pick(6, 40))]:
        fl_tasks.append({"kind": "dist_eval", "family": "Normal", "params": ["0", lit], "ks": [2], "ts": [], "timeout": 60})
        fl_meta.append(lit)
    # one pool for everything (long sympy tasks first)
    batches = [val_tasks, tn_tasks, tasks, ls_tasks, stale_tasks, fl_tasks]
    allres = lib.run_tasks([t for b in batches for t in b], timeout=150)
    offs = [0]
    for b in batches:
        offs.append(offs[-1] + len(b))
    vres, tn, results, ls_res, sres, fres = [allres[offs[i]:offs[i + 1]] for i in range(len(batches))]

    coq_cases = {}      # variant -> list of (term, label)
    n_mismatch_oracle = 0
    k_mismatch = []
    hist = {}
    for (variant, fam, ps), task, r in zip(grid, tasks, results):
        hist[variant] = hist.get(variant, 0) + 1
        label = {"family": fam, "variant": variant, "params": [fstr(p) for p in ps]}
        if "error" in r:
            fnd.add(f"{fam}:eval", (0, 0), f"{fam}:eval-error:params={label['params']}", {"input": label, "result": r},
                    f"{fam}({', '.join(label['params'])}) could not be constructed/evaluated: {r.get('etype', r['error'])} {r.get('msg', '')[:200]}")
            continue
        args = coq_args(variant, ps)
        cases = coq_cases.setdefault(variant, [])
        om = oracle_moments(variant, ps, kmax)
        # moments
        for k in (range(kmax + 1) if om is not None else []):
            got = r["moments"].get(str(k))
            key = {"f": variant, "p": label["params"], "k": k}
            ctx.count(key, nontrivial=k >= 2)
            if isinstance(got, dict):
                fnd.add(f"{fam}.get_moment", (k, 1), f"{fam}.get_moment:exception:k={k}:params={label['params']}",
                        {"input": label, "k": k, "result": got, "true_value": fstr(om[k])},
                        f"{fam}({', '.join(label['params'])}).get_moment({k}) raised {got['error']}: {got['msg']} (true moment {fstr(om[k])})")
                continue
            gotf = F(got)
            if gotf != om[k]:
                n_mismatch_oracle += 1
                sig = f"{fam}.get_moment(0)" if (variant == "bernoulli" and k == 0) else \
                    f"{fam}.get_moment:k={k}:params={label['params']}"
                fnd.add(f"{fam}.get_moment", (k, 0), sig,
                        {"input": label, "k": k, "polar_value": got, "true_value": fstr(om[k]),
                         "oracle": "defining sum (discrete) / exact recurrence from m0 = 1 (continuous)",
                         "call": f"distribution_factory({fam!r}, {label['params']}).get_moment({k})"},
                        f"{fam}({', '.join(label['params'])}).get_moment({k}) = {got}, true moment {fstr(om[k])}")
            cases.append((f"Qc_eqb ({variant}_get_moment {args} {k}) {lib.cq(gotf)}", ("moment", label, k, got)))
        # support
        sup = r["support"]
        if isinstance(sup, dict):
            fnd.add(f"{fam}.get_support", (0, 1), f"{fam}.get_support:exception", {"input": label, "result": sup},
                    f"{fam}({', '.join(label['params'])}).get_support() raised {sup['error']}: {sup.get('msg', '')}")
        else:
            ctx.count({"f": variant, "p": label["params"], "support": 1}, nontrivial=True)
            want = oracle_support(variant, ps)
            if sorted(sup) != sorted(want):
                fnd.add(f"{fam}.get_support", (0, 0), f"{fam}.get_support:params={label['params']}",
                        {"input": label, "polar_support": sup, "true_support": want},
                        f"{fam}({', '.join(label['params'])}).get_support() = {sup}, true support {want}")
            cases.append((f"support_eqb ({variant}_get_support {args}) {coq_support(sup)}", ("support", label, None, sup)))
        # discreteness
        disc = r["is_discrete"]
        ctx.count({"f": variant, "p": label["params"], "disc": 1}, nontrivial=False)
        if disc is not (variant in DISCRETE):
            fnd.add(f"{fam}.is_discrete", (0, 0), f"{fam}.is_discrete", {"input": label, "polar": disc, "true": variant in DISCRETE},
                    f"{fam}({', '.join(label['params'])}).is_discrete() = {disc}")
        if isinstance(disc, bool):
            cases.append((f"Bool.eqb ({variant}_is_discrete {args}) {'true' if disc else 'false'}", ("discrete", label, None, disc)))
        # mgf_exists_at
        for t in tvals[id(ps)]:
            got = r["mgf_exists"].get(fstr(t))
            ctx.count({"f": variant, "p": label["params"], "t": fstr(t)}, nontrivial=True)
            if not isinstance(got, bool):
                fnd.add(f"{fam}.mgf_exists_at", (0, 1), f"{fam}.mgf_exists_at:exception", {"input": label, "t": fstr(t), "result": got},
                        f"{fam}({', '.join(label['params'])}).mgf_exists_at({t}) -> {got}")
                continue
            want = oracle_mgf_exists(variant, ps, t)
            if got != want:
                fnd.add(f"{fam}.mgf_exists_at", (0, 0), f"{fam}.mgf_exists_at:t={fstr(t)}:params={label['params']}",
                        {"input": label, "t": fstr(t), "polar": got, "true": want},
                        f"{fam}({', '.join(label['params'])}).mgf_exists_at({t}) = {got}, the MGF "
                        f"{'exists' if want else 'does not exist'} there")
            cases.append((f"Bool.eqb ({variant}_mgf_exists_at {args} {lib.cq(t)}) {'true' if got else 'false'}",
                          ("mgf_exists", label, fstr(t), got)))
        if variant not in HAS_MGF_FLAG and r["mgf_exists"]:
            pass
    cov["grid_histogram"] = hist

    # ---- 4. location/scale rewriting: real DistTransformer vs generated transform_* ----
    ls_cases = []
    for (fam, coqname, cargs, sym, subs), r in zip(ls_meta, ls_res):
        label = {"family": fam, "sym_params": sym, "subs": {k: fstr(v) for k, v in subs.items()}}
        ctx.count({"ls": label}, nontrivial=True)
        if "error" in r or r.get("unchanged"):
            ctx.violation(f"DistTransformer:{fam}:shape", {"input": label, "result": r},
                          f"DistTransformer on {fam}({', '.join(sym)}) returned an unexpected shape: {r}", no_input=True)
            continue
        # independent oracle: E[(c0 + c1 z)^k] with z ~ new draw equals the moment of the original draw
        newp = [F(v) for _, v in r["new_params"]]
        if coqname == "exponential":
            # the model takes (numerator, denominator) as as_numer_denom() split them: read the split off the result
            lam = cargs[0] / cargs[1]
            cargs = [newp[0], newp[0] / lam]
        variant_new = {"Normal": "normal", "Uniform": "uniform", "Laplace": "laplace", "Exponential": "exponential"}[r["new_family"]]
        orig_ps = cargs if coqname != "exponential" else [cargs[0] / cargs[1]]
        K = 8
        mz = oracle_moments(variant_new, newp, K)
        mo = oracle_moments(coqname, orig_ps, K)
        c0, c1sq = F(r["c0"]), F(r["c1_sq"])
        bad = None
        for k in range(K + 1):
            tot = F(0)
            irr = F(0)
            for j in range(k + 1):
                term = comb(k, j) * c0 ** (k - j) * mz[j]
                if j % 2 == 0:
                    tot += term * c1sq ** (j // 2)
                else:
                    # odd power of c1 = sign * sqrt(c1sq) * c1sq^(j div 2)
                    root = frac_sqrt(c1sq)
                    if root is not None:
                        tot += term * c1sq ** (j // 2) * root * r["c1_sign"]
                    else:
                        irr += term * c1sq ** (j // 2)
            if tot != mo[k] or irr != 0:
                bad = (k, tot, irr, mo[k])
                break
        if bad:
            fnd.add(f"DistTransformer:{fam}", (bad[0], 0), f"DistTransformer:{fam}:moment:{label['sym_params']}:{label['subs']}",
                    {"input": label, "rewritten": r["text"], "k": bad[0], "moment_after_rewriting": fstr(bad[1]),
                     "irrational_part": fstr(bad[2]), "true_moment": fstr(bad[3])},
                    f"rewriting {fam}({', '.join(sym)}) at {label['subs']} into `{r['text']}` changes the "
                          f"{bad[0]}-th moment: {fstr(bad[1])} (+{fstr(bad[2])}*sqrt) instead of {fstr(bad[3])}")
        ca = " ".join(lib.cq(x) for x in cargs)
        dist_t = "(" + ", ".join(lib.cq(x) for x in newp) + ")" if len(newp) > 1 else lib.cq(newp[0])
        eq_dist = (f"(Qc_eqb (fst (transform_{coqname}_dist {ca})) {lib.cq(newp[0])} && Qc_eqb (snd (transform_{coqname}_dist {ca})) {lib.cq(newp[1])})"
                   if len(newp) == 2 else f"Qc_eqb (transform_{coqname}_dist {ca}) {dist_t}")
        sign_ok = "true" if r["c1_sign"] > 0 else "false"
        ls_cases.append((f"({eq_dist} && Qc_eqb (l0 (transform_{coqname}_expr {ca})) {lib.cq(c0)} && "
                         f"Qc_eqb (sqv_sq (l1 (transform_{coqname}_expr {ca}))) {lib.cq(c1sq)} && {sign_ok})",
                         ("locscale", label, None, r["text"])))
    coq_cases["locscale"] = ls_cases

    # ---- 5. generated definitions vs real values, inside the kernel ---------------------
    k_ok = 0
    k_total = 0
    sampled = set()
    if proof_ok:
        files = []
        for variant, cases in coq_cases.items():
            per = 120
            for j in range(0, len(cases), per):
                body = CASE_HEAD
                chunk = cases[j:j + per]
                body += "Eval vm_compute in " + lib.clist([c[0] for c in chunk]) + ".\n"
                files.append((f"c08_{variant}_{j // per}", body))
        res = lib.coq_run_many(ctx, files, timeout=600)
        for variant, cases in coq_cases.items():
            per = 120
            for j in range(0, len(cases), per):
                chunk = cases[j:j + per]
                ok, out = res[f"c08_{variant}_{j // per}"]
                if not ok and out.startswith("TIMEOUT"):
                    # kernel evaluation hit its time limit: unvalidated, neither discharged nor a violation
                    cov["unvalidated_instances"] = cov.get("unvalidated_instances", 0) + len(chunk)
                    continue
                bl = lib.parse_bool_list(out) if ok else None
                cov["obligations"] += len(chunk)
                k_total += len(chunk)
                if bl is None or len(bl) != len(chunk):
                    k_mismatch.append({"variant": variant, "coq_error": out[-800:]})
                    continue
                for b, c in zip(bl, chunk):
                    if b:
                        k_ok += 1
                        cov["discharged"] += 1
                        if c[1][0] == "moment" and c[1][2] == 5 and variant not in sampled:
                            sampled.add(variant)
                            ctx.sample({"family": c[1][1]["family"], "params": c[1][1]["params"], "k": c[1][2],
                                        "get_moment": c[1][3], "generated_definition": "equal (vm_compute)",
                                        "oracle": "equal"}, limit=12)
                    else:
                        k_mismatch.append({"variant": variant, "what": c[1][0], "input": c[1][1], "arg": c[1][2],
                                           "polar": c[1][3], "coq_term": c[0]})
        # order 0 of Bernoulli: which disjunct of C08_bernoulli_moment0_decided holds
        r0 = lib.coq_run_many(ctx, [("c08_m0_refuted", MOMENT0_REFUTED), ("c08_m0_repaired", MOMENT0_REPAIRED)], timeout=300)
        refuted, repaired = r0["c08_m0_refuted"][0], r0["c08_m0_repaired"][0]
        m0_timeout = any(o.startswith("TIMEOUT") for _, o in r0.values())
        cov["obligations"] += 0 if m0_timeout else 1
        real_defect = any(v == "bernoulli" and F(r["moments"].get("0", "1")) != 1
                          for (v, _, _), r in zip(grid, results) if "error" not in r and v == "bernoulli"
                          and not isinstance(r["moments"].get("0"), dict))
        if m0_timeout:
            cov["unvalidated_instances"] = cov.get("unvalidated_instances", 0) + 1
        elif refuted != repaired and refuted == real_defect:
            cov["discharged"] += 1
            cov["bernoulli_moment0"] = ("C08_bernoulli_moment0_refuted proved about the generated definition (defect present; "
                                        "exhibited on the real code)") if refuted else \
                "C08_bernoulli_moment0 proved (repaired): get_moment(0) = 1 for all p"
            if refuted:
                cov.setdefault("theorems", []).append("C08.C08_bernoulli_moment0_refuted (case file)")
            else:
                cov.setdefault("theorems", []).append("C08.C08_bernoulli_moment0 (case file)")
        else:
            ctx.violation("Bernoulli.get_moment(0):status", {"refuted_compiles": refuted, "repaired_compiles": repaired,
                                                             "real_code_defect": real_defect,
                                                             "log": (r0["c08_m0_refuted"][1] + r0["c08_m0_repaired"][1])[-1500:]},
                          "the order-0 moment of Bernoulli is neither proved wrong nor proved right on the generated "
                          "definition consistently with the real code", no_input=True)
    cov["correspondence"] = {"instances": k_total, "equal": k_ok, "mismatch": len(k_mismatch)}

    # ---- 6. validation: cf/mgf, TruncNormal quadrature, cache staleness, float literals ----
    vstat = {"ok": 0, "ok-numeric": 0, "inconclusive": 0, "mismatch": 0, "not-implemented": 0}
    vdetail = {}
    for (variant, fam, ps), r in zip(val_meta, vres):
        label = {"family": fam, "params": [fstr(p) for p in ps]}
        if "error" in r:
            vstat["inconclusive"] += 1
            continue
        for which in ("mgf", "cf"):
            w = r.get(which)
            if w == "NotImplemented":
                vstat["not-implemented"] += 1
                continue
            if "status" in w:
                vstat["inconclusive"] += 1
                vdetail[f"{fam}({', '.join(label['params'])}).{which}"] = w["status"]
                continue
            for k, st in w.items():
                ctx.count({"val": which, "f": variant, "p": label["params"], "k": k}, nontrivial=int(k) >= 1)
                if st in ("ok", "ok-numeric"):
                    vstat[st] += 1
                    continue
                vstat["mismatch"] += 1
                if variant == "bernoulli" and k == "0":
                    # the same defect seen from the transform side: mgf(0) = 1 but get_moment(0) = p
                    fnd.add("Bernoulli.get_moment", (0, 2), "Bernoulli.get_moment(0)", {"input": label, "which": which, "k": 0, "detail": st},
                            f"Bernoulli({', '.join(label['params'])}).{which} at 0 gives {st['transform_value']} but get_moment(0) = {st['moment']}")
                    continue
                fnd.add(f"{fam}.{which}", (int(k), 0), f"{fam}.{which}:k={k}:params={label['params']}",
                        {"input": label, "which": which, "k": int(k), "detail": st,
                         "call": f"k-th Taylor coefficient at 0 of distribution_factory({fam!r}, {label['params']}).{which}(t)"},
                        f"{fam}({', '.join(label['params'])}).{which}: derivative of order {k} at 0 gives "
                        f"{st['transform_value']}, get_moment({k}) = {st['moment']}")
    cov["transform_validation"] = vstat
    cov["transform_validation_inconclusive"] = vdetail

    tn_max = 0.0
    for t, r in zip(tn_tasks, tn):
        if "error" in r:
            key = "truncnormal_refused" if r.get("etype") == "EvaluationException" else "truncnormal_inconclusive"
            cov[key] = cov.get(key, 0) + 1
            continue
        for k, v in r.items():
            if "@" in k:
                # transform value at a point t != 0 against quadrature (validation)
                which, tpt = k.split("@")
                ctx.count({"tn": t["params"], "transform": k}, nontrivial=True)
                if "error" in v:
                    cov["truncnormal_transform_inconclusive"] = cov.get("truncnormal_transform_inconclusive", 0) + 1
                    continue
                cov["truncnormal_transform_points"] = cov.get("truncnormal_transform_points", 0) + 1
                if v["abs_err"] > 1e-9 * max(1.0, abs(complex(v["true"].replace(" ", "").replace("(", "").replace(")", "")))):
                    fnd.add(f"TruncNormal.{which}", (1, 0), f"TruncNormal.{which}:t={tpt}:params={t['params']}",
                            {"input": {"family": "TruncNormal", "params": t["params"]}, "t": tpt, "polar_value": v["got"],
                             "quadrature": v["true"], "abs_err": v["abs_err"]},
                            f"TruncNormal({', '.join(t['params'])}).{which}({tpt}) = {v['got']}, quadrature of the density gives {v['true']}")
                continue
            ctx.count({"tn": t["params"], "k": k}, nontrivial=True)
            scale = max(1.0, abs(float(v["true"])))
            tn_max = max(tn_max, v["abs_err"] / scale)
            if v["abs_err"] > 1e-9 * scale:
                fnd.add("TruncNormal.get_moment", (int(k), 0), f"TruncNormal.get_moment:k={k}:params={t['params']}",
                        {"input": {"family": "TruncNormal", "params": t["params"]}, "k": int(k), "polar_value": v["got"],
                         "quadrature": v["true"], "abs_err": v["abs_err"]},
                        f"TruncNormal({', '.join(t['params'])}).get_moment({k}) = {v['got']}, quadrature {v['true']}")
    cov["truncnormal_max_rel_err"] = tn_max

    stale = []
    for t, r in zip(stale_tasks, sres):
        ctx.count({"stale": t["family"]}, nontrivial=True)
        if "error" in r:
            continue
        if not r["equal"]:
            stale.append({"family": t["family"], **{k: r[k] for k in ("before", "after", "fresh", "object")}})
    if stale:
        s0 = stale[0]
        ctx.violation("lru_cache:get_moment-after-subs",
                      {"input": {"family": s0["family"], "steps": "d.get_moment(2); d.subs({p0: value}); d.get_moment(2)"},
                       "all": stale, "polar_value": s0["after"], "true_value": s0["fresh"]},
                      f"{s0['object']}.get_moment(2) returns the cached pre-substitution value {s0['after']} instead of {s0['fresh']} "
                      f"(families affected: {', '.join(x['family'] for x in stale)})")

    for lit, r in zip(fl_meta, fres):
        ctx.count({"float": lit}, nontrivial=True)
        if "error" in r:
            ctx.violation("float_to_rational:error", {"literal": lit, "result": r}, f"Normal(0, {lit}) failed: {r}")
            continue
        want = F(lit)
        got = r["stored"].get("sigma2")
        try:
            okf = F(got) == want and F(r["moments"]["2"]) == want
        except Exception:  # noqa
            okf = False
        if not okf:
            fnd.add("float_to_rational", (len(lit), 0), f"float_to_rational:{lit}",
                    {"literal": lit, "stored": got, "exact_decimal": fstr(want), "moment2": r["moments"].get("2"),
                     "call": f"distribution_factory('Normal', ['0', '{lit}']).sigma2"},
                    f"float literal {lit} is stored as {got}, the exact decimal is {fstr(want)}")

    # ---- 7. broken translator / proof / correspondence without a differing input --------
    fnd.flush()
    n_input_violations = len(ctx.violations)
    if tr_error is not None and n_input_violations > 0:
        print(f"  (translator aborted as well: {tr_error})", flush=True)
    elif tr_error is not None:
        ctx.violation("translator-abort", {"file": tr_error.file, "line": tr_error.line, "why": tr_error.why,
                                           "oracle_search": f"{cov['evaluations']} evaluations of the real code against the oracle, "
                                                            f"{n_mismatch_oracle} moment mismatches"},
                      f"{tr_error.file}:{tr_error.line} is outside the translated subset ({tr_error.why}); the theorems of "
                      "props/C08.v no longer cover the code", no_input=True)
    elif not proof_ok:
        cov["proof_log_tail"] = _first_error(proof_log)
        if n_input_violations == 0:
            ctx.violation("proof-broken", {"log": proof_log[-3000:],
                                           "oracle_search": f"{cov['evaluations']} evaluations of the real code against the oracle found no differing input"},
                          "props/C08.v no longer checks against the definitions generated from the working tree: "
                          + _first_error(proof_log), no_input=True)
        else:
            print(f"  (props/C08.v is broken as well: {_first_error(proof_log)[:300]})", flush=True)
    if k_mismatch:
        m0 = k_mismatch[0]
        ctx.violation("correspondence:" + str(m0.get("variant")) + ":" + str(m0.get("what", "coq-error")),
                      {"mismatches": k_mismatch[:20]},
                      f"generated definition and real code disagree ({len(k_mismatch)} instances), e.g. {json.dumps(m0, default=str)[:400]}",
                      no_input=True)
    cov["rule"] = (f"grid: {npts} random admissible rational parameter points per family variant (11 variants: "
                   "Bernoulli, Categorical, DiscreteUniform, Uniform, Exponential, Gamma, Beta(2), Beta(3), Normal, Laplace, "
                   f"TruncNormal) + 13 corner points, k = 0..{kmax}; each (family, parameters, k) is one evaluation of the real "
                   "get_moment compared with the oracle and with the generated Coq definition; plus supports, flags, "
                   "mgf_exists_at at 3-7 arguments (incl. the boundary), location/scale rewritings, cf/mgf Taylor validation, "
                   "float literals, cache staleness; non-trivial = order k >= 2 or a non-moment observation; distinct by full input")


def _first_error(log):
    lines = log.splitlines()
    for i, l in enumerate(lines):
        if l.startswith("File ") or "Error" in l:
            return " ".join(lines[i:i + 6])[:600]
    return log[-400:]
