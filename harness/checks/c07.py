"""C07 — the reported basis generates all polynomial relations among the goals (PARTIAL: degree <= D).

proof part : props/C07.v — kernel_cert_sound, complete_deg_sound, no_invariants_sound: with a checked
             linear-algebra certificate, EVERY polynomial of total degree <= D (all coefficient vectors
             over the full monomial list) that vanishes on the goal sequences for all n >= n0 is a
             polynomial combination of the reported basis; for an empty basis no such non-zero
             polynomial exists.
tie        : the real InvariantIdeal.compute_basis() / CLI --invariants output (same instances as C06)
             is the basis G of the certificate; evaluation matrix recomputed in Coq from the closed forms.
search     : exact kernel of the evaluation matrix (own Fraction / tower linear algebra): a kernel
             polynomial that is validated as an invariant for all n (C06 validator) but does not reduce
             to zero modulo a Groebner basis of the reported polynomials is the concrete missing relation."""
from fractions import Fraction

import lib
import exppoly
import lattice_cert as lc
from checks import c06
from checks.c16 import t_add, t_mul, t_scale, t_one, t_zero, t_is_zero, t_inv, t_neg

MAX_M = 21


class TowerOps:
    def __init__(self, gens):
        self.gens = gens
        self.zero = t_zero(t_one(len(gens)))
        self.one = t_one(len(gens))

    def add(self, x, y):
        return t_add(x, y)

    def sub(self, x, y):
        return t_add(x, t_neg(y))

    def mul(self, x, y):
        return t_mul(x, y, self.gens)

    def inv(self, x):
        return t_inv(x, self.gens)

    def is_zero(self, x):
        return t_is_zero(x)


COST_LIMIT = 1.5e8


def choose_degree(k, maxd, logb=1.0):
    """largest D <= maxd with at most MAX_M monomials and an estimated validator cost
    (m^3 multiplications of numbers with about D*N*log2(max base) bits) within COST_LIMIT"""
    d = 1
    while d < maxd:
        m = len(lc.mons(k, d + 1))
        bits = (d + 1) * (m + 3) * max(1.0, logb)
        if m > MAX_M or m ** 3 * bits * bits > COST_LIMIT:
            break
        d += 1
    return d


def log_base_size(inst):
    import math
    big = 1.0
    for f in inst["F"]:
        for b, _ in f:
            z = abs(exppoly.field_to_complex(b, inst["gens"]))
            if z > 0:
                big = max(big, abs(math.log2(z)))
            for q in flat(b):
                big = max(big, math.log2(max(abs(q.numerator), 1)), math.log2(q.denominator))
    return big


def mon_value(es, vals, gens):
    m = t_one(len(gens))
    for e, v in zip(es, vals):
        m = t_mul(m, c06.t_pow_nat(v, e, gens), gens)
    return m


def is_rational_elem(x):
    if isinstance(x, tuple):
        return is_rational_elem(x[0]) and t_is_zero(x[1])
    return True


def rat_part(x):
    while isinstance(x, tuple):
        x = x[0]
    return x


def build(inst, maxd):
    """kernel certificate data for one prepared instance (fields added to inst); rational kernels only"""
    import sympy as sp
    gens = inst["gens"]
    k = len(inst["names"])
    D = choose_degree(k, maxd, log_base_size(inst))
    if inst.get("family", "").startswith("tuple:saturation") and k == 3:
        D = max(D, 3)  # the relations that need the saturation step have degree 3 here
    Ms = lc.mons(k, D)
    m = len(Ms)
    n0 = inst["n0"]
    ops = TowerOps(gens)
    N = m + 3
    while True:
        vals = [[c06.eval_epoly(f, n0 + t, gens) for f in inst["F"]] for t in range(N)]
        Ev = [[mon_value(es, vals[t], gens) for t in range(N)] for es in Ms]
        K, P, Q = lc.kernel_certificate(Ev, ops)
        # every kernel row must vanish at extra points too (otherwise N was too small)
        extra = [[c06.eval_epoly(f, n0 + N + t, gens) for f in inst["F"]] for t in range(6)]
        okk = True
        for row in K:
            for v in extra:
                tot = ops.zero
                for c, es in zip(row, Ms):
                    tot = ops.add(tot, ops.mul(c, mon_value(es, v, gens)))
                if not ops.is_zero(tot):
                    okk = False
        if okk or N > m + 40:
            break
        N += 8
    if not okk:
        raise exppoly.Unsupported("kernel of the evaluation matrix does not stabilise")
    if not all(is_rational_elem(x) for row in K for x in row):
        raise exppoly.Unsupported("kernel basis with irrational coefficients")
    Kq = [[rat_part(x) for x in row] for row in K]
    # rescale kernel rows to coprime integers; compensate in P
    scales = []
    K2 = []
    for row in Kq:
        den = 1
        for x in row:
            den = den * x.denominator // lc.gcd(den, x.denominator)
        ints = [int(x * den) for x in row]
        g = 0
        for x in ints:
            g = lc.gcd(g, abs(x))
        g = g or 1
        f = Fraction(den, g)
        K2.append([x * f for x in row])
        scales.append(f)
    P2 = [[t_scale(1 / f, x) for x, f in zip(row, scales)] for row in P]
    # common denominator d: the validator then multiplies integers only (P*K + Ev*Q = d*I)
    d = 1
    for M in (P2, Q):
        for row in M:
            for x in row:
                for q in flat(x):
                    d = d * q.denominator // lc.gcd(d, q.denominator)
    d = Fraction(d)
    P2 = [[t_scale(d, x) for x in row] for row in P2]
    Q = [[t_scale(d, x) for x in row] for row in Q]
    syms = [sp.Symbol(f"g{i}") for i in range(k)]
    Gs = [sum(sp.Rational(c.numerator, c.denominator) * sp.prod([s ** e for s, e in zip(syms, es)]) for c, es in poly)
          for poly in inst["basis"]]
    Gs_nz = [g for g in Gs]
    rows = []
    missing = None
    gb = sp.groebner(Gs_nz, *syms, order="lex") if Gs_nz else None
    for row in K2:
        p = sum(sp.Rational(c.numerator, c.denominator) * sp.prod([s ** e for s, e in zip(syms, es)]) for c, es in zip(row, Ms))
        if not Gs_nz:
            missing = missing or (row, p)
            rows.append((row, []))
            continue
        qs, rem = sp.reduced(p, Gs_nz, *syms, order="lex")
        if rem != 0:
            if not gb.contains(p):
                missing = missing or (row, p)
                rows.append((row, None))
                continue
            qs = cofactors_by_linear_algebra(p, Gs_nz, syms)
            if qs is None:
                raise exppoly.Unsupported("no cofactors found although the polynomial is in the ideal")
        rows.append((row, [poly_terms(q, syms) for q in qs]))
    inst.update({"k": k, "D": D, "N": N, "Ms": Ms, "K": K2, "P": P2, "Q": Q, "d": d, "rows": rows, "missing": missing,
                 "syms": [str(s) for s in syms]})


def flat(x):
    if isinstance(x, tuple):
        return flat(x[0]) + flat(x[1])
    return [x]


def poly_terms(q, syms):
    import sympy as sp
    if q == 0:
        return []
    P = sp.Poly(sp.expand(q), *syms, domain="QQ")
    return [(Fraction(int(sp.Rational(c).p), int(sp.Rational(c).q)), [int(x) for x in mon]) for mon, c in P.terms()]


def cofactors_by_linear_algebra(p, G, syms, slack=2):
    """p = sum q_i g_i with deg q_i <= deg p + slack - deg g_i, by one exact linear solve (sympy)"""
    import sympy as sp
    dp = sp.Poly(p, *syms).total_degree()
    unknowns, qs = [], []
    for i, g in enumerate(G):
        dg = sp.Poly(g, *syms).total_degree()
        q = 0
        for es in lc.mons(len(syms), max(0, dp + slack - dg)):
            u = sp.Symbol(f"u{i}_{len(unknowns)}")
            unknowns.append(u)
            q += u * sp.prod([s ** e for s, e in zip(syms, es)])
        qs.append(q)
    eq = sp.Poly(sp.expand(p - sum(q * g for q, g in zip(qs, G))), *syms)
    sol = sp.solve(eq.coeffs(), unknowns, dict=True)
    if not sol:
        return None
    sol = sol[0]
    return [sp.expand(q.subs(sol).subs({u: 0 for u in unknowns})) for q in qs]


def coq_elem_q(c, k):
    return exppoly.coq_elem(exppoly.embed(c, k))


def coq_mat(M):
    return "[" + "; ".join("[" + "; ".join(exppoly.coq_elem(x) for x in row) + "]" for row in M) + "]"


HEADER = ("From Coq Require Import List Arith QArith Qcanon.\nFrom Polar Require Import Qcx CRing ExpPoly Lattice Invariant InvariantComplete.\n"
          "Import ListNotations.\n")


def coq_term(inst):
    kk = len(inst["gens"])
    ring = exppoly.coq_ring(inst["gens"])
    G = "[" + "; ".join(c06.coq_poly(p, kk) for p in inst["basis"]) + "]"
    KC = "[" + "; ".join("([" + "; ".join(coq_elem_q(c, kk) for c in row) + "], [" +
                         "; ".join(c06.coq_poly(q, kk) for q in cof) + "])" for row, cof in inst["rows"]) + "]"
    return (f"check_complete (R := {ring}) {inst['k']} {inst['D']} {inst['n0']} {inst['N']} {c06.coq_F(inst['F'])} "
            f"{G} {KC} {coq_mat(inst['P'])} {coq_mat(inst['Q'])} {coq_elem_q(inst['d'], kk)} {coq_elem_q(1 / inst['d'], kk)}")


def pstr(row, Ms, names):
    return " + ".join("*".join([f"({c})"] + [f"{g}^{e}" for g, e in zip(names, es) if e]) for c, es in zip(row, Ms) if c)


def select(ctx):
    insts = c06.generate(ctx)
    tuples = [i for i in insts if i["kind"] == "tuple" and i["family"] != "tuple:random"]
    rnd = [i for i in insts if i["family"] == "tuple:random"]
    lin = [i for i in insts if i["family"] == "program-linear"]
    diag = [i for i in insts if i["family"] == "program-diag"]
    return tuples + rnd[:ctx.pick(10, 120)] + diag[:ctx.pick(9, 60)] + lin


def process(ctx, insts, results, tag, maxd):
    """prepare + certificate + Coq for a batch; -> list of instances with fields status / missing"""
    errs = {}
    todo = c06.prepare_all(insts, results, errs)
    ready = []
    for inst in todo:
        for key in ("missing", "rows", "status"):
            inst.pop(key, None)
        if len(inst["names"]) > 4 or inst.get("nongoal_elements"):
            inst["status"] = "skipped"
            continue
        try:
            build(inst, maxd)
        except exppoly.Unsupported as e:
            inst["status"] = "unsupported:" + str(e)[:60]
            continue
        if inst["missing"] is not None:
            inst["status"] = "missing"
            continue
        ready.append(inst)
    def coq_round(batch, tag2, timeout):
        files = []
        for j, inst in enumerate(batch):
            body = HEADER + f"Definition c : bool := {coq_term(inst)}.\nEval vm_compute in [c].\n"
            files.append((f"c07{tag}{tag2}_{j}", body))
        out = lib.coq_run_many(ctx, files, timeout=timeout)
        slow = []
        for j, inst in enumerate(batch):
            okc, o = out[f"c07{tag}{tag2}_{j}"]
            bl = lib.parse_bool_list(o) if okc else None
            if bl is not None:
                inst["status"] = "accepted" if bl[0] else "rejected"
            elif not o.strip() or o.startswith("TIMEOUT"):
                slow.append(inst)  # killed by the time limit: numbers too large at this degree
            else:
                inst["status"] = "coq-error"
                inst["coq_error"] = o[-800:]
        return slow

    slow = coq_round(ready, "", ctx.pick(150, 400))
    # time limit hit: decide the instance at a lower degree bound instead (recorded in its sample)
    for rnd in range(2):
        again = []
        for inst in slow:
            if inst["D"] <= 1:
                inst["status"] = "undecided-timeout"
                continue
            try:
                build(inst, inst["D"] - 1)
            except exppoly.Unsupported as e:
                inst["status"] = "unsupported:" + str(e)[:60]
                continue
            inst["degree_lowered"] = True
            if inst["missing"] is not None:
                inst["status"] = "missing"
            else:
                again.append(inst)
        slow = coq_round(again, f"r{rnd}", ctx.pick(150, 400)) if again else []
    for inst in slow:
        inst["status"] = "undecided-timeout"
    return todo, errs


def run(ctx):
    ok, log = lib.coq_check_props(ctx)
    if not ok:
        ctx.violation("proof-broken", {"theorem": "props/C07.v", "log": log[-3000:]}, "props/C07.v no longer checks", no_input=True)
        return
    ctx.coverage["trusted_base"] += [
        "harness certificate producers (kernel basis, P, Q, cofactors via sympy reduced/solve): untrusted, re-checked in Coq",
        "harness/exppoly.py decomposition of closed forms (as in C06)",
        "sympy groebner().contains() is trusted only for the NEGATIVE answer 'relation not in the ideal' of a reported violation",
        "generated case files evaluated by vm_compute in the kernel (no extraction)",
    ]
    ctx.assumptions += [
        "PARTIAL: completeness is decided only for polynomials of total degree <= D (quick: the largest D <= 4 with at most 15 monomials and a bounded validator cost: D = 4 or 3 for 2 goals, 2 for 3-4 goals; thorough: <= 6 with at most 21 monomials; the D used per instance is in degree_histogram); relations of higher degree are not covered",
        "the goal sequences are the closed forms past the special cases (C04/C01); inputs are sampled",
    ]
    global MAX_M, COST_LIMIT
    MAX_M = ctx.pick(15, 21)
    COST_LIMIT = ctx.pick(1.5e8, 1.5e9)
    maxd = ctx.pick(4, 6)
    insts = c06.load_replay(ctx, select(ctx))
    results = c06.run_polar(ctx, insts)
    todo, errs = process(ctx, insts, results, "a", maxd)
    hist, stat = {}, {}
    failing = []
    for inst in todo:
        fam = inst["family"].split(":")[0]
        hist[fam] = hist.get(fam, 0) + 1
        label = c06.label_of(inst)
        st = inst["status"]
        stat[st.split(":")[0]] = stat.get(st.split(":")[0], 0) + 1
        if st == "skipped" or st.startswith("unsupported") or st == "undecided-timeout":
            continue
        ctx.count({"i": label, "g": inst.get("goals")}, nontrivial=len(inst["K"]) > 0)
        ctx.coverage["obligations"] += 1
        if st == "accepted":
            ctx.coverage["discharged"] += 1
            dk = f"goals={inst['k']},D={inst['D']}"
            ctx.coverage.setdefault("degree_histogram", {})
            ctx.coverage["degree_histogram"][dk] = ctx.coverage["degree_histogram"].get(dk, 0) + 1
            ctx.sample({"input": label, "reported_basis": inst["basis_str"], "degree_bound": inst["D"], "monomials": len(inst["Ms"]),
                        "sample_points": inst["N"], "kernel_dimension": len(inst["K"]),
                        "validator": "every relation of degree <= D lies in the ideal of the reported basis" if inst["K"] else
                        "no non-zero relation of degree <= D exists"})
        elif st == "missing":
            failing.append(inst)
        elif st == "coq-error":
            ctx.violation(f"coq-case-error:{label}", {"input": label, "log": inst["coq_error"]}, "certificate instance does not compile", no_input=True)
        else:
            ctx.violation(f"certificate-rejected:{label}", {"input": label, "basis": inst["basis_str"], "D": inst["D"]},
                          "completeness certificate rejected by the validator although all kernel polynomials reduce to zero", no_input=True)
    # the missing relation must really be an invariant for ALL n: C06 validator
    files = []
    for j, inst in enumerate(failing):
        row, _ = inst["missing"]
        poly = [(c, es) for c, es in zip(row, inst["Ms"]) if c]
        inst["missing_poly"] = poly
        ring = exppoly.coq_ring(inst["gens"])
        files.append((f"c07m_{j}", c06.HEADER + f"Eval vm_compute in [check_invariant (R := {ring}) {c06.coq_poly(poly, len(inst['gens']))} {c06.coq_F(inst['F'])}].\n"))
    outm = lib.coq_run_many(ctx, files)
    # causal attribution to the C16 defect: same re-run as C06 with the true exponent lattice
    cand = []
    for inst in failing:
        if c06.exp_bases_trigger_c16(inst["exp_bases"]):
            tl = c06.true_lattice_for(inst["exp_bases"])
            if tl is not None:
                inst["true_lattice"] = tl
                inst["first"] = {"basis_str": inst["basis_str"], "missing": inst["missing"], "Ms": inst["Ms"], "names": inst["names"],
                                 "D": inst["D"], "exprs": inst["exprs"], "missing_poly": inst["missing_poly"]}
                cand.append(inst)
    causal = {}
    if cand:
        res2 = c06.run_polar(ctx, cand, override=True)
        done2, _ = process(ctx, cand, res2, "b", maxd)
        for inst in done2:
            causal[id(inst)] = inst.get("status") == "accepted"
    ctx.coverage["incomplete_bases_attributed_to_C16"] = sum(1 for v in causal.values() if v)
    for j, inst in enumerate(failing):
        first = inst.get("first") or {"basis_str": inst["basis_str"], "missing": inst["missing"], "Ms": inst["Ms"], "names": inst["names"],
                                      "D": inst["D"], "exprs": inst["exprs"], "missing_poly": inst["missing_poly"]}
        label = c06.label_of(inst)
        okc, o = outm[f"c07m_{j}"]
        bl = lib.parse_bool_list(o) if okc else None
        rel = pstr(first["missing"][0], first["Ms"], first["names"])
        if not bl or not bl[0]:
            ctx.violation(f"kernel-polynomial-not-validated:{label}", {"input": label, "polynomial": rel},
                          f"kernel polynomial {rel} is not in the reported ideal but was not validated as an invariant", no_input=True)
            continue
        sig = f"missing-relation:{label}:{rel}"
        new = ctx.violation(sig, {"input": label, "instance": c06.raw_instance(inst), "goals": inst.get("goals") or first["names"], "closed_forms": first["exprs"],
                                  "reported_basis": first["basis_str"], "missing_relation": rel, "degree_bound": first["D"],
                                  "relation_validated_for_all_n": True,
                                  "basis_with_true_exponent_lattice": inst["basis_str"] if causal.get(id(inst)) else None},
                            f"{rel} vanishes on the goal sequences {first['exprs']} for ALL n (validated) but is not in the ideal "
                            f"generated by the reported basis {first['basis_str']}")
        stat["missing-relation"] = stat.get("missing-relation", 0) + 1
        if not new:
            ctx.coverage["discharged"] += 1
    ctx.coverage["rule"] = ("instances of C06 (closed-form tuples through InvariantIdeal, programs through the CLI path) with at most 4 goals; "
                            "one evaluation = one completeness certificate for degree <= D; non-trivial = the degree-D kernel is non-zero; "
                            "distinct by input")
    ctx.coverage["family_histogram"] = hist
    ctx.coverage["decisions"] = stat
    ctx.coverage["polar_errors"] = errs
