"""C06 — every reported polynomial invariant holds on the goal sequences.

proof part : props/C06.v — check_invariant_sound over any commutative ring: a basis polynomial whose
             image in the exponential-polynomial ring normalises to zero vanishes on the closed
             forms at EVERY n (hence on the goal sequences past Polar's special cases).
tie        : the real InvariantIdeal(closed_forms).compute_basis() on generated closed-form tuples
             whose exponential bases collide, and the real CLI path (ArgumentParser -> ActionFactory
             -> GoalsAction --invariants) on generated loop programs, both inside the Polar worker;
             every returned basis element is decided by the Coq validator (vm_compute).
search     : basis elements are evaluated on exact sequence values for n0 <= n <= 40 (programs: the
             sequences are produced by the generator's own exact iteration, not by Polar)."""
from fractions import Fraction

import lib
import exppoly
import lattice_cert as lc
from checks.c16 import t_add, t_mul, t_scale, t_one, t_zero, t_is_zero

NMAX = 40


# ---- generators ----------------------------------------------------------------------------
TUPLES = [
    ("collide-4-8", [("a", "4**n"), ("b", "8**n")]),
    ("collide-8-4", [("a", "8**n"), ("b", "4**n")]),
    ("collide-2-half", [("a", "2**n"), ("b", "2**(-n)")]),
    ("collide-m2-4", [("a", "(-2)**n"), ("b", "4**n")]),
    ("collide-phi-psi", [("a", "((1+sqrt(5))/2)**n"), ("b", "((1-sqrt(5))/2)**n")]),
    ("collide-4-half", [("a", "4**n"), ("b", "(1/2)**n")]),
    ("collide-9-27", [("a", "9**n"), ("b", "27**n"), ("c", "3**n")]),
    ("collide-m4-8", [("a", "(-4)**n"), ("b", "8**n")]),
    ("poly-only", [("x", "n"), ("y", "n**2"), ("z", "n**3 + 1")]),
    ("poly-exp", [("x", "n*2**n"), ("y", "2**n"), ("z", "n")]),
    ("sum-of-exps", [("x", "2**n + 3**n"), ("y", "4**n + 9**n + 2*6**n"), ("z", "6**n")]),
    ("fib-binet", [("f", "(((1+sqrt(5))/2)**n - ((1-sqrt(5))/2)**n)/sqrt(5)"),
                   ("g", "((1+sqrt(5))/2)**n + ((1-sqrt(5))/2)**n")]),
    ("units", [("a", "(-1)**n"), ("b", "2**n"), ("c", "(-2)**n")]),
    ("complex", [("a", "I**n + (-I)**n"), ("b", "(-1)**n")]),
    ("sqrt-pair", [("a", "(1+sqrt(2))**n"), ("b", "(1-sqrt(2))**n"), ("c", "(-1)**n")]),
    ("const-shift", [("a", "3*4**n + 1"), ("b", "8**n - 2"), ("c", "2**n")]),
    ("no-relation", [("a", "2**n"), ("b", "3**n")]),
    ("coprime-with-n", [("a", "2**n + n"), ("b", "3**n")]),
]


def rand_tuple(rng):
    pools = [["2", "4", "8", "1/2", "-2", "16", "1/4"], ["3", "9", "27", "1/3", "-3"], ["2", "3", "6", "4", "9", "12", "18"],
             ["2", "-1", "-2", "4"]]
    pool = rng.choice(pools)
    k = rng.choice([2, 2, 3, 3, 4])
    out = []
    for i in range(k):
        terms = []
        for _ in range(rng.choice([1, 1, 1, 2])):
            b = rng.choice(pool)
            c = rng.choice([1, 1, 1, 2, -1, 3])
            d = rng.choice([0, 0, 0, 0, 1])
            t = f"({b})**n"
            if d:
                t = "n*" + t
            if c != 1:
                t = f"({c})*" + t
            terms.append(t)
        if rng.random() < 0.15:
            terms.append(str(rng.choice([1, -1, 2])))
        out.append(("abcd"[i], " + ".join(terms)))
    if rng.random() < 0.2:
        out.append(("m", "n"))
    return out


def diag_program(rng, forced=None):
    """independent multiplicative updates  x = c*x  or  x = c1*x {p} c2*x ; goals E(x^k).
    The k-th moment is v^k * r^n with r = sum p_j c_j^k  (oracle, exact)."""
    pool = [Fraction(2), Fraction(4), Fraction(8), Fraction(1, 2), Fraction(-2), Fraction(3), Fraction(9), Fraction(6),
            Fraction(1, 4), Fraction(16), Fraction(27)]
    names = ["a", "b", "c"]
    k = rng.choice([2, 2, 3])
    spec = forced or []
    if not spec:
        for i in range(k):
            if rng.random() < 0.3:
                c1, c2 = rng.choice(pool), rng.choice(pool)
                spec.append((names[i], [(Fraction(1, 2), c1), (Fraction(1, 2), c2)]))
            else:
                spec.append((names[i], [(Fraction(1), rng.choice(pool))]))
    prob = any(len(br) > 1 for _, br in spec)
    lines = [f"{v} = 1" for v, _ in spec] + ["while true:"]
    for v, br in spec:
        if len(br) == 1:
            lines.append(f"    {v} = ({br[0][1]})*{v}")
        else:
            lines.append(f"    {v} = ({br[0][1]})*{v} {{{br[0][0]}}} ({br[1][1]})*{v}")
    lines.append("end")
    goals, ratios = [], []
    for v, br in spec:
        pows = [1] if (len(br) == 1 or rng.random() < 0.5) else [1, 2]
        for p in pows:
            goals.append(f"E({v})" if p == 1 else f"E({v}**{p})")
            ratios.append(sum(pr * c ** p for pr, c in br))
    return {"family": "program-diag", "program": "\n".join(lines) + "\n", "goals": goals, "probabilistic": prob,
            "oracle": ("geometric", [str(r) for r in ratios])}


def linear_program(name):
    progs = {
        "fib": ("x = 1\ny = 0\nwhile true:\n    x, y = x + y, x\nend\n", ["E(x)", "E(y)"], [[1, 1], [1, 0]], [1, 0]),
        "counter-pow": ("a = 1\nb = 1\nc = 0\nwhile true:\n    a = 2*a\n    b = 4*b\n    c = c + 1\nend\n",
                        ["E(a)", "E(b)", "E(c)"], [[2, 0, 0, 0], [0, 4, 0, 0], [0, 0, 1, 1], [0, 0, 0, 1]], [1, 1, 0, 1]),
        "pythagorean": ("a = 3\nb = 4\nc = 5\nwhile true:\n    a, b, c = 2*a + 1*b + 2*c, 1*a + 2*b + 2*c, 2*a + 2*b + 3*c\nend\n",
                        ["E(a)", "E(b)", "E(c)"], [[2, 1, 2], [1, 2, 2], [2, 2, 3]], [3, 4, 5]),
        "sum-squares": ("s = 0\ni = 0\nwhile true:\n    i = i + 1\n    s = s + i\nend\n", ["E(s)", "E(i)"],
                        [[1, 1, 1], [0, 1, 1], [0, 0, 1]], [0, 0, 1]),
    }
    text, goals, A, v = progs[name]
    return {"family": "program-linear", "program": text, "goals": goals, "probabilistic": False,
            "oracle": ("matrix", A, v, len(goals))}


def generate(ctx):
    rng = ctx.rng
    out = []
    for name, cfs in TUPLES:
        out.append({"family": "tuple:" + name, "kind": "tuple", "cfs": cfs})
    for _ in range(ctx.pick(40, 400)):
        out.append({"family": "tuple:random", "kind": "tuple", "cfs": rand_tuple(rng)})
    F = Fraction
    forced = [
        [("a", [(F(1), F(4))]), ("b", [(F(1), F(8))])],
        [("a", [(F(1), F(2))]), ("b", [(F(1), F(1, 2))])],
        [("a", [(F(1), F(-2))]), ("b", [(F(1), F(4))])],
        [("a", [(F(1, 2), F(2)), (F(1, 2), F(6))]), ("b", [(F(1), F(8))])],
        [("a", [(F(1), F(9))]), ("b", [(F(1), F(27))])],
        [("a", [(F(1), F(8))]), ("b", [(F(1), F(4))])],
    ]
    for sp in forced:
        d = diag_program(rng, forced=sp)
        d["kind"] = "program"
        out.append(d)
    for _ in range(ctx.pick(10, 80)):
        d = diag_program(rng)
        d["kind"] = "program"
        out.append(d)
    for nm in ("fib", "counter-pow", "pythagorean", "sum-squares"):
        d = linear_program(nm)
        d["kind"] = "program"
        out.append(d)
    return out


# ---- instance preparation (shared with C07) --------------------------------------------------
def parse_fr(s):
    return Fraction(s)


def prepare(inst, res):
    """sympy closed forms -> n0, gens, F (tower exp-poly data), names, basis polynomials"""
    import sympy as sp
    n = sp.Symbol("n", integer=True)
    if inst["kind"] == "tuple":
        names = [g for g, _ in inst["cfs"]]
        exprs = [sp.sympify(s, locals={"n": n}) for _, s in inst["cfs"]]
    else:
        names = res["goal_ids"]
        exprs = [sp.sympify(s, locals={"n": n}) for _, s in res["closed_forms"]]
    ks, gen_exprs = [], []
    for e in exprs:
        k, g = exppoly.split_piecewise(e, n)
        ks.append(k)
        gen_exprs.append(g)
    n0 = max(ks) if ks else 0
    dec = [exppoly.decompose(g, n) for g in gen_exprs]
    consts = [c for d in dec for b, cs in d for c in [b] + list(cs)]
    gens = exppoly.field_of(consts)
    F = [[(exppoly.to_field(b, gens), [exppoly.to_field(c, gens) for c in cs]) for b, cs in d] for d in dec]
    # numeric cross-check of the decomposition against the sympy expression
    for g, f in zip(gen_exprs, F):
        for i in (n0, n0 + 1, n0 + 3):
            want = complex(sp.N(g.subs(n, i), 30))
            got = exppoly.field_to_complex(eval_epoly(f, i, gens), gens)
            if abs(want - got) > 1e-9 * max(1, abs(want)):
                raise exppoly.Unsupported(f"decomposition of {g} differs at n={i}")
    inst.update({"names": names, "n0": n0, "gens": gens, "F": F, "exprs": [str(e) for e in exprs]})
    inst["basis"] = [[(parse_fr(c), list(es)) for c, es in poly] for poly in res["basis"] if poly is not None]
    inst["nongoal_elements"] = res.get("nongoal_elements", [])
    inst["basis_str"] = res.get("basis_str")
    inst["exp_bases"] = res.get("exp_bases", [])
    inst["printed"] = res.get("printed")


def t_pow_nat(x, e, gens):
    r = t_one(len(gens))
    for _ in range(e):
        r = t_mul(r, x, gens)
    return r


def eval_epoly(f, n, gens):
    k = len(gens)
    tot = t_zero(t_one(k))
    for b, cs in f:
        p = t_zero(t_one(k))
        for d, c in enumerate(cs):
            p = t_add(p, t_scale(Fraction(n) ** d, c))
        tot = t_add(tot, t_mul(t_pow_nat(b, n, gens), p, gens))
    return tot


def eval_poly(poly, vals, gens):
    k = len(gens)
    tot = t_zero(t_one(k))
    for c, es in poly:
        m = t_one(k)
        for e, v in zip(es, vals):
            m = t_mul(m, t_pow_nat(v, e, gens), gens)
        tot = t_add(tot, t_scale(c, m))
    return tot


def oracle_values(inst, n):
    """exact goal values at n produced WITHOUT Polar (programs), else None"""
    orc = inst.get("oracle")
    if not orc:
        return None
    if orc[0] == "geometric":
        return [Fraction(r) ** n for r in orc[1]]
    _, A, v, ng = orc
    cur = [Fraction(x) for x in v]
    for _ in range(n):
        cur = [sum(Fraction(a) * b for a, b in zip(row, cur)) for row in A]
    return cur[:ng]


def sequence_values(inst, n):
    """goal values at n as tower elements: generator's oracle when there is one, else the closed forms"""
    ov = oracle_values(inst, n)
    k = len(inst["gens"])
    if ov is not None:
        return [exppoly.embed(x, k) for x in ov]
    return [eval_epoly(f, n, inst["gens"]) for f in inst["F"]]


def coq_poly(poly, k):
    return "[" + "; ".join(f"({exppoly.coq_elem(exppoly.embed(c, k))}, [" + "; ".join(str(e) for e in es) + "]%nat)"
                           for c, es in poly) + "]"


def coq_F(F):
    return "[" + "; ".join(exppoly.coq_epoly(f) for f in F) + "]"


HEADER = ("From Coq Require Import List Arith QArith Qcanon.\nFrom Polar Require Import Qcx CRing ExpPoly Invariant.\n"
          "Import ListNotations.\n")


def exp_bases_trigger_c16(exp_bases):
    """do the exponent bases (in Polar's order) hit the known C16 defect?  decided by the harness's
    own twin of the rational-nullspace computation, not by Polar"""
    import sympy as sp
    try:
        bs = [sp.sympify(b) for b in exp_bases]
    except Exception:
        return False
    if not bs or not all(b.is_Rational for b in bs):
        return False
    fr = [Fraction(int(b.p), int(b.q)) for b in bs]
    if lc.trivially_empty_twin(fr):
        return False
    primes, facts = lc.factor_rationals(fr)
    return not lc.nullspace_is_integral(primes, facts)


def run_polar(ctx, insts, override=False):
    tasks = []
    for i in insts:
        if i["kind"] == "tuple":
            t = {"kind": "invariant_ideal", "closed_forms": [[g, s] for g, s in i["cfs"]], "timeout": ctx.pick(60, 180)}
        else:
            t = {"kind": "program_invariants", "program": i["program"], "goals": i["goals"], "timeout": ctx.pick(90, 240)}
        if override:
            t["lattice_override"] = {"bases": i["exp_bases"], "basis": i["true_lattice"]}
        tasks.append(t)
    return lib.run_tasks(tasks, timeout=ctx.pick(90, 240))


def raw_instance(inst):
    """the generator's description of an instance (JSON), enough to re-run it with --replay"""
    keys = ("family", "kind", "cfs", "program", "goals", "probabilistic", "oracle")
    return {k: inst[k] for k in keys if k in inst}


def load_replay(ctx, insts):
    if not ctx.replay:
        return insts
    import json
    with open(ctx.replay) as f:
        rp = json.load(f)
    inst = rp["instance"]
    if "cfs" in inst:
        inst["cfs"] = [tuple(x) for x in inst["cfs"]]
    if "oracle" in inst:
        inst["oracle"] = tuple(inst["oracle"])
    return [inst]


def label_of(inst):
    return inst.get("program") or inst["cfs"]


def validate(ctx, todo, tag):
    """Coq validator + exact evaluation for every basis element of the prepared instances.
    -> inst["verdicts"] = list of dicts {poly, pstr, accepted, bad (n, value) | None}"""
    files, per = [], 30
    for j in range(0, len(todo), per):
        body, names = HEADER, []
        for i, inst in enumerate(todo[j:j + per]):
            ring = exppoly.coq_ring(inst["gens"])
            body += f"Definition F{i} : list (epoly {ring}) := {coq_F(inst['F'])}.\n"
            for b, poly in enumerate(inst["basis"]):
                nm = f"c{i}_{b}"
                body += f"Definition {nm} : bool := check_invariant (R := {ring}) {coq_poly(poly, len(inst['gens']))} F{i}.\n"
                names.append(nm)
        body += "Eval vm_compute in [" + "; ".join(names) + "].\n"
        files.append((f"c06{tag}_{j // per}", body))
    out = lib.coq_run_many(ctx, files)
    for j in range(0, len(todo), per):
        okc, o = out[f"c06{tag}_{j // per}"]
        bl = lib.parse_bool_list(o) if okc else None
        pos = 0
        for inst in todo[j:j + per]:
            inst["verdicts"] = []
            inst.pop("coq_error", None)
            if bl is None:
                inst["coq_error"] = o[-800:]
            for poly in inst["basis"]:
                acc = bl[pos] if bl is not None and pos < len(bl) else None
                pos += 1
                bad = None
                for n in range(inst["n0"], NMAX + 1):
                    val = eval_poly(poly, sequence_values(inst, n), inst["gens"])
                    if not t_is_zero(val):
                        bad = (n, val)
                        break
                pstr = " + ".join("*".join([f"({c})"] + [f"{g}^{e}" for g, e in zip(inst["names"], es) if e]) for c, es in poly)
                inst["verdicts"].append({"poly": poly, "pstr": pstr, "accepted": acc, "bad": bad})


def prepare_all(insts, results, errs):
    todo = []
    for inst, res in zip(insts, results):
        inst.pop("polar_error", None)
        if "error" in res:
            key = res.get("etype", res["error"])
            errs[key] = errs.get(key, 0) + 1
            inst["polar_error"] = res
            continue
        try:
            prepare(inst, res)
        except exppoly.Unsupported as e:
            errs["unsupported:" + str(e)[:40]] = errs.get("unsupported:" + str(e)[:40], 0) + 1
            continue
        todo.append(inst)
    return todo


def true_lattice_for(exp_bases):
    """Polar-independent basis of the exponent lattice of rational bases (None if not all rational)"""
    import sympy as sp
    try:
        bs = [sp.sympify(b) for b in exp_bases]
    except Exception:
        return None
    if not bs or not all(b.is_Rational and b != 0 for b in bs):
        return None
    fr = [Fraction(int(b.p), int(b.q)) for b in bs]
    return lc.true_rational_lattice(fr)[0]


def run(ctx):
    ok, log = lib.coq_check_props(ctx)
    if not ok:
        ctx.violation("proof-broken", {"theorem": "props/C06.v", "log": log[-3000:]}, "props/C06.v no longer checks", no_input=True)
        return
    ctx.coverage["trusted_base"] += [
        "harness/exppoly.py decomposition of closed forms into exponential polynomials over Q / quadratic towers (untrusted for acceptance: the validator re-evaluates; identification with the sympy expression cross-checked numerically)",
        "generated case files evaluated by vm_compute in the kernel (no extraction)",
    ]
    ctx.assumptions += [
        "that the closed forms equal the loop's goal quantities is C04/C01's theorem; here they are additionally compared with the generator's exact sequences for n <= 40 on every program",
        "closed-form tuples and programs are sampled; each accepted basis element is a theorem for ALL n",
    ]
    insts = load_replay(ctx, generate(ctx))
    results = run_polar(ctx, insts)
    errs, hist, stat = {}, {}, {}
    todo = prepare_all(insts, results, errs)
    validate(ctx, todo, "a")
    failing = []
    for inst in todo:
        fam = inst["family"].split(":")[0]
        hist[fam] = hist.get(fam, 0) + 1
        label = label_of(inst)
        ctx.count({"i": label, "g": inst.get("goals")}, nontrivial=len(inst["basis"]) > 0)
        if "coq_error" in inst:
            ctx.violation(f"coq-case-error:{label}", {"input": label, "log": inst["coq_error"]},
                          "generated validator instance does not compile", no_input=True)
            continue
        n0 = inst["n0"]
        # programs: closed forms against the generator's own sequences
        if inst.get("oracle"):
            k = len(inst["gens"])
            for n in range(n0, NMAX + 1):
                cf = [eval_epoly(f, n, inst["gens"]) for f in inst["F"]]
                tr = [exppoly.embed(x, k) for x in oracle_values(inst, n)]
                if cf != tr:
                    ctx.violation(f"closed-form-differs:{inst['program']}",
                                  {"program": inst["program"], "goals": inst["goals"], "n": n, "closed_forms": inst["exprs"],
                                   "true_values": [str(x) for x in oracle_values(inst, n)]},
                                  f"closed forms {inst['exprs']} of {inst['goals']} differ from the exact sequence at n={n}")
                    break
        for el in inst.get("nongoal_elements", []):
            ctx.coverage["obligations"] += 1
            ctx.violation(f"non-goal-symbol-in-basis:{label}:{el}",
                          {"input": label, "element": el, "closed_forms": inst["exprs"]},
                          f"reported basis element {el} of {inst['names']} mentions symbols that are not goals (n or an exponential placeholder)")
        for v in inst["verdicts"]:
            ctx.coverage["obligations"] += 1
            if v["accepted"] and v["bad"] is None:
                ctx.coverage["discharged"] += 1
                stat["invariant-proved"] = stat.get("invariant-proved", 0) + 1
                ctx.sample({"input": label, "invariant": v["pstr"], "all_invariants": inst["basis_str"],
                            "validator": f"accepted: holds for all n >= {n0}"})
            elif v["bad"] is None:
                ctx.violation(f"unvalidated-invariant:{label}:{v['pstr']}",
                              {"input": label, "invariant": v["pstr"], "closed_forms": inst["exprs"]},
                              f"validator rejected {v['pstr']} but it vanishes for n0 <= n <= {NMAX}", no_input=True)
        if any(v["bad"] is not None for v in inst["verdicts"]):
            inst["first_verdicts"] = inst["verdicts"]
            inst["first_basis_str"] = inst["basis_str"]
            failing.append(inst)
        if not inst["basis"]:
            stat["empty-basis"] = stat.get("empty-basis", 0) + 1
        if inst["kind"] == "program" and sorted(inst.get("printed") or []) != sorted(inst["basis_str"] or []):
            ctx.violation(f"cli-prints-other-basis:{label}", {"input": label, "printed": inst.get("printed"), "observed": inst["basis_str"]},
                          "the 'Invariants' section printed by the CLI is not the basis observed at InvariantIdeal.compute_basis()",
                          no_input=True)
    # ---- root cause of false invariants: re-run the REAL InvariantIdeal with only ExponentLattice.compute_basis
    # replaced (from the harness, in the worker) by the true lattice computed independently.  If every element is
    # then a proved invariant, the false invariant comes from the known C16 defect and nothing else.
    causal = {}
    cand = []
    for inst in failing:
        tl = true_lattice_for(inst["exp_bases"]) if exp_bases_trigger_c16(inst["exp_bases"]) else None
        if tl is not None:
            inst["true_lattice"] = tl
            cand.append(inst)
    if cand:
        res2 = run_polar(ctx, cand, override=True)
        ok2 = prepare_all(cand, res2, {})
        validate(ctx, ok2, "b")
        for inst in ok2:
            causal[id(inst)] = ("coq_error" not in inst and not inst.get("nongoal_elements")
                                and all(v["accepted"] and v["bad"] is None for v in inst["verdicts"]))
    ctx.coverage["false_invariants_attributed_to_C16"] = sum(1 for x in causal.values() if x)
    for inst in failing:
        label = label_of(inst)
        for v in inst["first_verdicts"]:
            if v["bad"] is None:
                continue
            sig = f"false-invariant:{label}:{v['pstr']}"
            new = ctx.violation(sig, {"input": label, "instance": raw_instance(inst), "goals": inst.get("goals") or inst["names"], "closed_forms": inst["exprs"],
                                      "invariant": v["pstr"], "basis": inst["first_basis_str"], "n": v["bad"][0],
                                      "value_at_n": str(exppoly.field_to_complex(v["bad"][1], inst["gens"])),
                                      "exp_bases": inst["exp_bases"], "validator_accepted": v["accepted"],
                                      "basis_with_true_exponent_lattice": inst["basis_str"] if causal.get(id(inst)) else None,
                                      "call": "InvariantIdeal(closed_forms).compute_basis()" if inst["kind"] == "tuple" else "polar.py --goals ... --invariants"},
                                f"reported invariant {v['pstr']} = 0 of {inst['names']} with closed forms {inst['exprs']} "
                                f"is non-zero at n={v['bad'][0]}")
            stat["false-invariant"] = stat.get("false-invariant", 0) + 1
            if not new:
                ctx.coverage["discharged"] += 1
    ctx.coverage["rule"] = ("closed-form tuples (fixed colliding-base lists + random) through InvariantIdeal, and generated loop programs "
                            "through the CLI path GoalsAction --invariants; one evaluation = one basis computation; obligations = basis "
                            "elements; non-trivial = non-empty basis; distinct by input")
    ctx.coverage["family_histogram"] = hist
    ctx.coverage["decisions"] = stat
    ctx.coverage["polar_errors"] = errs
    for inst in insts:
        pe = inst.get("polar_error")
        if pe and pe.get("error") not in ("timeout",):
            label = label_of(inst)
            ctx.violation(f"exception:{label}:{pe.get('etype')}", {"input": label, "error": pe},
                          f"invariant computation raised {pe.get('etype')}: {str(pe.get('msg'))[:200]}", no_input=True)
