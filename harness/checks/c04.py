"""C04 — solved closed forms reproduce the linear recurrence sequence for all n.

proof part : props/C04.v (check_solution_sound over any commutative ring, accepted_agree)
tie        : every closed form Polar's two solvers return for generated systems is
             decomposed (untrusted) and fed to the verified validator, evaluated by the Coq
             kernel (vm_compute); acceptance gives 'equal to A^n v for ALL n' for that instance.
search     : exact iteration of A^n v (Fractions) against the closed form's values."""
from fractions import Fraction

import lib
import exppoly
import systems


def dec(x):
    if isinstance(x, list):
        return (dec(x[0]), dec(x[1]))
    return Fraction(x)


def coq_case(inst):
    """-> Coq term of type bool for one instance (dict from task_solve)"""
    cf = inst["cf"]
    gens = cf["gens"]
    k = len(gens)
    ring = exppoly.coq_ring(gens)
    A = [[exppoly.embed(Fraction(x), k) for x in row] for row in inst["A"]]
    v = [exppoly.embed(Fraction(x), k) for x in inst["v"]]
    F = [[(dec(b), [dec(c) for c in cs]) for b, cs in f] for f in cf["general"]]
    sp = [[dec(c) for c in row] for row in cf["specials"]]
    cl = exppoly.coq_list
    ce = exppoly.coq_elem
    return (f"(check_solution (R:={ring}) {cl([cl([ce(x) for x in r]) for r in A])} {cl([ce(x) for x in v])} "
            f"{cl([exppoly.coq_epoly(f) for f in F])} {cl([cl([ce(x) for x in r]) for r in sp])})")


def iterate(A, v, n):
    A = [[Fraction(x) for x in r] for r in A]
    cur = [Fraction(x) for x in v]
    out = [cur]
    for _ in range(n):
        cur = [sum(a * b for a, b in zip(r, cur)) for r in A]
        out.append(cur)
    return out


def first_mismatch(inst):
    """compare the closed form's own values with exact iteration; -> (n, comp, polar, true) or None"""
    vals = inst.get("values")
    if not vals:
        return None
    try:
        truth = iterate(inst["A"], inst["v"], len(vals))
    except Exception:
        return None
    for n, row in enumerate(vals):
        for i, s in enumerate(row):
            t = truth[n][i]
            if s.startswith("~"):
                try:
                    z = complex(s[1:].replace("*I", "j").replace(" ", ""))
                except Exception:
                    continue
                if abs(z - complex(t)) > 1e-9 * max(1, abs(t)):
                    return (n, i, s, str(t))
            elif Fraction(s) != t:
                return (n, i, s, str(t))
    return None


def validate_instances(ctx, labelled, prop_sig_prefix=""):
    """labelled: list of (label_obj, inst).  Runs the Coq validator on all supported
    instances.  Returns list of dicts {label, status: accepted|rejected|unsupported, mismatch}."""
    cases = []
    out = []
    for lab, inst in labelled:
        rec = {"label": lab, "inst": inst, "status": "unsupported", "mismatch": first_mismatch(inst)}
        if "cf" in inst:
            try:
                rec["term"] = coq_case(inst)
                cases.append(rec)
            except Exception as e:  # noqa
                rec["why"] = str(e)
        else:
            rec["why"] = inst.get("unsupported", "no decomposition")
        out.append(rec)
    files = []
    per = 20
    for j in range(0, len(cases), per):
        chunk = cases[j:j + per]
        body = ("From Coq Require Import List QArith Qcanon.\nFrom Polar Require Import Qcx CRing ExpPoly ClosedForm.\n"
                "Import ListNotations.\n")
        # one definition per case so that a pathological one is easy to locate
        names = []
        for i, c in enumerate(chunk):
            body += f"Definition c{i} : bool := {c['term']}.\n"
            names.append(f"c{i}")
        body += "Eval vm_compute in [" + "; ".join(names) + "].\n"
        files.append((f"c04_{j // per}", body))
    res = lib.coq_run_many(ctx, files)
    for j in range(0, len(cases), per):
        ok, o = res[f"c04_{j // per}"]
        bl = lib.parse_bool_list(o) if ok else None
        chunk = cases[j:j + per]
        for i, c in enumerate(chunk):
            if not ok and o.startswith("TIMEOUT"):
                c["status"] = "unsupported"
                c["why"] = "validator time limit"
            elif bl is None or len(bl) != len(chunk):
                c["status"] = "coq-error"
                c["why"] = o[-600:]
            else:
                c["status"] = "accepted" if bl[i] else "rejected"
    return out


def zero_root_signature(sysd, solver):
    """classify the known defect shapes by the structure of the system (for known findings):
    multiplicity of the eigenvalue 0 of A"""
    import sympy as sp
    A = sp.Matrix([[sp.Rational(x) for x in r] for r in sysd])
    x = sp.Symbol("x")
    cp = A.charpoly(x).as_expr()
    z = 0
    while sp.rem(cp, x, x) == 0 and cp != 0:
        cp = sp.quo(cp, x, x)
        z += 1
    return z


def run(ctx):
    ok, log = lib.coq_check_props(ctx)
    if not ok:
        ctx.violation("proof-broken", {"theorem": "props/C04.v", "log": log[-3000:]},
                      "props/C04.v no longer checks", no_input=True)
        return
    ctx.coverage["trusted_base"] += [
        "harness/exppoly.py decomposition of sympy closed forms (untrusted: the validator re-evaluates it)",
        "generated case files evaluated by vm_compute in the kernel (no extraction)",
    ]
    ctx.assumptions += [
        "parameters are instantiated at rational points before validation (theorem then holds for all n at those points)",
        "roots outside towers of <=3 quadratic extensions of Q are only compared numerically for n < 12",
    ]
    nsys = ctx.pick(70, 700)
    syss = systems.generate(ctx.rng, nsys)
    rd = lib.replay_data(ctx)
    if rd and "system" in rd:
        lab0 = rd["system"]
        t0 = {"mons": lab0["mons"], "A": lab0["A"], "v": lab0["v"]}
        if lab0.get("point"):
            t0["params"] = sorted(lab0["point"])
            t0["points"] = [lab0["point"]]
        syss = [{"family": "replay", "task": t0}]
    tasks = []
    for s in syss:
        for force in (False, True):
            t = dict(s["task"])
            t["kind"] = "solve"
            t["force_cyclic"] = force
            t["timeout"] = 90
            tasks.append((s, force, t))
    results = lib.run_tasks([t for _, _, t in tasks], timeout=90)
    labelled = []
    hist = {}
    errs = {}
    for (s, force, t), r in zip(tasks, results):
        if "error" in r:
            key = r.get("etype", r["error"])
            errs[key] = errs.get(key, 0) + 1
            continue
        for inst in r["instances"]:
            lab = {"family": s["family"], "mons": t["mons"], "A": t["A"], "v": t["v"], "force_cyclic": force,
                   "solver": r["solver"], "point": inst["point"], "sols": r["sols"], "is_exact": r["is_exact"]}
            labelled.append((lab, inst))
    out = validate_instances(ctx, labelled)
    stat = {}
    for rec in out:
        lab = rec["label"]
        fam = lab["family"]
        hist[fam] = hist.get(fam, 0) + 1
        stat[rec["status"]] = stat.get(rec["status"], 0) + 1
        ctx.count({"A": lab["A"], "v": lab["v"], "f": lab["force_cyclic"], "p": lab["point"]},
                  nontrivial=len(lab["A"]) >= 2)
        ctx.coverage["obligations"] += 1
        if rec["status"] == "accepted" and rec["mismatch"] is None:
            ctx.coverage["discharged"] += 1
            ctx.sample({"A": lab["A"], "v": lab["v"], "solver": lab["solver"], "closed_forms": lab["sols"],
                        "validator": "accepted (all n)"})
            continue
        mm = rec["mismatch"]
        if rec["status"] == "unsupported" and mm is None:
            # outside the decomposable fragment: compared on n < nvals only; not a theorem instance
            ctx.coverage["obligations"] -= 1
            ctx.coverage["unvalidated_instances"] = ctx.coverage.get("unvalidated_instances", 0) + 1
            continue
        z = zero_root_signature(rec["inst"]["A"], lab["solver"])
        if mm is not None:
            sig = f"{lab['solver']}:zero-root-multiplicity>=2" if z >= 2 else \
                f"{lab['solver']}:A={lab['A']}:v={lab['v']}"
            newv = ctx.violation(sig, {"system": lab, "n": mm[0], "component": mm[1], "polar_value": mm[2],
                                       "true_value": mm[3], "instance": rec["inst"]},
                                 f"{lab['solver']} closed form for component {mm[1]} of A={lab['A']} v={lab['v']} "
                                 f"gives {mm[2]} at n={mm[0]}, A^n v gives {mm[3]}")
            if not newv:
                ctx.coverage["discharged"] += 1  # instance decided (known finding)
        else:
            sig = f"{lab['solver']}:unvalidated:A={lab['A']}:v={lab['v']}"
            ctx.violation(sig, {"system": lab, "instance": rec["inst"], "validator": rec["status"], "why": rec.get("why")},
                          f"validator {rec['status']} the closed form of A={lab['A']} v={lab['v']} ({lab['solver']}) "
                          f"but no differing n < {len(rec['inst'].get('values', []))} was found", no_input=True)
    ctx.coverage["rule"] = ("systems from harness/systems.py (families: " + ", ".join(sorted(hist)) +
                            "), each solved by the default and the forced-cyclic solver; non-trivial = dimension >= 2; "
                            "distinct by (A, v, solver choice, parameter point)")
    ctx.coverage["family_histogram"] = hist
    ctx.coverage["validator_status"] = stat
    ctx.coverage["polar_errors"] = errs
