"""C14 — synthesized invariants and solvable loops agree with the unsolvable loop.

proof : props/C14.v — check_synth_sound (V: wp(Q) = k*Q + effective part, f(0) = E[Q]_0,
        f(n+1) = k f(n) + sum c_i E[M_i]_n with validated closed forms of the effective
        monomials incl. their special cases  =>  E[Q(state_n)] = f(n) for ALL n), and
        check_sim_sound / check_sys_agree_sound (the synthesized solvable loop carries the
        same exact moment system and the same recurrence for its fresh variable as the
        original loop carries for Q  =>  equal moment sequences for ALL n).
tie   : the REAL UnsolvInvSynthesizer.synth_inv (k = 1 and general k, as the CLI does) and
        SolvLoopSynthesizer.synth_loop are run on the repository's unsolvable benchmarks
        and on generated variants; every returned (Q, f) and every synthesized program is
          (i)  compared with the exact moments of the SOURCE program under the reference
               semantics Sem.run (Coq, vm_compute) for n <= N  — independent of Polar;
          (ii) fed to the verified validators inside the kernel (per-instance theorem, all n).
search: (i) is the search: first (program, Q, f, n) where f(n) differs from E[Q(state_n)]."""
import ast as pyast
import copy
import json
import os
import re
from fractions import Fraction

import lib
import core
import oracle
import progast as P

F = Fraction

KNOWN_SUM = "solve_rec_by_summing:special-cases-of-effective-part-dropped"
KNOWN_DERAND = "solv_loop_synthesizer:effective-variables-replaced-by-their-mean-recurrence"


# ---- tiny expression reader (Python syntax) -> progast ------------------------------------
def X(s):
    return _x(pyast.parse(s.strip(), mode="eval").body)


def _num(t):
    if isinstance(t, pyast.Constant) and isinstance(t.value, int):
        return F(t.value)
    if isinstance(t, pyast.UnaryOp) and isinstance(t.op, pyast.USub):
        v = _num(t.operand)
        return None if v is None else -v
    if isinstance(t, pyast.BinOp) and isinstance(t.op, pyast.Div):
        a, b = _num(t.left), _num(t.right)
        return None if a is None or b is None else a / b
    return None


def _x(t):
    v = _num(t)
    if v is not None:
        return P.const(v)
    if isinstance(t, pyast.Name):
        return P.var(t.id)
    if isinstance(t, pyast.UnaryOp) and isinstance(t.op, pyast.USub):
        return ("neg", _x(t.operand))
    if isinstance(t, pyast.BinOp):
        if isinstance(t.op, pyast.Add):
            return ("add", _x(t.left), _x(t.right))
        if isinstance(t.op, pyast.Sub):
            return ("sub", _x(t.left), _x(t.right))
        if isinstance(t.op, pyast.Mult):
            return ("mul", _x(t.left), _x(t.right))
        if isinstance(t.op, pyast.Pow):
            return ("pow", _x(t.left), int(_num(t.right)))
    raise ValueError(pyast.dump(t))


def A(v, e):
    return ("assign", v, P.det(X(e) if isinstance(e, str) else P.const(e)))


def SIM(vs, es):
    return ("simult", [(v, P.det(X(e) if isinstance(e, str) else P.const(e))) for v, e in zip(vs, es)])


def CH(v, alts):
    """alts: [(prob, expr string)]"""
    return ("assign", v, ("choice", [(P.const(F(p)), X(e) if isinstance(e, str) else P.const(e)) for p, e in alts]))


def DRAW(v, d):
    return ("assign", v, ("draw", d))


def EQ(v, c):
    return ("atom", P.var(v), "==", P.const(c))


def prog(init, body):
    return {"types": [], "init": init, "guard": ("true",), "body": body}


# ---- the repository's benchmarks, transcribed; tied to the files by Polar's own parser --------
def bench_asts():
    b = {}
    b["deg-5"] = prog([SIM(["x", "y"], [1, 1])],
                      [DRAW("z", ("cont", "Normal", [P.const(0), P.const(1)])),
                       SIM(["x", "y"], ["2*x**5 + z + z**2", "z + z**2 + z**3 + 3*x**5"])])
    b["fibonaccitrace"] = prog([], [SIM(["x", "y", "z"], ["y", "z", "2*y*z - x"])])
    b["genfibonaccitrace"] = prog([], [SIM(["x", "y", "z"], ["y", "2*x*z - y", "4*x*y*z - 2*x**2 - 2*y**2 + 1"])])
    mt0 = SIM(["a", "b", "c"], ["a", "3*a*b - c", "b"])
    mt1 = SIM(["a", "b", "c"], ["b", "3*b*c - a", "c"])
    b["markov-triples-random"] = prog([SIM(["a", "b", "c"], [1, 1, 2])],
                                      [DRAW("d", ("bern", P.const(F(1, 2)))), ("if", [(EQ("d", 1), [mt0])], [mt1])])
    b["markov-triples-toggle"] = prog([SIM(["a", "b", "c"], [1, 1, 2]), A("branch", 0)],
                                      [("if", [(EQ("branch", 0), [mt0, A("branch", 1)])], [mt1, A("branch", 0)])])
    b["nagata"] = prog([], [SIM(["x", "y", "z"], ["x - 2*(x*z + y**2)*y - ((x*z+y**2)**2)*z", "y + (x*z + y**2)*z", "z"])])
    b["non-lin-markov-1"] = prog([], [DRAW("z", ("bern", P.const(F(1, 2)))),
                                      ("if", [(EQ("z", 0), [SIM(["x", "y"], ["x + x*y", "(1/3)*x + (2/3)*y + (x*y)"])])],
                                       [SIM(["x", "y"], ["x + y + (2/3)*x*y", "2*y + (2/3)*(x*y)"])])])
    q = P.const(F(1, 4))
    b["solvable-2dwalk"] = prog([A("x", 0), A("y", 0)],
                                [DRAW("direction", ("cat", [q, q, q, q])), DRAW("step", ("cont", "Uniform", [P.const(0), P.const(2)])),
                                 ("if", [(EQ("direction", 0), [A("x", "x + step")]), (EQ("direction", 1), [A("x", "x - step")]),
                                         (EQ("direction", 2), [A("y", "y + step")]), (EQ("direction", 3), [A("y", "y - step")])], None)])
    b["squares"] = prog([A("z", 0)], [A("z", "1 - z"), A("x", "2*x + y**2 + z"), A("y", "2*y - y**2 + 2*z")])
    return b


# (name, candidate variables | None = CLI default, degree) as in tests/test_unsolv_inv_synthesis.py,
# tests/test_solv_loop_synthesis.py and the CLI default
BENCH_RUNS = [
    ("deg-5", ["x", "y"], 1), ("fibonaccitrace", ["x", "y", "z"], 3), ("genfibonaccitrace", ["x", "y", "z"], 3),
    ("markov-triples-random", ["a", "b", "c"], 3), ("markov-triples-toggle", ["a", "b", "c"], 3),
    ("nagata", ["x", "y", "z"], 2), ("non-lin-markov-1", ["x", "y"], 2), ("non-lin-markov-1", None, 1),
    ("squares", ["x", "y"], 1), ("squares", None, 2), ("solvable-2dwalk", [], 1),
]


def has_cont(p):
    return '"cont"' in json.dumps(p, default=str) or "'cont'" in repr(p)


def map_stmts(b, f):
    out = []
    for s in b:
        if s[0] == "if":
            out.append(("if", [(c, map_stmts(bb, f)) for c, bb in s[1]], map_stmts(s[2], f) if s[2] is not None else None))
        else:
            out.append(f(s))
    return out


def discretise(p):
    """moment-matched finite stand-ins for the continuous draws of the repository files, for
    the oracle only: Normal(0,1) -> -1 {1/2} 1 (moments <= 3 agree), Uniform(0,2) -> 0,1,2 with
    weights 1/6, 2/3, 1/6 (moments <= 3 agree: 1, 4/3, 2)"""
    def f(s):
        if s[0] == "assign" and s[2][0] == "draw" and s[2][1][0] == "cont":
            fam = s[2][1][1]
            if fam == "Normal":
                return CH(s[1], [(F(1, 2), -1), (F(1, 2), 1)])
            if fam == "Uniform":
                return CH(s[1], [(F(1, 6), 0), (F(2, 3), 1), (F(1, 6), 2)])
        return s
    q = dict(p)
    q["init"] = map_stmts(p["init"], f)
    q["body"] = map_stmts(p["body"], f)
    return q


# ---- generated variants --------------------------------------------------------------------
def qs(q):
    q = F(q)
    return str(q.numerator) if q.denominator == 1 else f"({q.numerator}/{q.denominator})"


def variants(rng, count):
    """families: squares (effective z toggling / Bernoulli / choice / random walk, before or
    after the defective updates, probabilistic defective updates), non-lin-markov (both
    branches keep x - y an eigen-polynomial), markov triples (other weights / initial values),
    fibonacci trace (initial values), already solvable loops with polynomial dependencies
    between effective variables"""
    out = []
    coefs = [1, 2, 3, -1, F(1, 2), -2]
    probs = [F(1, 2), F(1, 3), F(1, 4), F(2, 3)]
    inits = [0, 1, 2, -1, F(1, 2), 3, 5]
    cnt = {"sq": 0, "solv": 0, "mk": 0}

    def sq(i):
        a = rng.choice([2, 3, F(1, 2), -1, 1])
        c, d = rng.choice(coefs), rng.choice(coefs)
        e = rng.choice([1, 2, -1])
        zkind = ["walk", "choice-late", "toggle", "bern-late", "walk2", "bern", "toggle-late", "choice"][cnt["sq"] % 8]
        cnt["sq"] += 1
        zpow = 2 if zkind in ("walk", "walk2") and rng.random() < 0.7 else 1
        zt = "z" if zpow == 1 else "z**2"
        xs = f"{qs(a)}*x + {qs(e)}*y**2 + {qs(c)}*{zt}"
        ys = f"{qs(a)}*y - {qs(e)}*y**2 + {qs(d)}*z"
        pr = rng.choice(probs)
        if zkind.startswith("toggle"):
            zst = A("z", "1 - z")
        elif zkind.startswith("bern"):
            zst = DRAW("z", ("bern", P.const(pr)))
        elif zkind.startswith("choice"):
            zst = CH("z", [(pr, rng.choice([1, 2])), (1 - pr, rng.choice([0, -1]))])
        else:
            zst = CH("z", [(pr, "z + 1"), (1 - pr, "z - 1")])
        xst, yst = A("x", xs), A("y", ys)
        if rng.random() < 0.35:
            # probabilistic defective update that keeps the cancellation of y**2
            sh = rng.choice([1, 2, -1])
            xst = CH("x", [(pr, xs), (1 - pr, xs + f" + {qs(sh)}")])
        body = [xst, yst, zst] if zkind.endswith("late") else [zst, xst, yst]
        init = [A("z", rng.choice(inits))]
        if rng.random() < 0.5:
            init += [A("x", rng.choice(inits)), A("y", rng.choice(inits))]
        return {"name": f"squares-var{i}:{zkind}", "ast": prog(init, body), "cand": None, "deg": 1, "family": "squares:" + zkind}

    def nlm(i):
        p = rng.choice(probs)
        a0, l0, c0 = rng.choice([1, 2, F(1, 2)]), rng.choice([F(2, 3), F(1, 2), 1, 2]), rng.choice([1, F(2, 3), 2])
        a1, b1, l1, c1 = rng.choice([1, 2]), rng.choice([1, 0, F(1, 2)]), rng.choice([1, F(1, 2), F(3, 2)]), rng.choice([F(2, 3), 1])
        s0 = SIM(["x", "y"], [f"{qs(a0)}*x + {qs(c0)}*x*y", f"{qs(a0 - l0)}*x + {qs(l0)}*y + {qs(c0)}*x*y"])
        s1 = SIM(["x", "y"], [f"{qs(a1)}*x + {qs(b1)}*y + {qs(c1)}*x*y", f"{qs(a1 - l1)}*x + {qs(b1 + l1)}*y + {qs(c1)}*x*y"])
        init = [] if rng.random() < 0.5 else [A("x", rng.choice(inits)), A("y", rng.choice(inits))]
        return {"name": f"nonlin-var{i}", "ast": prog(init, [DRAW("z", ("bern", P.const(p))), ("if", [(EQ("z", 0), [s0])], [s1])]),
                "cand": ["x", "y"], "deg": rng.choice([1, 1, 2]), "family": "non-lin-markov"}

    def mk(i):
        p = rng.choice(probs)
        i0 = rng.choice([[1, 1, 2], [1, 2, 5], [2, 5, 29], [1, 1, 1], [2, 1, 3]])
        mt0 = SIM(["a", "b", "c"], ["a", "3*a*b - c", "b"])
        mt1 = SIM(["a", "b", "c"], ["b", "3*b*c - a", "c"])
        kind = ["choice", "toggle", "random"][cnt["mk"] % 3]
        cnt["mk"] += 1
        init = [SIM(["a", "b", "c"], i0)]
        if kind == "random":
            body = [DRAW("d", ("bern", P.const(p))), ("if", [(EQ("d", 1), [mt0])], [mt1])]
        elif kind == "choice":
            body = [CH("d", [(p, 1), (1 - p, 0)]), ("if", [(EQ("d", 1), [mt0])], [mt1])]
        else:
            init.append(A("branch", 0))
            body = [("if", [(EQ("branch", 0), [mt0, A("branch", 1)])], [mt1, A("branch", 0)])]
        return {"name": f"markov-var{i}:{kind}", "ast": prog(init, body), "cand": ["a", "b", "c"], "deg": 3, "k1only": True,
                "family": "markov-triples:" + kind}

    def fib(i):
        i0 = [rng.choice(inits) for _ in range(3)]
        gen = rng.random() < 0.4
        upd = ["y", "2*x*z - y", "4*x*y*z - 2*x**2 - 2*y**2 + 1"] if gen else ["y", "z", "2*y*z - x"]
        return {"name": f"fib-var{i}", "ast": prog([SIM(["x", "y", "z"], i0)], [SIM(["x", "y", "z"], upd)]), "cand": ["x", "y", "z"],
                "deg": 3, "k1only": True, "family": "fibonaccitrace"}

    def solv(i):
        p = rng.choice(probs)
        kind = ["walk-square", "toggle-square", "bern-product", "two-walks"][cnt["solv"] % 4]
        cnt["solv"] += 1
        if kind == "walk-square":
            body = [CH("z", [(p, "z + 1"), (1 - p, "z - 1")]), A("w", f"w + {qs(rng.choice(coefs))}*z**2")]
            init = [A("z", rng.choice(inits)), A("w", 0)]
        elif kind == "bern-product":
            body = [DRAW("z", ("bern", P.const(p))), CH("u", [(F(1, 2), "u + z"), (F(1, 2), "u - 1")]), A("w", "w + z*u")]
            init = [A("u", 1), A("w", 0)]
        elif kind == "toggle-square":
            body = [A("z", "1 - z"), A("w", "2*w + 3*z**2 + z")]
            init = [A("z", 0), A("w", rng.choice(inits))]
        else:
            body = [CH("z", [(p, "z + 1"), (1 - p, "z")]), CH("u", [(F(1, 2), "u + z"), (F(1, 2), "u")]), A("w", "w + u")]
            init = [A("z", 0), A("u", 0), A("w", 0)]
        return {"name": f"solvable-var{i}:{kind}", "ast": prog(init, body), "cand": [], "deg": 1, "family": "solvable:" + kind}

    makers = [sq, sq, sq, nlm, mk, fib, solv, sq, nlm, solv]
    for i in range(count):
        out.append(makers[i % len(makers)](i))
    return out


def branching(stmts):
    """upper bound of the number of random outcomes of one pass over the statements"""
    b = 1
    for s in stmts:
        if s[0] == "assign":
            b *= rhs_arity(s[2])
        elif s[0] == "simult":
            for _, r in s[1]:
                b *= rhs_arity(r)
        else:
            b *= max([branching(bb) for _, bb in s[1]] + [branching(s[2]) if s[2] else 1])
    return b


def rhs_arity(r):
    if r[0] == "choice":
        return len(r[1])
    d = r[1]
    return {"bern": 2, "cat": len(d[1]) if d[0] == "cat" else 1, "unif": (d[2] - d[1] + 1) if d[0] == "unif" else 1}.get(d[0], 1)


def nonlinear_expr(e):
    if e[0] == "pow":
        return e[2] >= 2 and bool(expr_vars(e[1], set())) or nonlinear_expr(e[1])
    if e[0] == "mul":
        return (bool(expr_vars(e[1], set())) and bool(expr_vars(e[2], set()))) or nonlinear_expr(e[1]) or nonlinear_expr(e[2])
    if e[0] in ("add", "sub"):
        return nonlinear_expr(e[1]) or nonlinear_expr(e[2])
    if e[0] == "neg":
        return nonlinear_expr(e[1])
    return False


def nonlinear_prog(stmts):
    for s in stmts:
        if s[0] == "assign":
            if s[2][0] == "choice" and any(nonlinear_expr(e) for _, e in s[2][1]):
                return True
        elif s[0] == "simult":
            if any(r[0] == "choice" and any(nonlinear_expr(e) for _, e in r[1]) for _, r in s[1]):
                return True
        elif any(nonlinear_prog(b) for _, b in s[1]) or (s[2] and nonlinear_prog(s[2])):
            return True
    return False


def expr_degree(e):
    if e[0] == "const":
        return 0
    if e[0] == "var":
        return 1
    if e[0] in ("add", "sub"):
        return max(expr_degree(e[1]), expr_degree(e[2]))
    if e[0] == "mul":
        return expr_degree(e[1]) + expr_degree(e[2])
    if e[0] == "pow":
        return e[2] * expr_degree(e[1])
    return expr_degree(e[1])


def prog_degree(stmts):
    d = 1
    for s in stmts:
        if s[0] == "assign":
            rs = [s[2]]
        elif s[0] == "simult":
            rs = [r for _, r in s[1]]
        else:
            d = max([d] + [prog_degree(b) for _, b in s[1]] + ([prog_degree(s[2])] if s[2] else []))
            continue
        for r in rs:
            if r[0] == "choice":
                d = max([d] + [expr_degree(e) for _, e in r[1]])
    return d


def oracle_depth(p, nmax, budget=300):
    """depth of the path enumeration: the number of paths is b**n, and with non-linear updates the
    size of the numbers doubles with every iteration"""
    b = branching(p["body"])
    n = nmax
    while n > 3 and b ** n > budget:
        n -= 1
    if b >= 2 and nonlinear_prog(p["body"]):
        n = min(n, 6)
    d = prog_degree(p["body"])
    while d >= 3 and n > 3 and d ** n > 5000:   # the numbers have about d**n digits
        n -= 1
    return n


def witnesses():
    """the minimal witnesses of the two findings, always checked (finding 1 was fixed in /repo by
    a0d15cd: if it returns it is reported with this concrete input)"""
    w1 = prog([A("z", 5), A("x", 1), A("y", 2)],
              [A("x", "2*x + y**2 + z"), A("y", "2*y - y**2 + 2*z"), CH("z", [(F(1, 2), 1), (F(1, 2), 0)])])
    w1d = prog([A("z", 5), A("x", 1), A("y", 2)], [A("x", "2*x + y**2 + z"), A("y", "2*y - y**2 + 2*z"), A("z", 0)])
    w2 = prog([A("z", 0), A("x", 1), A("y", 2)],
              [CH("z", [(F(1, 2), "z + 1"), (F(1, 2), "z - 1")]), A("x", "2*x + y**2 + z**2"), A("y", "2*y - y**2 + 2*z")])
    # random, correlated initial values of the candidate variables: the initial value of a candidate of degree 2 needs
    # E(x0**2), E(x0*y0), not products of means
    nl_body = [DRAW("z", ("bern", P.const(F(1, 2)))),
               ("if", [(EQ("z", 0), [SIM(["x", "y"], ["x + x*y", "(1/3)*x + (2/3)*y + x*y"])])],
                [SIM(["x", "y"], ["x + y + (2/3)*x*y", "2*y + (2/3)*x*y"])])]
    w3 = prog([CH("x", [(F(1, 2), 1), (F(1, 2), 3)]), A("y", "2*x")], nl_body)
    w4 = prog([CH("z", [(F(1, 3), 0), (F(2, 3), 2)]), CH("x", [(F(1, 2), 1), (F(1, 2), -1)]), A("y", "x + z")],
              [CH("z", [(F(1, 2), "z + 1"), (F(1, 2), "z - 1")]), A("x", "2*x + y**2 + z"), A("y", "2*y - y**2 + 2*z")])
    # eigenvalue k = 0 (E(Q') contains no defective monomial): f(n) = inhomogeneous part only from n = 1 on, f(0) = Q(initial state)
    w5 = prog([A("z", 0), A("x", 3), A("y", F(1, 2))], [A("z", "z + 1"), SIM(["x", "y"], ["y**2 + z", "y**2 + 2"])])
    w6 = prog([SIM(["x", "y"], [1, 5]), A("d", 0)],
              [DRAW("d", ("bern", P.const(F(1, 2)))), SIM(["x", "y"], ["x*y + d + 3", "x*y + 3*d"])])
    return [{"name": "witness:eigenvalue-zero-deterministic", "ast": w5, "cand": None, "deg": 1, "family": "witness"},
            {"name": "witness:eigenvalue-zero-probabilistic", "ast": w6, "cand": None, "deg": 1, "family": "witness"},
            {"name": "witness:random-correlated-initial-values", "ast": w3, "cand": ["x", "y"], "deg": 2, "family": "witness"},
            {"name": "witness:random-initial-values-squares", "ast": w4, "cand": None, "deg": 2, "family": "witness"},
            {"name": "witness:summing-special-cases", "ast": w1, "cand": None, "deg": 1, "family": "witness"},
            {"name": "witness:summing-special-cases-deterministic", "ast": w1d, "cand": None, "deg": 1, "family": "witness"},
            {"name": "witness:derandomised-loop", "ast": w2, "cand": None, "deg": 1, "family": "witness"}]


# ---- points ----------------------------------------------------------------------------------
POINT_POOL = [[2, -1, F(1, 2), 3, 1, -2, 0], [F(-1, 2), 3, 2, 1, -3, F(1, 3), 1], [1, 1, 2, -1, F(3, 2), 2, -1]]


def init_vars(p):
    return P.stmts_vars(p["init"])


def expr_vars(e, acc):
    if e[0] == "var":
        acc.add(e[1])
    elif e[0] != "const":
        for a in e[1:]:
            if isinstance(a, tuple):
                expr_vars(a, acc)
    return acc


def cond_vars(c, acc):
    if c[0] == "atom":
        expr_vars(c[1], acc)
        expr_vars(c[3], acc)
    elif c[0] in ("not", "and", "or"):
        for a in c[1:]:
            cond_vars(a, acc)
    return acc


def rhs_vars(r, acc):
    if r[0] == "choice":
        for p_, e in r[1]:
            expr_vars(p_, acc)
            expr_vars(e, acc)
    else:
        d = r[1]
        for a in (d[1:] if d[0] != "cont" else d[2:]):
            for e in (a if isinstance(a, list) else [a]):
                if isinstance(e, tuple):
                    expr_vars(e, acc)
    return acc


def read_before_written(stmts, written, acc):
    """variables whose value before the loop can influence the program (conservative: a write
    inside a branch does not count as a definite write)"""
    for s in stmts:
        if s[0] == "assign":
            acc |= rhs_vars(s[2], set()) - written
            written = written | {s[1]}
        elif s[0] == "simult":
            for _, r in s[1]:
                acc |= rhs_vars(r, set()) - written
            written = written | {x for x, _ in s[1]}
        else:
            for c, b in s[1]:
                acc |= cond_vars(c, set()) - written
                read_before_written(b, set(written), acc)
            if s[2]:
                read_before_written(s[2], set(written), acc)
            # a variable assigned in some branch only keeps its old value in the others
            acc |= P.stmts_vars([s]) - written
    return acc


def points_for(p, npts):
    iv = init_vars(p)
    live = read_before_written(p["init"] + p["body"], set(), set())
    un = [v for v in P.prog_vars(p) if v not in iv and v in live]
    if not un:
        return [{}]
    return [{v: str(F(POINT_POOL[i][j % len(POINT_POOL[i])])) for j, v in enumerate(un)} for i in range(npts)]


def with_point(p, pt):
    q = dict(p)
    q["init"] = [("assign", v, P.det(P.const(F(val)))) for v, val in sorted(pt.items())] + list(p["init"])
    return q


# ---- dumps -> Coq ----------------------------------------------------------------------------
def mono_of(mon):
    return {x: k for x, k in mon}


def poly_coq(d):
    return P.lst([f"({P.q_coq(F(c))}, {P.mono_coq(mono_of(mon))})" for c, mon in d])


def epoly_coq(ep):
    return P.lst([f"({P.q_coq(F(b))}, {P.lst([P.q_coq(F(c)) for c in cs])})" for b, cs in ep])


def full_point(pt, symbols, variables):
    """the point extended by the values the worker chose for '<v>0' of variables whose initial
    value cannot influence the original program (assigned before read)"""
    out = dict(pt)
    for name, val in (symbols or {}).items():
        if name.endswith("0") and name[:-1] in variables and name[:-1] not in out:
            out[name[:-1]] = val
    return out


def flat_with_point(flat, pt):
    f2 = dict(flat)
    extra = [{"var": v, "cond": ["true"], "default": v, "rhs": ["choice", [[[["1/1", []]], [[str(F(val)), []]] if F(val) != 0 else []]]]}
             for v, val in sorted(pt.items())]
    f2["init"] = extra + list(flat["init"])
    return f2


CONST_ITEM = ("{| ei_ms := [[]]; ei_A := [[mkq 1 1]]; ei_v := [mkq 1 1]; ei_F := [[(mkq 1 1, [mkq 1 1])]]; "
              "ei_sp := []; ei_idx := 0 |}")


def item_coq(it):
    if "cf" not in it or it.get("idx") is None:
        raise core.NotModelled(it.get("unsupported", "no closed form data"))
    cf = it["cf"]
    if cf["gens"]:
        raise core.NotModelled("irrational closed form of an effective monomial")
    ms = []
    for d in it["monomial_dumps"]:
        if len(d) != 1 or F(d[0][0]) != 1:
            raise core.NotModelled(f"system monomial {d}")
        ms.append(mono_of(d[0][1]))
    if it["is_inhomogeneous"]:
        ms.append({})
    if len(it["A"]) != len(ms) or len(cf["general"]) != len(ms):
        raise core.NotModelled("system shape")
    A_c = P.lst([P.lst([P.q_coq(F(x)) for x in row]) for row in it["A"]])
    v_c = P.lst([P.q_coq(F(x)) for x in it["v"]])
    F_c = P.lst([epoly_coq(f) for f in cf["general"]])
    sp_c = P.lst([P.lst([P.q_coq(F(x)) for x in row]) for row in cf["specials"]])
    return (f"{{| ei_ms := {P.lst([P.mono_coq(m) for m in ms])}; ei_A := {A_c}; ei_v := {v_c}; ei_F := {F_c}; "
            f"ei_sp := {sp_c}; ei_idx := {it['idx']} |}}")


HEADER = ("From Coq Require Import List String QArith Qcanon ZArith.\n"
          "From Polar Require Import Qcx CRing ExpPoly ClosedForm Dist Syntax Sem Types Poly Pipeline Wp Synth.\n"
          "Import ListNotations.\nOpen Scope string_scope.\n")


NV = 9   # number of certified values requested for rejected candidates


def parse_qlist(out):
    m = re.search(r"=\s*\[([^\]]*)\]\s*:\s*list \(Z \* positive\)", out, re.S)
    if not m:
        return None
    txt = re.sub(r"\((-\d+)\)", r"\1", m.group(1).replace("%Z", "").replace("%positive", ""))
    return [F(int(a), int(b)) for a, b in re.findall(r"\(\s*(-?\d+)\s*,\s*(\d+)\s*\)", txt)]


def synth_case(flat, pt, inst, cm):
    fp = core.flat_coq(flat_with_point(flat, full_point(pt, inst.get("symbols"), flat["variables"])))
    T = core.types_coq(flat["types"])
    items = [item_coq(it) for it in inst["items"]] + [CONST_ITEM]
    ks = [inst["k"]] + [k for k in inst["k_candidates"] if k != inst["k"]]
    body = HEADER
    body += f"Definition fp0 : flatprog := {fp}.\nDefinition T0 : tenv := {T}.\n"
    body += f"Definition Q0 : poly := {poly_coq(inst['Q'])}.\n"
    body += f"Definition items0 := {P.lst(items)}.\n"
    body += f"Definition f0 : epolyQ := {epoly_coq(inst['f_epoly'])}.\n"
    body += f"Definition fsp0 : list Qc := {P.lst([P.q_coq(F(x)) for x in inst.get('f_special', [])])}.\n"
    main = body + f"Eval vm_compute in [check_synth_any {cm} fp0 T0 Q0 {P.lst([P.q_coq(F(k)) for k in ks])} items0 fsp0 f0].\n"
    diag = body + f"Eval vm_compute in [check_types fp0 T0; forallb (check_item {cm} fp0 T0) items0].\n"
    # certified values E[Q]_n (theorem C14_certified_values), independent of the candidate f
    diag += (f"Eval vm_compute in (match synth_values {cm} fp0 T0 Q0 {P.q_coq(F(inst['k']))} items0 {NV} with "
             f"Some vs => map qpair vs | None => [] end).\n")
    return main, diag


def s_types(flat, sdump):
    """types for the synthesized program: those of the original program for the variables it
    keeps, and the same value set for the fresh copy _t.. of a typed variable (v = _t..)"""
    T = {v: vals for v, vals in flat["types"] if not isinstance(vals, str)}
    out = {}
    svars = set(sdump["variables"])
    for v in svars:
        if v in T:
            out[v] = T[v]
    for a in sdump["body"]:
        if "rhs" in a and a["rhs"][0] == "choice" and len(a["rhs"][1]) == 1 and a["var"] in T:
            e = a["rhs"][1][0][1]
            if len(e) == 1 and F(e[0][0]) == 1 and len(e[0][1]) == 1 and e[0][1][0][1] == 1:
                out[e[0][1][0][0]] = T[a["var"]]
    return sorted(out.items())


def s_point(pt, symbols, sdump):
    """Polar's convention: a variable the synthesized program does not initialise starts at the
    symbol <v>0, i.e. at the value the point gives to v"""
    inits = {a["var"] for a in sdump["init"] if "var" in a}
    full = full_point(pt, symbols, sdump["variables"])
    return {v: val for v, val in full.items() if v in sdump["variables"] and v not in inits}


def sim_case(flat, pt, sdump, subs, sysd, Qd, k, sv, cm):
    syms = {k_: str(v_) for k_, v_ in subs.items()}
    fpO = core.flat_coq(flat_with_point(flat, full_point(pt, syms, flat["variables"])))
    TO = core.types_coq(flat["types"])
    fpS = core.flat_coq(flat_with_point(sdump, s_point(pt, syms, sdump)), subs)
    TS = core.types_coq(s_types(flat, sdump))
    ms = [mono_of(d[0][1]) for d in sysd["monomial_dumps"]]
    ms_c = P.lst([P.mono_coq(m) for m in ms])
    A_c = P.lst([P.lst([P.q_coq(F(x)) for x in row]) for row in sysd["A"]])
    v_c = P.lst([P.q_coq(F(x)) for x in sysd["v"]])
    body = HEADER
    body += f"Definition fpO : flatprog := {fpO}.\nDefinition TO : tenv := {TO}.\n"
    body += f"Definition fpS : flatprog := {fpS}.\nDefinition TS : tenv := {TS}.\n"
    body += f"Definition ms0 : list mono := {ms_c}.\nDefinition A0 := {A_c}.\nDefinition v0 := {v_c}.\n"
    # the synthesized program is tried without types first (its copies of finite variables may
    # leave their value sets), then with the original value sets (needed when powers were reduced)
    if sv is not None:
        body += f"Definition Q0 : poly := {poly_coq(Qd)}.\n"
        main = body + (f'Eval vm_compute in [check_sim {cm} fpO TO fpS [] Q0 "{sv}" {P.q_coq(F(k))} ms0 A0 v0 || '
                       f'check_sim {cm} fpO TO fpS TS Q0 "{sv}" {P.q_coq(F(k))} ms0 A0 v0].\n')
    else:
        main = body + f"Eval vm_compute in [check_sys_agree {cm} fpO TO fpS [] ms0 A0 v0 || check_sys_agree {cm} fpO TO fpS TS ms0 A0 v0].\n"
    diag = body + (f"Eval vm_compute in [check_types fpO TO; check_types fpS TS; check_system {cm} fpO TO ms0 A0; "
                   f"check_system {cm} fpS [] ms0 A0; check_system {cm} fpS TS ms0 A0; "
                   f"check_init_vals {cm} (fp_init fpO) ms0 v0; check_init_vals {cm} (fp_init fpS) ms0 v0].\n")
    return main, diag


# ---- evaluation helpers ----------------------------------------------------------------------
def epoly_eval(ep, n):
    tot = F(0)
    for b, cs in ep:
        b = F(b)
        tot += (b ** n if n or b != 0 else F(1)) * sum(F(c) * n ** j for j, c in enumerate(cs))
    return tot


def q_from_moments(Qd, mons, row):
    """E[Q] from the oracle's row of monomial moments"""
    tot = F(0)
    for c, mon in Qd:
        tot += F(c) * row[mons.index(tuple(sorted(mono_of(mon).items())))]
    return tot


def mkey(m):
    return tuple(sorted((x, k) for x, k in m.items() if k))


def general_only_consistent(inst, N):
    """attribution of the known finding: does f satisfy the recurrence obtained by using the
    GENERAL branch of every effective closed form from n = 0 on (special cases dropped), while
    some special case does differ from its general branch?"""
    try:
        k = F(inst["k"])
        fvals = [F(x) for x in inst["f_values"]]
        consts = {mkey(mono_of(mon)): F(c) for c, mon in inst["R"]}
        matters = False
        gens = {}
        for it in inst["items"]:
            cf = it["cf"]
            if cf["gens"]:
                return False
            idx = it["idx"]
            tgt = mkey(mono_of(it["monomial_dumps"][idx][0][1]))
            gens[tgt] = cf["general"][idx]
            for j, row in enumerate(cf["specials"]):
                if F(row[idx]) != epoly_eval(cf["general"][idx], j):
                    matters = True
        if not matters:
            return False
        for n in range(min(N, len(fvals) - 1)):
            eff = consts.get((), F(0))
            for key, c in consts.items():
                if key != ():
                    eff += c * epoly_eval(gens[key], n)
            if fvals[n + 1] != k * fvals[n] + eff:
                return False
        return True
    except Exception:
        return False


def alpha(dump):
    """canonical text of a structural dump with generated names (_t3, _old9 ..) numbered by first occurrence"""
    txt = json.dumps(dump)
    names = {}

    def ren(m):
        return names.setdefault(m.group(0), f"_g{len(names)}")
    return re.sub(r"_[A-Za-z]+\d+", ren, txt)


# ---- the check -------------------------------------------------------------------------------
def run(ctx):
    ok, log = lib.coq_check_props(ctx)
    if not ok:
        ctx.violation("proof-broken", {"theorem": "props/C14.v", "log": log[-3000:]}, "props/C14.v no longer checks", no_input=True)
        return
    lib.coq_make(["theories/Search.vo", "theories/Synth.vo"])
    npts = ctx.pick(2, 3)
    N = ctx.pick(6, 8)
    entries = []
    basts = bench_asts()
    bdir = os.path.join(lib.REPO, "tests", "unsolvable_benchmarks")
    parse_tasks = []
    for name, cand, deg in BENCH_RUNS:
        path = os.path.join(bdir, name + ".prob")
        try:
            text = open(path).read()
        except OSError:
            ctx.coverage.setdefault("missing_benchmarks", []).append(name)
            continue
        ast_ = basts[name]
        entries.append({"name": f"repo:{name}:{','.join(cand) if cand is not None else 'default'}:deg{deg}", "ast": ast_, "text": text,
                        "cand": cand, "deg": deg, "family": "repo:" + name, "file": path})
    for name in sorted({n for n, _, _ in BENCH_RUNS}):
        path = os.path.join(bdir, name + ".prob")
        if os.path.exists(path):
            parse_tasks.append({"kind": "synth_parse", "text": open(path).read(), "name": name})
            parse_tasks.append({"kind": "synth_parse", "text": P.prog_text(basts[name]), "name": name})
    if not ctx.quick:
        # further unsolvable benchmarks of the repository (no continuous draws), read through Polar's parser
        ddir = os.path.join(lib.REPO, "benchmarks", "defective")
        extra = [("squares-plus.prob", None, 1, False), ("non-lin-markov-2.prob", None, 1, False), ("intro1.prob", None, 2, False),
                 ("squares-and-cube.prob", None, 1, False), ("squares-squared.prob", None, 1, False), ("fib1.prob", None, 3, True),
                 ("fib2.prob", None, 3, True), ("fib3.prob", None, 3, True)]
        extra = [x for x in extra if os.path.exists(os.path.join(ddir, x[0]))]
        pres = lib.run_tasks([{"kind": "synth_parse", "text": open(os.path.join(ddir, x[0])).read()} for x in extra], timeout=60)
        for (fn, cand, deg, k1only), pr in zip(extra, pres):
            try:
                ast_ = core.prog_from_dump(pr["parsed"])
            except Exception:
                continue
            entries.append({"name": f"repo-benchmarks:{fn}:deg{deg}", "ast": ast_, "text": open(os.path.join(ddir, fn)).read(), "cand": cand,
                            "deg": deg, "k1only": k1only, "family": "repo-benchmarks/defective"})
    for v in witnesses() + variants(ctx.rng, ctx.pick(14, 60)):
        v["text"] = P.prog_text(v["ast"])
        entries.append(v)
    # discrete stand-ins of the two repository files with continuous draws (oracle-checkable)
    for name, cand, deg in BENCH_RUNS:
        if name in basts and has_cont(basts[name]) and any(e["name"].startswith(f"repo:{name}:") for e in entries):
            d = discretise(basts[name])
            entries.append({"name": f"discretised:{name}", "ast": d, "text": P.prog_text(d), "cand": cand, "deg": deg,
                            "family": "discretised:" + name})
    only = os.environ.get("C14_ONLY")
    if only:
        entries = [e for e in entries if only in e["name"]]
    tasks = []
    for e in entries:
        e["points"] = points_for(e["ast"], npts)
        modes = ["k1", "gen", "loop"]
        if e.get("k1only") or (e["cand"] is not None and len(e["cand"]) == 0):
            modes = ["k1", "loop"] if e.get("k1only") else ["loop"]
        e["modes"] = modes
        e["N"] = min(3 if "deg-5" in e["name"] else (5 if "nagata" in e["name"] else N), oracle_depth(e["ast"], N))
        tasks.append({"kind": "synth", "text": e["text"], "cand": e["cand"], "deg": e["deg"], "modes": modes,
                      "points": e["points"], "nvals": e["N"], "timeout": 150})
    import time
    t_polar = time.time()
    allres = lib.run_tasks(tasks + parse_tasks, timeout=150)
    ctx.coverage["wall_polar_s"] = round(time.time() - t_polar, 1)
    results, presults = allres[:len(tasks)], allres[len(tasks):]
    # tie of the transcribed benchmark ASTs to the files: Polar's parser reads both alike
    parsed_ok = {}
    for i in range(0, len(parse_tasks), 2):
        a, b = presults[i], presults[i + 1]
        parsed_ok[parse_tasks[i]["name"]] = ("parsed" in a and "parsed" in b and alpha(a["parsed"]) == alpha(b["parsed"]))
    errs, fam = {}, {}
    files = []          # (name, text) for coq_run_many
    pair_jobs = []      # records to decide after Coq ran
    loop_jobs = []
    oracle_jobs = {}    # key -> {"ast", "mons": [mono keys], "N"}

    def need_oracle(key, ast_, mons, n, fullpt=None):
        job = oracle_jobs.setdefault(key, {"ast": ast_, "mons": [], "N": n, "extra": {}})
        for m in mons:
            if m not in job["mons"]:
                job["mons"].append(m)
        for v, val in (fullpt or {}).items():
            job["extra"][v] = val

    for ei, (e, r) in enumerate(zip(entries, results)):
        fam[e["family"]] = fam.get(e["family"], 0) + 1
        if "error" in r or "exception" in r:
            k = r.get("error") if "error" in r else r["exception"]["etype"] + "@" + r.get("stage", "")
            errs[k] = errs.get(k, 0) + 1
            e["failed"] = k
            continue
        if e.get("file"):
            nm = e["family"].split(":", 1)[1]
            if not parsed_ok.get(nm, False):
                # the file no longer is the transcribed program: take Polar's parsed program as the source
                try:
                    e["ast"] = core.prog_from_dump(r["parsed"])
                    e["points"] = e["points"]
                    ctx.coverage.setdefault("benchmarks_read_through_polars_parser", []).append(nm)
                except Exception:
                    errs["benchmark-not-transcribed"] = errs.get("benchmark-not-transcribed", 0) + 1
                    continue
        flat = r.get("flat", {})
        cont = has_cont(e["ast"])
        cm = "cmom_std" if cont else "cm0"
        retained = [v for v in r["original"] if v in r["effective"]]
        for mode in e["modes"]:
            ent = r.get(mode) or {}
            if "exception" in ent:
                k = "synth:" + ent["exception"]["etype"] + "@" + ent["exception"].get("raiser", "")
                errs[k] = errs.get(k, 0) + 1
                continue
            for si, pair in enumerate(ent.get("pairs") or []):
                for pi, inst in enumerate(pair["instances"]):
                    pt = inst["point"]
                    job = {"entry": e, "mode": mode, "si": si, "pi": pi, "pair": pair, "inst": inst, "flat": flat, "cm": cm,
                           "status": "unsupported", "why": None, "okey": None}
                    pair_jobs.append(job)
                    if inst.get("degenerate") or "Q" not in inst or "f_values" not in inst:
                        job["status"] = "skipped"
                        job["why"] = inst.get("unsupported") or inst.get("error") or "degenerate point"
                        continue
                    if not cont:
                        okey = (ei, pi)
                        job["okey"] = okey
                        need_oracle(okey, with_point(e["ast"], pt), [mkey(mono_of(mon)) for _, mon in inst["Q"]], e["N"],
                                    full_point(pt, inst.get("symbols"), P.prog_vars(e["ast"])))
                    if "unsupported" in flat or "f_epoly" not in inst or "items" not in inst:
                        job["why"] = flat.get("unsupported") or inst.get("f_unsupported") or inst.get("no_certificate") or "no certificate"
                        continue
                    try:
                        main, diag = synth_case(flat, pt, inst, cm)
                        files.append((f"syn_{len(pair_jobs)}", main))
                        job["file"], job["diag"] = files[-1][0], diag
                    except (core.NotModelled, ValueError, KeyError) as ex:
                        job["why"] = f"not modelled: {ex}"
            for qi, pd in enumerate(ent.get("programs") or []):
                pair = (ent.get("pairs") or [None] * (qi + 1))[qi] if qi < len(ent.get("pairs") or []) else None
                for pi, sin in enumerate(pd.get("instances") or []):
                    pt = sin["point"]
                    job = {"entry": e, "qi": qi, "pi": pi, "pd": pd, "sin": sin, "pair": pair, "flat": flat, "cm": cm, "retained": retained,
                           "status": "unsupported", "why": None, "okey": None, "skey": None}
                    loop_jobs.append(job)
                    pin = pair["instances"][pi] if pair is not None else None
                    job["pin"] = pin
                    if "dump" not in pd or "symbols" not in sin or (pin is not None and (pin.get("degenerate") or "Q" not in pin)):
                        job["status"] = "skipped"
                        job["why"] = pd.get("unsupported") or sin.get("unsupported") or str(sin.get("error")) or "degenerate point"
                        continue
                    subs = {k: F(v) for k, v in sin["symbols"].items()}
                    job["subs"] = subs
                    sv = pd.get("comb_var")
                    job["sv"] = sv
                    if pin is not None and sv is None:
                        job["status"] = "wiring"
                        continue
                    if not cont:
                        okey = (ei, pi)
                        job["okey"] = okey
                        mons = [mkey({v: 1}) for v in retained] + [mkey({v: 2}) for v in retained]
                        if pin is not None:
                            mons += [mkey(mono_of(mon)) for _, mon in pin["Q"]]
                        need_oracle(okey, with_point(e["ast"], pt), mons, e["N"], full_point(pt, sin.get("symbols"), P.prog_vars(e["ast"])))
                        try:
                            sast = with_point(core.prog_from_dump(pd["dump"], subs), s_point(pt, sin.get("symbols"), pd["dump"]))
                            skey = ("S", ei, mode, qi, pi)
                            job["skey"] = skey
                            smons = [mkey({v: 1}) for v in retained] + [mkey({v: 2}) for v in retained]
                            if sv is not None:
                                smons.append(mkey({sv: 1}))
                            need_oracle(skey, sast, smons, e["N"])
                        except (core.NotModelled, KeyError, ValueError) as ex:
                            job["why"] = f"synthesized program not modelled: {ex}"
                    if "system" in sin and "unsupported" not in flat:
                        try:
                            main, diag = sim_case(flat, pt, pd["dump"], subs, sin["system"], pin["Q"] if pin is not None else None,
                                                  pin.get("k") if pin is not None else None, sv if pin is not None else None, cm)
                            files.append((f"sim_{len(loop_jobs)}", main))
                            job["file"], job["diag"] = files[-1][0], diag
                        except (core.NotModelled, ValueError, KeyError, TypeError) as ex:
                            job["why"] = f"not modelled: {ex}"
                    else:
                        job["why"] = sin.get("unsupported") or str(sin.get("error")) or "no joint system"
    # ---- Coq: oracle files and validator files together -----------------------------------
    if os.environ.get("C14_NO_ORACLE"):   # debugging switch: exercise the certified-values path alone
        oracle_jobs = {}
    okeys = list(oracle_jobs)
    for j, key in enumerate(okeys):
        job = oracle_jobs[key]
        ast_ = job["ast"]
        ivs = init_vars(ast_)
        extra = {v: val for v, val in job["extra"].items() if v not in ivs}
        if extra:
            ast_ = with_point(ast_, extra)
        files.append((f"orc_{j}", oracle.moments_file(ast_, [dict(m) for m in job["mons"]], job["N"])))
    t_coq = time.time()
    outs = lib.coq_run_many(ctx, files, timeout=ctx.pick(170, 600))
    ctx.coverage["wall_coq_s"] = round(time.time() - t_coq, 1)
    ctx.coverage["coq_files"] = len(files)
    exact = {}
    for j, key in enumerate(okeys):
        job = oracle_jobs[key]
        okc, o = outs[f"orc_{j}"]
        rs = oracle.parse_results(o) if okc else []
        if len(rs) != 2 or len(rs[0]) != job["N"] + 1 or any(len(row) != len(job["mons"]) for row in rs[0]):
            errs["oracle-timeout-or-error"] = errs.get("oracle-timeout-or-error", 0) + 1
            continue
        if rs[0][:len(rs[1])] != rs[1]:
            raise RuntimeError("oracle self-check failed (compacted vs plain semantics)")
        exact[key] = rs[0]

    # validator verdicts; a second round of files explains rejections (which part failed) and
    # retries oracle jobs that ran out of time at a small depth
    dfiles = []
    for j, key in enumerate(okeys):
        if key not in exact:
            job = oracle_jobs[key]
            ast_ = job["ast"]
            extra = {v: val for v, val in job["extra"].items() if v not in init_vars(ast_)}
            if extra:
                ast_ = with_point(ast_, extra)
            dfiles.append((f"orc2_{j}", oracle.moments_file(ast_, [dict(m) for m in job["mons"]], 3)))
    for job in pair_jobs + loop_jobs:
        if job.get("file"):
            okc, o = outs[job["file"]]
            bl = lib.parse_bool_list(o) if okc else None
            job["status"] = "coq-error" if bl is None or len(bl) != 1 else ("accepted" if bl[0] else "rejected")
            job["parts"] = None
            if bl is None:
                job["why"] = o[-500:]
            if job["status"] != "accepted":
                dfiles.append(("d_" + job["file"], job["diag"]))
    douts = lib.coq_run_many(ctx, dfiles, timeout=ctx.pick(120, 300)) if dfiles else {}
    ctx.coverage["coq_files_second_round"] = len(dfiles)
    for j, key in enumerate(okeys):
        if f"orc2_{j}" in douts:
            okc, o = douts[f"orc2_{j}"]
            rs = oracle.parse_results(o) if okc else []
            if len(rs) == 2 and len(rs[0]) == 4 and rs[0][:len(rs[1])] == rs[1]:
                exact[key] = rs[0]
                errs["oracle-retried-at-depth-3"] = errs.get("oracle-retried-at-depth-3", 0) + 1
    for job in pair_jobs + loop_jobs:
        if job.get("file") and ("d_" + job["file"]) in douts:
            okc, o = douts["d_" + job["file"]]
            job["parts"] = lib.parse_bool_list(o) if okc else None
            job["certified"] = parse_qlist(o) if okc else None

    # ---- decide: (Q, f) pairs -----------------------------------------------------------------
    stat, lstat = {}, {}
    for job in pair_jobs:
        e, inst, pair = job["entry"], job["inst"], job["pair"]
        if job["status"] == "skipped":
            stat["skipped"] = stat.get("skipped", 0) + 1
            continue
        label = {"program": e["text"], "name": e["name"], "candidate_vars": e["cand"], "degree": e["deg"], "mode": job["mode"],
                 "Q_symbolic": pair["Q"], "f_symbolic": pair["f"], "point": inst["point"], "symbols": inst.get("symbols"),
                 "Q": inst.get("Q_text"), "f": inst.get("f_text"), "k_polar": pair.get("k_polar")}
        ctx.count({"t": e["text"], "c": e["cand"], "d": e["deg"], "m": job["mode"], "Q": inst.get("Q_text"), "p": inst["point"]},
                  nontrivial=len(inst["Q"]) >= 2)
        bl = job.get("parts")
        mm = None
        ex = exact.get(job["okey"]) if job["okey"] is not None else None
        if ex is not None:
            mons = oracle_jobs[job["okey"]]["mons"]
            for n in range(min(len(ex), len(inst["f_values"]))):
                fv = inst["f_values"][n]
                if fv.startswith("~"):
                    continue
                tv = q_from_moments(inst["Q"], mons, ex[n])
                if F(fv) != tv:
                    mm = (n, F(fv), tv)
                    break
        cert = job.get("certified") or None
        src = "reference semantics (path enumeration)"
        if cert:
            for n in range(min(len(cert), len(inst["f_values"]))):
                fv = inst["f_values"][n]
                if fv.startswith("~"):
                    continue
                if ex is not None and n < len(ex) and q_from_moments(inst["Q"], oracle_jobs[job["okey"]]["mons"], ex[n]) != cert[n]:
                    raise RuntimeError(f"certified value and reference semantics disagree at n={n} for {e['name']} / {inst['Q_text']}")
                if mm is None and F(fv) != cert[n]:
                    mm = (n, F(fv), cert[n])
                    src = "certified values (theorem C14_certified_values over the validated effective items)"
                    break
        st = job["status"] + ("" if mm is None else "+mismatch") + ("" if ex is not None else "+no-oracle")
        stat[st] = stat.get(st, 0) + 1
        if job["status"] in ("accepted", "rejected", "coq-error"):
            ctx.coverage["obligations"] += 1
        if mm is None and job["status"] == "accepted":
            ctx.coverage["discharged"] += 1
            ctx.sample({"program": e["text"], "mode": job["mode"], "Q": inst["Q_text"], "f": inst["f_text"], "k": inst.get("k"),
                        "validator": "accepted (E[Q]_n = f(n) for all n)",
                        "oracle": "agrees for n <= %d" % e["N"] if ex is not None else "not available (continuous draw)"})
            continue
        if mm is None and job["status"] == "unsupported":
            ctx.coverage["unvalidated_instances"] = ctx.coverage.get("unvalidated_instances", 0) + 1
            ctx.coverage.setdefault("unvalidated_why", {})
            w = (job["why"] or "?")[:80]
            ctx.coverage["unvalidated_why"][w] = ctx.coverage["unvalidated_why"].get(w, 0) + 1
            continue
        if mm is not None:
            known = mm[0] >= 1 and job["status"] != "accepted" and "items" in inst and general_only_consistent(inst, e["N"])
            sig = KNOWN_SUM if known else f"closed-form-mismatch:{e['text']}:{job['mode']}:{inst['Q_text']}:{json.dumps(inst['point'], sort_keys=True)}"
            new = ctx.violation(sig, dict(label, n=mm[0], polar_value=str(mm[1]), reference_value=str(mm[2]), reference_source=src, validator=job["status"],
                                          validator_parts=bl, effective_items=[{k: it.get(k) for k in ("monomial", "sols")} for it in inst.get("items", [])]),
                                f"{e['name']} [{job['mode']}]: Polar returns E[{inst['Q_text']}] = {inst['f_text']}; at n={mm[0]} this is {mm[1]}, "
                                f"the exact value is {mm[2]} (initial values {inst['point']})\n{e['text']}")
            if not new and job["status"] in ("accepted", "rejected", "coq-error"):
                ctx.coverage["discharged"] += 1   # instance decided (known finding)
            continue
        # validator did not accept although no differing n was found
        ctx.violation(f"pair-not-validated:{e['text']}:{job['mode']}:{inst['Q_text']}",
                      dict(label, validator=job["status"], validator_parts=bl, why=job["why"], certificate={k: inst.get(k) for k in ("k", "k_candidates", "R")}),
                      f"{e['name']} [{job['mode']}]: validator {job['status']} (Q, f) = ({inst['Q_text']}, {inst['f_text']}) "
                      f"(parts [types, items] = {bl}) but no differing n <= {e['N']} was found", no_input=True)

    # ---- decide: synthesized loops --------------------------------------------------------------
    for job in loop_jobs:
        e, pd, sin, pin = job["entry"], job["pd"], job["sin"], job["pin"]
        if job["status"] == "skipped":
            lstat["skipped"] = lstat.get("skipped", 0) + 1
            continue
        label = {"program": e["text"], "name": e["name"], "candidate_vars": e["cand"], "degree": e["deg"], "synthesized_program": pd["text"],
                 "point": sin["point"], "symbols": sin.get("symbols"), "Q": pin.get("Q_text") if pin else None,
                 "invariant_used": [job["pair"]["Q"], job["pair"]["f"]] if job["pair"] else None, "retained_variables": job["retained"]}
        ctx.count({"t": e["text"], "c": e["cand"], "d": e["deg"], "loop": job["qi"], "p": sin["point"]}, nontrivial=True)
        if job["status"] == "wiring":
            ctx.violation(f"synth-loop-no-fresh-variable:{e['text']}", label,
                          f"{e['name']}: the synthesized loop has no unique fresh variable _s.. standing for Q ({pd.get('comb_vars')})\n{pd['text']}",
                          no_input=True)
            continue
        bl = job.get("parts")
        exO = exact.get(job["okey"]) if job["okey"] is not None else None
        exS = exact.get(job["skey"]) if job["skey"] is not None else None
        mm1, mm2, random_eff = None, None, False
        if exO is not None and exS is not None:
            mO, mS = oracle_jobs[job["okey"]]["mons"], oracle_jobs[job["skey"]]["mons"]
            for n in range(min(len(exO), len(exS))):
                for v in job["retained"]:
                    o1, o2 = exO[n][mO.index(mkey({v: 1}))], exO[n][mO.index(mkey({v: 2}))]
                    s1, s2 = exS[n][mS.index(mkey({v: 1}))], exS[n][mS.index(mkey({v: 2}))]
                    if o2 != o1 * o1:
                        random_eff = True
                    if s1 != o1 and mm1 is None:
                        mm1 = (n, f"E({v})", s1, o1)
                    if s2 != o2 and mm2 is None:
                        mm2 = (n, f"E({v}**2)", s2, o2)
                if pin is not None and job["sv"] is not None:
                    tq = q_from_moments(pin["Q"], mO, exO[n])
                    ts = exS[n][mS.index(mkey({job["sv"]: 1}))]
                    if tq != ts and mm1 is None:
                        mm1 = (n, f"E({job['sv']}) vs E(Q)", ts, tq)
        st = job["status"] + ("" if mm1 is None else "+mismatch") + ("" if mm2 is None or mm1 is not None else "+2nd-moment") \
            + ("" if exO is not None and exS is not None else "+no-oracle")
        lstat[st] = lstat.get(st, 0) + 1
        if job["status"] in ("accepted", "rejected", "coq-error"):
            ctx.coverage["obligations"] += 1
        if mm1 is None and job["status"] == "accepted":
            ctx.coverage["discharged"] += 1
            ctx.sample({"program": e["text"], "synthesized": pd["text"], "Q": pin.get("Q_text") if pin else None,
                        "validator": "accepted (E_S[s]_n = E_O[Q]_n and equal first moments of retained variables for all n)"}, limit=10)
        elif mm1 is not None:
            # the known defect (effective variables replaced by their mean recurrences) can change a FIRST moment only
            # if some effective variable is random and the joint system (effective part, retained variables and what
            # they depend on) contains a non-linear monomial
            nonlinear = any(sum(k_ for _, k_ in d[0][1]) >= 2 for d in (sin.get("system") or {}).get("monomial_dumps", []))
            sig = KNOWN_DERAND if random_eff and nonlinear else \
                f"synth-loop-mismatch:{e['text']}:{pin.get('Q_text') if pin else ''}:{json.dumps(sin['point'], sort_keys=True)}"
            new = ctx.violation(sig, dict(label, n=mm1[0], moment=mm1[1], synthesized_value=str(mm1[2]), original_value=str(mm1[3]),
                                          validator=job["status"], validator_parts=bl),
                                f"{e['name']}: synthesized loop gives {mm1[1]} = {mm1[2]} at n={mm1[0]}, the original loop gives {mm1[3]}\n"
                                f"{e['text']}\n--- synthesized ---\n{pd['text']}")
            if not new and job["status"] in ("accepted", "rejected", "coq-error"):
                ctx.coverage["discharged"] += 1   # instance decided (known finding)
            continue
        elif job["status"] == "unsupported":
            ctx.coverage["unvalidated_instances"] = ctx.coverage.get("unvalidated_instances", 0) + 1
            ctx.coverage.setdefault("unvalidated_why", {})
            w = (job["why"] or "?")[:80]
            ctx.coverage["unvalidated_why"][w] = ctx.coverage["unvalidated_why"].get(w, 0) + 1
        else:
            ctx.violation(f"synth-loop-not-validated:{e['text']}:{pin.get('Q_text') if pin else ''}",
                          dict(label, validator=job["status"], validator_parts=bl, why=job["why"], system=sin.get("system")),
                          f"{e['name']}: simulation validator {job['status']} the synthesized loop (parts [typesO, typesS, systemO, systemS-untyped, "
                          f"systemS-typed, initO, initS] = {bl}) but no differing first moment for n <= {e['N']} was found\n{pd['text']}", no_input=True)
            continue
        if mm2 is not None:
            # literal reading of 'the same moment sequences' for retained variables: higher moments
            ctx.violation(KNOWN_DERAND if random_eff else f"synth-loop-2nd-moment:{e['text']}",
                          dict(label, n=mm2[0], moment=mm2[1], synthesized_value=str(mm2[2]), original_value=str(mm2[3])),
                          f"{e['name']}: synthesized loop gives {mm2[1]} = {mm2[2]} at n={mm2[0]}, the original loop gives {mm2[3]}\n"
                          f"{e['text']}\n--- synthesized ---\n{pd['text']}")

    ctx.coverage["rule"] = ("programs: the 9 files of tests/unsolvable_benchmarks with the candidate sets/degrees of the test-suite and the CLI default, "
                            "discrete stand-ins of the two files with continuous draws, and generated variants (families: " + ", ".join(sorted(fam)) +
                            "); per program the k=1 search, the general search and synth_loop; per returned pair / synthesized program and per "
                            f"rational point of the free symbols one case; exact moments under Sem.run for n <= {N}; non-trivial = Q with >= 2 monomials; "
                            "distinct by (text, candidate set, degree, mode, Q, point)")
    ctx.coverage["family_histogram"] = fam
    ctx.coverage["pair_status"] = stat
    ctx.coverage["loop_status"] = lstat
    ctx.coverage["polar_errors"] = errs
    ctx.coverage["benchmark_transcription_matches_file"] = parsed_ok
    ctx.coverage["trusted_base"] += [
        "harness/progast.py printers (the same AST is printed as Polar text and as a Coq term); the 9 benchmark files are transcribed "
        "as ASTs and tied to the files by comparing Polar's parse of both texts",
        "harness/tasks_core.py structural dump of Polar's flat program / synthesized program; harness/exppoly.py decomposition of f "
        "(re-evaluated by the validator; f's exact values for the oracle comparison come from sympy substitution of Polar's expression)",
        "certificates (k, effective monomials' systems and closed forms, joint system) are untrusted: the validators recompute wp(Q)",
    ]
    ctx.assumptions += [
        "free template coefficients (_u..) and symbolic initial values (x0..) are instantiated at rational points before the comparison / "
        "validation: the per-instance theorem is 'for all n' at those points",
        "programs with continuous draws (deg-5: Normal, solvable-2dwalk: Uniform) are validated under the hypothesis cmom_ok (their moments "
        "enter as specifications cmom_std) and compared with the reference semantics on moment-matched discrete stand-ins",
        "closed forms with irrational bases are compared with the reference semantics only (n <= N)",
        "completeness of the synthesis (nonlinsolve's solution set; __get_effective_monoms__ building x**a + y**b for a mixed monomial) is not claimed",
    ]
