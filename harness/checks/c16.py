"""C16 — exponent-lattice bases consist of, and generate, all multiplicative relations.

proof part : props/C16.v — verified validators with soundness theorems for ALL integer vectors
             (relations exact; independence; generation certificate; rational case: relation
             <-> kernel + parity by unique factorisation, hence completeness), the faithful
             model of compute_basis_rational and its refutation.
tie        : the real ExponentLattice(bases).compute_basis() runs in a worker on generated base
             lists; its output is (a) fed to the Coq validators together with untrusted
             certificates (lattice_cert.py), evaluated by vm_compute in the kernel, and (b)
             compared with the Coq model of the repaired compute_basis_rational / _integer_kernel /
             is_trivially_empty (correspondence: must agree on every rational input).
search     : exact evaluation of prod b_i^e_i (Fractions / own tower arithmetic), the true
             integer kernel computed independently, bounded enumeration for irrational bases."""
import itertools
from fractions import Fraction

import lib
import exppoly
import lattice_cert as lc



# ---- generator ------------------------------------------------------------------------
UNIT_TESTS = [
    [("2", None), ("1/2", None)],
    [("1", None), ("-1", None)],
    [("CRootOf('x**2 + 1', 0)", "-I"), ("CRootOf('x**2 + 1', 1)", "I")],
    [("2", None), ("1/2", None), ("1", None), ("-1", None), ("CRootOf('x**2 + 1', 0)", "-I"),
     ("CRootOf('x**2 + 1', 1)", "I")],
    [("sqrt(2)", None), ("sqrt(3)", None)],
    [("1 + sqrt(2)", None), ("1 - sqrt(2)", None), ("3", None), ("5", None)],
]

FIXED = {
    "shared-primes": ["4;8", "8;4", "8;32", "9;27", "4;8;16", "12;18", "4;1/2", "1/4;8", "27/8;9/4", "4;32;1/8",
                      "16;32", "25;125", "36;216", "4;9;6", "8;27;6", "2;4", "32;2"],
    "minus-one-squares": ["-1;4", "-4;16", "-1;-1", "-2;4", "-8;4", "-4;8", "-2;2", "2;-2", "-1", "-4;-8", "-9;27;-3",
                          "-1;2;-2", "-1/4;8", "-2;-1/2"],
    "reciprocals": ["2;1/2", "3/2;2/3;9/4", "1/3;3;1/9", "5/7;7/5", "2/3;4/9;8/27"],
    "units": ["1", "1;1", "3;1", "1;-1", "2;1/3;1", "1;4;8", "-1;1", "1;1/2"],
    "coprime": ["2;3", "6;35", "3;1/5", "2;3;5;7", "1/2;1/3", "-2;3", "3;-1"],
    "repetitions": ["2;2", "2;2;2", "-1;-1;-1", "1/2;1/2;2", "4;4;8"],
    "roots-of-unity": ["I;-I", "-1;I", "I;2", "-1/2+sqrt(3)*I/2;-1/2-sqrt(3)*I/2", "I;-1;2", "-1/2+sqrt(3)*I/2;-1",
                       "1/2+sqrt(3)*I/2;-1"],
    "quadratic": ["sqrt(2);2", "sqrt(2);sqrt(8)", "1+sqrt(2);1-sqrt(2)", "3+2*sqrt(2);1+sqrt(2)", "2+sqrt(3);2-sqrt(3)",
                  "sqrt(2);-sqrt(2)", "sqrt(2);1/sqrt(2)", "sqrt(3);3;9", "1+sqrt(2);3-2*sqrt(2)", "sqrt(2);sqrt(3);sqrt(6)",
                  "sqrt(-2);2", "1+I;2",
                  # relations far outside any enumeration box (bases of very different size)
                  "sqrt(2);2**100", "1+I;2**100", "sqrt(2);2**90;3", "sqrt(3);3**64",
                  # ... and with a NON-INTEGRAL base (the height bound must account for the leading coefficient)
                  "sqrt(2);1/2**100", "sqrt(3);1/3**64;2", "1+I;1/2**80"],
    "golden": ["(1+sqrt(5))/2;(1-sqrt(5))/2", "(1+sqrt(5))/2;(1-sqrt(5))/2;-1", "(3+sqrt(5))/2;(1+sqrt(5))/2",
               "(1+sqrt(5))/2;(sqrt(5)-1)/2", "(1+sqrt(5))/2;2"],
}


def generate(ctx):
    out = []
    for i, lst in enumerate(UNIT_TESTS):
        out.append({"family": "unit-test", "polar": [p for p, _ in lst], "exact": [e or p for p, e in lst]})
    for fam, items in FIXED.items():
        for s in items:
            bs = s.split(";")
            out.append({"family": fam, "polar": bs, "exact": bs})
    rng = ctx.rng
    nrand = ctx.pick(60, 600)
    for _ in range(nrand):
        k = rng.choice([1, 2, 2, 3, 3, 4])
        primes = rng.sample([2, 3, 5, 7], rng.choice([1, 1, 2, 2, 3]))
        bs = []
        for _ in range(k):
            kind = rng.random()
            if kind < 0.08:
                bs.append(rng.choice(["1", "-1"]))
                continue
            if bs and kind < 0.16:
                bs.append(rng.choice(bs))
                continue
            q = Fraction(1)
            for p in primes:
                if rng.random() < 0.75:
                    q *= Fraction(p) ** rng.choice([-5, -4, -3, -2, -1, 1, 2, 2, 3, 3, 4, 5])
            if rng.random() < 0.3:
                q = -q
            bs.append(f"{q.numerator}/{q.denominator}" if q.denominator != 1 else str(q.numerator))
        out.append({"family": "random-rational", "polar": bs, "exact": bs})
    # random quadratic / mixed lists (kept small: the general algorithm is slow)
    pool = ["sqrt(2)", "-sqrt(2)", "2", "1/2", "1+sqrt(2)", "1-sqrt(2)", "-1", "I", "-I", "(1+sqrt(5))/2",
            "(1-sqrt(5))/2", "sqrt(3)", "3", "3+2*sqrt(2)", "sqrt(5)", "5", "2+sqrt(3)", "2-sqrt(3)", "sqrt(8)"]
    for _ in range(ctx.pick(12, 80)):
        k = rng.choice([2, 2, 3])
        bs = [rng.choice(pool) for _ in range(k)]
        out.append({"family": "random-irrational", "polar": bs, "exact": bs})
    seen, uniq = set(), []
    for i in out:
        key = tuple(i["polar"])
        if key not in seen:
            seen.add(key)
            uniq.append(i)
    return uniq


# ---- exact arithmetic in towers of quadratic extensions (oracle; nested pairs of Fractions) --
def t_zero(x):
    return (t_zero(x[0]), t_zero(x[1])) if isinstance(x, tuple) else Fraction(0)


def t_add(x, y):
    return (t_add(x[0], y[0]), t_add(x[1], y[1])) if isinstance(x, tuple) else x + y


def t_neg(x):
    return (t_neg(x[0]), t_neg(x[1])) if isinstance(x, tuple) else -x


def t_scale(q, x):
    return (t_scale(q, x[0]), t_scale(q, x[1])) if isinstance(x, tuple) else q * x


def t_mul(x, y, gens):
    if not isinstance(x, tuple):
        return x * y
    g = gens[-1]
    a, b = x
    c, d = y
    sub = gens[:-1]
    return (t_add(t_mul(a, c, sub), t_scale(g, t_mul(b, d, sub))), t_add(t_mul(a, d, sub), t_mul(b, c, sub)))


def t_one(k):
    return exppoly.embed(Fraction(1), k)


def t_is_zero(x):
    return (t_is_zero(x[0]) and t_is_zero(x[1])) if isinstance(x, tuple) else x == 0


def t_inv(x, gens):
    if not isinstance(x, tuple):
        return 1 / x
    a, b = x
    sub = gens[:-1]
    nrm = t_add(t_mul(a, a, sub), t_neg(t_scale(gens[-1], t_mul(b, b, sub))))
    ni = t_inv(nrm, sub)
    return (t_mul(a, ni, sub), t_neg(t_mul(b, ni, sub)))


def t_pow(x, xi, e, gens):
    base = x if e >= 0 else xi
    r = t_one(len(gens))
    for _ in range(abs(e)):
        r = t_mul(r, base, gens)
    return r


def t_prod(bs, invs, e, gens):
    r = t_one(len(gens))
    for b, bi, x in zip(bs, invs, e):
        r = t_mul(r, t_pow(b, bi, x, gens), gens)
    return r


def t_eq(x, y):
    return t_is_zero(t_add(x, t_neg(y)))


# ---- Coq terms -------------------------------------------------------------------------
def zl(v):
    return "[" + "; ".join(f"({x})%Z" for x in v) + "]"


def zm(M):
    return "[" + "; ".join(zl(r) for r in M) + "]"


def coq_facts(facts):
    return "[" + "; ".join(f"({'true' if neg else 'false'}, {zl(v)})" for neg, v in facts) + "]"


def coq_qc(fr):
    return f"(mkq ({fr.numerator}) {fr.denominator})"


HEADER = ("From Coq Require Import List ZArith QArith Qcanon.\n"
          "From Polar Require Import Qcx CRing ExpPoly Lattice LatticeRel LatticeRat LatticeModel.\n"
          "Import ListNotations.\n")


def analyse(inst, res):
    """inst: generated base list; res: worker answer.  Fills inst with the exact representation,
    certificates and the four Coq terms (rel, indep, gen, model)."""
    import sympy as sp
    B = res["basis"]
    inst["B"] = B
    k = len(inst["polar"])
    exact = [sp.sympify(s) for s in inst["exact"]]
    # cross-check the exact twin of a base given in another notation (CRootOf)
    for p, e, ex in zip(inst["polar"], inst["exact"], exact):
        if p != e and abs(complex(sp.N(sp.sympify(p), 30)) - complex(sp.N(ex, 30))) > 1e-20:
            raise ValueError(f"exact twin {e} differs from {p}")
    inst["rational"] = all(x.is_Rational for x in exact)
    inst["row_len_ok"] = all(len(r) == k for r in B)
    terms = {}
    if inst["rational"]:
        bs = [Fraction(int(x.p), int(x.q)) for x in exact]
        inst["fr"] = bs
        primes, facts = lc.factor_rationals(bs)
        inst["primes"], inst["facts"] = primes, facts
        qb = "[" + "; ".join(coq_qc(b) for b in bs) + "]"
        terms["rel"] = f"check_relations (R := Qc_cring) (map qbase {qb}) {zm(B)}"
        terms["model"] = (f"mat_eqb (R := Z_cring) (model_compute_basis {qb} {len(primes)} {coq_facts(facts)}) {zm(B)}")
        Bx = lc.ext_rows(B, facts) if inst["row_len_ok"] else None
        if Bx is not None:
            cert, why = lc.generation_cert(lc.vals_ext(primes, facts), Bx, k + 1)
            if cert:
                terms["gen"] = (f"check_rational_generates {zl(primes)} {coq_facts(facts)} {qb} {zm(Bx)} {zm(cert['V1'])} "
                                f"{zm(cert['Wa'])} {zm(cert['Wc'])} {zm(cert['Rt'])} ({cert['d']})%Z")
            else:
                inst["gen_why"] = why
        else:
            inst["gen_why"] = "a row violates the parity constraint or has the wrong length"
    else:
        consts = list(exact)
        gens = exppoly.field_of(consts)
        inst["gens"] = gens
        el = [exppoly.to_field(x, gens) for x in exact]
        inv = [t_inv(x, gens) for x in el]
        inst["el"], inst["inv"] = el, inv
        ring = exppoly.coq_ring(gens)
        pairs = "[" + "; ".join(f"({exppoly.coq_elem(b)}, {exppoly.coq_elem(bi)})" for b, bi in zip(el, inv)) + "]"
        terms["rel"] = f"check_relations (R := {ring}) {pairs} {zm(B)}"
    ic = lc.independence_cert(B) if (B and inst["row_len_ok"]) else (([[] for _ in range(k)], 1) if not B else None)
    if ic is not None:
        terms["indep"] = f"check_independent_Z {zm(B)} {zm(ic[0])} ({ic[1]})%Z"
    else:
        inst["indep_why"] = "rows are linearly dependent"
    inst["terms"] = terms


def exact_product_is_one(inst, e):
    if inst["rational"]:
        r = Fraction(1)
        for b, x in zip(inst["fr"], e):
            r *= b ** x
        return r == 1
    gens = inst["gens"]
    return t_eq(t_prod(inst["el"], inst["inv"], e, gens), t_one(len(gens)))


def bounded_missing_relation(inst, bound):
    """irrational bases: enumerate |e_i| <= bound, exact test, membership in span(B). -> e or None"""
    import cmath
    k = len(inst["polar"])
    gens = inst["gens"]
    zs = [exppoly.field_to_complex(x, gens) for x in inst["el"]]
    logs = [cmath.log(z) for z in zs]
    B = inst["B"]
    n = 0
    cands = sorted(itertools.product(range(-bound, bound + 1), repeat=k), key=lambda v: (sum(abs(x) for x in v), [-x for x in v]))
    for e in cands:
        if not any(e):
            continue
        n += 1
        s = sum(x * l for x, l in zip(e, logs))
        # prod = exp(s); equal to 1 iff s is a multiple of 2 pi i
        if abs(s.real) > 1e-7:
            continue
        t = s.imag / (2 * cmath.pi)
        if abs(t - round(t)) > 1e-7:
            continue
        if not exact_product_is_one(inst, e):
            continue
        try:
            if lc.in_span_Z(B, list(e)) is None:
                return list(e), n
        except ValueError:
            return None, n
    return None, n


def power_lattice_missing_relation(inst):
    """irrational bases some power (2, 4, 6, 8, 12) of each of which is rational: every relation of the bases is a relation
    of those powers, so the exact rational lattice L of the powers (independent algorithm lattice_cert.true_rational_lattice)
    supplies candidates m*u (u in a basis of L, m | 24) of ANY size; a candidate that is an exact relation of the bases
    but not in the integer span of the returned rows is a missing relation.  -> (e, number tested) or (None, n)"""
    import sympy as sp
    pw = None
    for m in (2, 4, 6, 8, 12):
        try:
            sq = [sp.nsimplify(sp.expand(sp.sympify(b) ** m), rational=True) for b in inst["polar"]]
        except Exception:
            return None, 0
        if all(x.is_Rational and x != 0 for x in sq):
            pw = (m, [Fraction(int(x.p), int(x.q)) for x in sq])
            break
    if pw is None:
        return None, 0
    try:
        L = lc.true_rational_lattice(pw[1])[0]
    except Exception:
        return None, 0
    n = 0
    for u in L:
        for mult in (1, 2, 3, 4, 6, 8, 12, 24):
            e = [mult * int(x) for x in u]
            if max(abs(x) for x in e) > 10 ** 6:
                continue
            n += 1
            try:
                if exact_product_is_one(inst, e):
                    if lc.in_span_Z(inst["B"], e) is None:
                        return e, n
                    break
            except (ValueError, OverflowError, MemoryError):
                break
    return None, n


def search_violation(inst):
    """-> (kind, witness dict) using oracles independent of Polar, or None"""
    B = inst["B"]
    k = len(inst["polar"])
    for row in B:
        if len(row) != k:
            return "wrong-length", {"row": row}
        if not exact_product_is_one(inst, row):
            return "not-a-relation", {"row": row}
    if B and lc.independence_cert(B) is None:
        return "dependent-rows", {"rows": B}
    if inst["rational"]:
        true_basis, _ = lc.true_rational_lattice(inst["fr"])
        for t in true_basis:
            if lc.in_span_Z(B, t) is None:
                return "missing-relation", {"relation": t, "true_basis": true_basis}
        return None
    return None


def classify(inst, kind):
    """signature of a violation = the failing input.  The two repaired defect shapes (/repo a4c7460,
    47f10be) are named in the text when the harness's own twin of the OLD rule explains the output."""
    return f"lattice:{';'.join(inst['polar'])}:{kind}"


def old_rule_hint(inst):
    if not inst["rational"]:
        return ""
    bs = inst["fr"]
    primes, facts = lc.factor_rationals(bs)
    if lc.trivially_empty_twin(bs) and any(b == 1 for b in bs) and inst["B"] == []:
        return " [shape of the repaired defect 47f10be: shortcut taken although a base equals 1]"
    if not lc.trivially_empty_twin(bs) and not lc.nullspace_is_integral(primes, facts):
        return " [shape of the repaired defect a4c7460: the rational nullspace basis is not integral]"
    return ""


def run(ctx):
    ok, log = lib.coq_check_props(ctx)
    if not ok:
        ctx.violation("proof-broken", {"theorem": "props/C16.v", "log": log[-3000:]},
                      "props/C16.v no longer checks", no_input=True)
        return
    ctx.coverage["trusted_base"] += [
        "harness/lattice_cert.py certificates and factorisations (untrusted: re-multiplied / re-checked by the validators)",
        "harness/exppoly.py representation of quadratic irrationals in towers Q(sqrt g1)..(sqrt gk) (identifies the checked numbers with Polar's input; cross-checked numerically)",
        "generated case files evaluated by vm_compute in the kernel (no extraction)",
    ]
    ctx.assumptions += [
        "completeness for non-rational bases is NOT proved (needs a Masser-type height bound): only soundness, independence and a bounded enumeration test",
        "base lists are sampled; each accepted rational instance is a theorem for ALL integer exponent vectors",
    ]
    insts = generate(ctx)
    if ctx.replay:
        import json
        with open(ctx.replay) as f:
            rp = json.load(f)
        insts = [rp["instance"]] if "instance" in rp else [{"family": "replay", "polar": rp["bases"], "exact": rp.get("exact", rp["bases"])}]
    tasks = [{"kind": "lattice", "bases": i["polar"], "timeout": ctx.pick(60, 240)} for i in insts]
    results = lib.run_tasks(tasks, timeout=ctx.pick(60, 240))
    hist, errs = {}, {}
    todo = []
    for inst, res in zip(insts, results):
        if "error" in res:
            key = res.get("etype", res["error"])
            errs[key] = errs.get(key, 0) + 1
            inst["polar_error"] = res
            continue
        try:
            analyse(inst, res)
        except Exception as e:  # noqa
            inst["harness_error"] = repr(e)
            errs["harness:" + type(e).__name__] = errs.get("harness:" + type(e).__name__, 0) + 1
            continue
        todo.append(inst)
    # ---- Coq evaluation of all validator instances
    files = []
    per = 25
    for j in range(0, len(todo), per):
        body = HEADER
        names = []
        for i, inst in enumerate(todo[j:j + per]):
            for key in ("rel", "indep", "gen", "model"):
                if key in inst["terms"]:
                    nm = f"c{i}_{key}"
                    body += f"Definition {nm} : bool := {inst['terms'][key]}.\n"
                    names.append(nm)
                    inst.setdefault("slots", []).append(key)
        body += "Eval vm_compute in [" + "; ".join(names) + "].\n"
        files.append((f"c16_{j // per}", body))
    out = lib.coq_run_many(ctx, files)
    for j in range(0, len(todo), per):
        okc, o = out[f"c16_{j // per}"]
        bl = lib.parse_bool_list(o) if okc else None
        pos = 0
        for inst in todo[j:j + per]:
            inst["coq"] = {}
            for key in inst.get("slots", []):
                inst["coq"][key] = (bl[pos] if bl is not None and pos < len(bl) else None)
                pos += 1
            if bl is None and o.startswith("TIMEOUT"):
                inst["coq_timeout"] = True
            elif bl is None:
                inst["coq_error"] = o[-800:]
    # ---- decide
    stat = {}
    searched = 0
    for inst in todo:
        fam = inst["family"]
        hist[fam] = hist.get(fam, 0) + 1
        k = len(inst["polar"])
        ctx.count({"b": inst["polar"]}, nontrivial=k >= 2)
        ctx.coverage["obligations"] += 1
        c = inst["coq"]
        inst["model_match"] = c.get("model")
        if inst.get("coq_timeout"):
            # the chunk of validator instances hit the time limit (loaded machine): undecided, counted, no verdict
            ctx.coverage["obligations"] -= 1
            stat["validator-time-limit"] = stat.get("validator-time-limit", 0) + 1
            continue
        if "coq_error" in inst:
            ctx.violation("coq-case-error:" + ";".join(inst["polar"]), {"bases": inst["polar"], "log": inst["coq_error"]},
                          "generated validator instance does not compile", no_input=True)
            continue
        sound = c.get("rel") is True and c.get("indep") is True
        complete = c.get("gen") is True if inst["rational"] else None
        if inst["rational"]:
            key = "model_agrees" if c.get("model") else "model_differs"
            ctx.coverage[key] = ctx.coverage.get(key, 0) + 1
            if c.get("model") is False and sound and complete:
                # correspondence K broken although the property holds on this input
                ctx.violation(f"model-mismatch:{';'.join(inst['polar'])}",
                              {"bases": inst["polar"], "polar_basis": inst["B"],
                               "stage": "LatticeModel.model_compute_basis (is_trivially_empty / compute_basis_rational / _integer_kernel)"},
                              f"the Coq model of compute_basis differs from the real output {inst['B']} on {inst['polar']} "
                              f"(the output itself is a proved basis)", no_input=True)
        if sound and (complete or not inst["rational"]):
            if inst["rational"]:
                stat["basis-proved"] = stat.get("basis-proved", 0) + 1
                ctx.coverage["discharged"] += 1
                ctx.sample({"bases": inst["polar"], "basis": inst["B"],
                            "validators": "relations, independence, generates-all-relations accepted (all integer vectors)"})
                continue
            # irrational: soundness + independence proved; completeness only tested
            bound = {1: 8, 2: 6, 3: 4, 4: 3}.get(k, 2)
            e, n = bounded_missing_relation(inst, bound)
            ctx.coverage["bounded_enumeration_vectors"] = ctx.coverage.get("bounded_enumeration_vectors", 0) + n
            if e is None:
                e, n2 = power_lattice_missing_relation(inst)
                ctx.coverage["power_lattice_candidates"] = ctx.coverage.get("power_lattice_candidates", 0) + n2
            if e is None:
                stat["sound+independent (completeness tested)"] = stat.get("sound+independent (completeness tested)", 0) + 1
                ctx.coverage["discharged"] += 1
                ctx.sample({"bases": inst["polar"], "basis": inst["B"],
                            "validators": f"relations, independence accepted; no missing relation with |e_i| <= {bound}"})
                continue
            kind, wit = "missing-relation", {"relation": e, "bound": bound}
        else:
            searched += 1
            found = search_violation(inst)
            if found is None and not inst["rational"] and sound is False:
                found = None
            if found is None:
                ctx.violation(f"unvalidated:{';'.join(inst['polar'])}",
                              {"bases": inst["polar"], "polar_basis": inst["B"], "coq": c,
                               "why": [inst.get("gen_why"), inst.get("indep_why")]},
                              f"validators did not accept the basis {inst['B']} of {inst['polar']} but no failing vector was found",
                              no_input=True)
                continue
            kind, wit = found
        sig = classify(inst, kind)
        what = {
            "not-a-relation": "returned row {row} is not a relation: prod b_i^e_i != 1",
            "wrong-length": "returned row {row} has the wrong length",
            "dependent-rows": "returned rows {rows} are linearly dependent",
            "missing-relation": "relation {relation} (prod b_i^e_i = 1 exactly) is not an integer combination of the returned rows",
        }[kind].format(**wit)
        new = ctx.violation(sig, {"bases": inst["polar"], "exact": inst["exact"],
                                  "instance": {"family": inst["family"], "polar": inst["polar"], "exact": inst["exact"]},
                                  "polar_basis": inst["B"], "kind": kind, "witness": wit,
                                  "validators": c, "call": "ExponentLattice(bases).compute_basis()"},
                            f"ExponentLattice({inst['polar']}).compute_basis() = {inst['B']}: {what}{old_rule_hint(inst)}")
        stat[kind] = stat.get(kind, 0) + 1
        if not new:
            ctx.coverage["discharged"] += 1  # instance decided: known finding
    ctx.coverage["rule"] = ("base lists from checks/c16.py (families: " + ", ".join(sorted(hist)) + "); one evaluation = one real "
                            "compute_basis() call validated in Coq; non-trivial = at least two bases; distinct by base list")
    ctx.coverage["family_histogram"] = hist
    ctx.coverage["decisions"] = stat
    ctx.coverage["polar_errors"] = errs
    ctx.coverage["searched_instances"] = searched
    for inst in insts:
        if "polar_error" in inst and inst["polar_error"].get("error") != "timeout":
            ctx.violation(f"exception:{';'.join(inst['polar'])}:{inst['polar_error'].get('etype')}",
                          {"bases": inst["polar"], "error": inst["polar_error"]},
                          f"compute_basis raised {inst['polar_error'].get('etype')} on non-zero algebraic bases {inst['polar']}")
        if "harness_error" in inst:
            ctx.violation(f"harness-unsupported:{';'.join(inst['polar'])}", {"bases": inst["polar"], "error": inst["harness_error"]},
                          "harness could not represent the instance", no_input=True)
