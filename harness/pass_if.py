"""C02 / IfTransformer: correspondence between the Gallina model PassIf.if_flatten_prog (proved
semantics-preserving in props/C02_IfTransformer.v) and program/transformer/if_transformer.py.

For every analysed program the snapshot BEFORE IfTransformer (DistTransformer's output, bodies
with {"if": ...} nodes) is turned into a Syntax.prog, the model is evaluated on it inside Coq
(vm_compute) with the counter value Polar actually used (read from the generated `_old<k>` names
of Polar's output), and the result is compared INSIDE Coq with the term built from Polar's
snapshot AFTER IfTransformer by a boolean structural equality (PassIfK.list_eqn ga_eqn:
names, defaults, condition structure exact; polynomials up to Poly normal form).
Also compared: the mutually_exclusive flags of Polar's IfStatem objects with the model's
recognition by shape (PassIf.mutex_shape), and the theorem's hypothesis wf_prog on the input.

A mismatch is reported as a broken correspondence (no_input=True): c02.py's exact joint-law
comparison of every pass snapshot is the semantic oracle and reports semantic differences."""
import re
import time

import random

import lib
import core
import gen
import progast as P

BATCH = 8

# shapes the theorem is about and that c02's acceptance-aware generator avoids (later passes refuse
# some of them): aliasing of negated conditions, user-written !, inner statements reassigning their
# own / the outer condition variables, literal true/false, categorical expansion inside a branch,
# guard folded into an if, simultaneous assignment and draws with variable parameters in a branch,
# if-statements in the initial block, polynomial atoms whose monomial order changes by renaming
EXTRA = [
    ("a=0\nb=0\ny=0\nwhile true:\n  if a==0:\n    y=1\n  elif b==0:\n    y=2\n  else:\n    a=5\n  end\nend\n", {}),
    ("a=0\nb=0\ny=0\nwhile a < 3:\n  if !(a==0) && b == 0:\n    y=1\n    if y == 1 || a == 0:\n      y = 2\n      b = 1\n    else:\n"
     "      y = 3\n    end\n  elif b==0:\n    b=2\n    a = a + 1\n  end\nend\n", {}),
    ("x=0\ny=0\nwhile true:\n  if true && x == 0:\n    x = 1\n  elif false || y == 0:\n    y = 1\n  end\nend\n", {}),
    ("x=0\nif x == 0:\n  x = 2\nelse:\n  x = 3\nend\nwhile true:\n  x = x + 1\nend\n", {}),
    ("x=0\ny=0\nwhile x < 3:\n  if y >= x:\n    x, y = y + 1, x\n  end\nend\n", {}),
    ("x=0\ny=0\nwhile true:\n  if !(x == 0):\n    y = 1 {1/2} 2\n  else:\n    x = Normal(y, 1)\n  end\nend\n", {"transform_categoricals": True}),
    ("x=0\ny=0\nz=0\nwhile true:\n  x = 0 {1/3} 1 {1/3} 2\n  if z + x*y > 2*x - z**2:\n    z = z + 1\n  elif !(z*x <= y) || x == 1:\n"
     "    x = x + y\n    y = y - 1\n  else:\n    z = 0\n  end\nend\n", {"transform_categoricals": True}),
    ("x=0\ny=0\nwhile true:\n  if x == 0:\n    if y == 0:\n      if x + y == 0:\n        x = 1\n      else:\n        y = 2\n      end\n"
     "      y = y + 1\n    end\n    x = x + 1\n  elif !(!(y == 1)):\n    y = 0\n    x = 0\n  end\n  if !(x == 1 && y == 1):\n    x = y\n  end\nend\n", {}),
    ("u=0\nv=0\nwhile true:\n  u = Bernoulli(1/2)\n  if u == 1:\n    v = DiscreteUniform(1, 3)\n    u = v\n  else:\n    v = v + u\n  end\nend\n", {}),
    # auxiliary flag must survive DistTransformer's rewriting of a draw with variable parameters (_t0 = _u + y unconditional)
    ("c=0\nx=0\ny=0\nwhile true:\n  c = Bernoulli(1/2)\n  if c == 1:\n    x, y = Normal(y, 1), x\n  end\nend\n", {}),
    ("c=0\nx=0\ny=0\nwhile true:\n  c = Bernoulli(1/2)\n  if c == 1:\n    x, y = DiscreteUniform(1,3), x + 1 {1/2} x\n  end\nend\n", {}),
]
OLD = re.compile(r"^_old(\d+)$")


class Skip(Exception):
    pass


def _walk_assigns(stmts):
    for s in stmts:
        if "if" in s:
            for _, b in s["if"]:
                yield from _walk_assigns(b)
            if s.get("else"):
                yield from _walk_assigns(s["else"])
        else:
            yield s


def _flags(stmts):
    """mutually_exclusive flags in the order TreeTransformer meets the if-statements (post-order)"""
    out = []
    for s in stmts:
        if "if" in s:
            for _, b in s["if"]:
                out += _flags(b)
            if s.get("else"):
                out += _flags(s["else"])
            out.append(bool(s.get("mutex")))
    return out


def _has_if(stmts):
    return any("if" in s for s in stmts)


def _check_input_shape(d):
    if d["guard"] != ["true"]:
        raise Skip("guard-not-true")
    for a in list(_walk_assigns(d["init"])) + list(_walk_assigns(d["body"])):
        if a["cond"] != ["true"] or a["default"] != a["var"]:
            raise Skip("input-assignment-already-guarded")
        if a["rhs"][0] == "func":
            raise Skip("functional-assignment")


def _counter(d_out):
    ks = []
    for a in d_out["init"] + d_out["body"]:
        if "if" in a:
            continue
        m = OLD.match(a["var"])
        if m:
            ks.append(int(m.group(1)))
    return min(ks) if ks else 0


def _case(run):
    """-> (coq definitions + 2 Evals, info) or raises Skip"""
    snaps = run.get("snapshots") or []
    names = [n for n, _ in snaps]
    if "IfTransformer" not in names:
        raise Skip("no-IfTransformer-snapshot")
    j = names.index("IfTransformer")
    if j == 0:
        raise Skip("no-input-snapshot")
    in_name, d_in = snaps[j - 1]
    d_out = snaps[j][1]
    if "unsupported" in d_in or "unsupported" in d_out:
        raise Skip("unsupported-dump")
    _check_input_shape(d_in)
    try:
        p_in = core.prog_from_dump(d_in)
        src = P.prog_coq(p_in)
    except core.NotModelled as e:
        raise Skip(f"not-modelled:{str(e)[:40]}")
    left_if = _has_if(d_out["init"]) or _has_if(d_out["body"])
    try:
        exp = None if left_if else core.flat_coq(d_out)
    except core.NotModelled as e:
        raise Skip(f"not-modelled:{str(e)[:40]}")
    k0 = _counter(d_out)
    flags = _flags(d_in["init"]) + _flags(d_in["body"])
    info = {"input_pass": in_name, "counter": k0, "flags": flags, "n_ifs": len(flags), "left_if": left_if,
            "n_old": sum(1 for a in d_out["init"] + d_out["body"] if "if" not in a and OLD.match(a["var"]))}
    return src, exp, k0, flags, info


def _polar_text(d_out):
    try:
        return P.prog_text(core.prog_from_dump(d_out))
    except Exception:  # noqa
        return None


# the hypothesis wf_prog on the real code: a user variable named like the name the pass generates
CAPTURE = "_old0 = 7\nx = 0\ny = 0\nwhile true:\n    if x == 0:\n        x = 1\n        y = _old0\n    end\nend\n"


def capture_probe(ctx, probe, cov):
    """Polar's IfTransformer output on CAPTURE (fresh counter) against the source program, exact
    E(y) after one iteration computed by the reference semantics inside Coq on both."""
    info = {"program": CAPTURE, "hypothesis": "wf_prog (no input variable named _old...)"}
    cov["capture_probe"] = info
    if not probe or "error" in probe or "exception" in probe:
        info["outcome"] = "not accepted by Polar: " + str((probe or {}).get("exception") or (probe or {}).get("error"))
        return
    try:
        src, exp, k0, flags, _ = _case(probe)
    except Skip as s:
        info["outcome"] = f"not comparable: {s}"
        return
    if exp is None:
        info["outcome"] = "if-statement left"
        return
    body = (core.FLAT_HEADER + "From Polar Require Import PassIf PassIfK.\n"
            f"Definition p0 : prog := {src}.\nDefinition e0 : flatprog := {exp}.\n"
            'Eval vm_compute in [qnum (E (run no_law p0 1 st0) (fun s => s "y")); qnum (E (frun no_law e0 1 st0) (fun s => s "y"))].\n'
            f"Eval vm_compute in (pass_if_check false {k0} p0 e0 {P.lst(['true' if x else 'false' for x in flags])}).\n")
    ok, out = lib.coq_run(ctx, "pif_capture", body, timeout=120)
    m = re.search(r"=\s*\[\s*\(?(-?\d+)\)?%Z;\s*\(?(-?\d+)\)?%Z\s*\]", out or "")
    mb = re.search(r"=\s*\[([^\]]*)\]\s*:\s*list bool", out or "")
    bools = [x.strip() == "true" for x in mb.group(1).split(";")] if mb else None
    if not ok or not m or not bools or len(bools) != 5:
        info["outcome"] = "no answer from Coq"
        info["coq"] = (out or "")[-600:]
        return
    a, b = int(m.group(1)), int(m.group(2))
    info.update({"E(y)_after_1_iteration_source": a, "E(y)_after_1_iteration_IfTransformer_output": b,
                 "wf_prog": bools[4], "model_equals_polar": bools[1] and bools[2], "polar_output": probe.get("text_after")})
    if a != b:
        info["outcome"] = (f"CAPTURE: the generated copy `_old0 = x` overwrites the user's variable _old0: E(y) after one iteration is {a} "
                           f"in the source and {b} after IfTransformer; the hypothesis wf_prog is necessary and Polar does not enforce it")
    else:
        info["outcome"] = "no capture: the pass output agrees with the source on this program"


def extra_runs(ctx):
    """targeted and random programs run through Polar up to IfTransformer only (tasks_passif.py)"""
    rng = random.Random(ctx.seed * 7919 + 17)
    todo = list(EXTRA)
    for i in range(ctx.pick(24, 300)):
        g = gen.G(rng, max_depth=rng.choice([2, 3]), allow_nested_reassign=True)
        todo.append((P.prog_text(g.program()), {"transform_categoricals": True} if i % 2 else {}))
    tasks = [{"kind": "passif", "text": t, "opts": o, "timeout": 60} for t, o in todo]
    tasks.append({"kind": "passif", "text": CAPTURE, "opts": {}, "timeout": 60, "fresh_counter": True})
    res = lib.run_tasks(tasks, timeout=60, jobs=ctx.pick(4, 12))
    probe = res.pop()
    if isinstance(probe, dict):
        probe.update({"text": CAPTURE, "opts": {}})
    out, errs = [], {}
    for (t, o), r in zip(todo, res):
        if "error" in r or "exception" in r:
            k = r.get("error") or r["exception"]["etype"]
            errs[k] = errs.get(k, 0) + 1
            continue
        out.append({"text": t, "opts": o, "snapshots": r.get("snapshots") or [], "counter_at_pass": r.get("counter_at_pass"),
                    "counter_after": r.get("counter_after"), "origin": "pass_if"})
    return out, errs, probe


def _blist(txt):
    return [x.strip() == "true" for x in txt.split(";") if x.strip()]


def _nlist(txt):
    return [int(re.sub(r"%nat", "", x).strip()) for x in txt.split(";") if x.strip()]


RULES = {"old": "if_flatten_prog_old (every assignment of a branch gets the branch condition; theorems C02_if_flatten_old_rule_*)",
         "new": "if_flatten_prog (auxiliary assignments _old/_t/_c stay unconditional; theorems C02_if_flatten_*)"}


def run_pass(ctx, runs):
    t_start = time.time()
    ok, log = lib.coq_make(["theories/PassIfK.vo"])
    cov = {"instances": 0, "matched": 0, "with_if": 0, "with_old_copies": 0, "mutex_statements": 0, "skipped": {}}
    ctx.coverage["pass_if"] = cov
    if not ok:
        ctx.violation("pass_if:model-build", {"log": log[-3000:], "theorem": "theories/PassIfK.v"},
                      "the IfTransformer model / correspondence helpers no longer build", no_input=True)
        return
    own, own_errs, probe = extra_runs(ctx)
    capture_probe(ctx, probe, cov)
    cov["own_programs"] = len(own)
    if own_errs:
        cov["own_program_errors"] = own_errs
    cases, seen = [], set()
    for r in list(runs) + own:
        key = (r["text"], tuple(sorted(r["opts"].items())))
        if key in seen:
            continue
        seen.add(key)
        try:
            src, exp, k0, flags, info = _case(r)
        except Skip as s:
            cov["skipped"][str(s)] = cov["skipped"].get(str(s), 0) + 1
            continue
        if info["n_old"] and r.get("counter_at_pass") is not None and r["counter_at_pass"] != k0:
            ctx.violation(f"pass_if:counter:{r['text']}", {"program_text": r["text"], "options": r["opts"], "counter_at_pass": r["counter_at_pass"],
                                                           "smallest_old_index": k0},
                          "the first _old name generated by IfTransformer is not _old<counter at the start of the pass>", no_input=True)
            continue
        if r.get("counter_after") is not None and r.get("counter_at_pass") is not None:
            info["polar_counter_after"] = r["counter_after"]
            if not info["n_old"]:
                k0 = r["counter_at_pass"]
        cases.append({"run": r, "src": src, "exp": exp, "k0": k0, "flags": flags, "info": info})
    header = core.FLAT_HEADER + "From Polar Require Import PassIf PassIfAux PassIfK.\n"
    files = []
    for b in range(0, len(cases), BATCH):
        body = header
        for i, c in enumerate(cases[b:b + BATCH]):
            n = b + i
            c["idx"] = n
            if c["exp"] is None:
                continue
            fl = P.lst(["true" if x else "false" for x in c["flags"]])
            body += (f"Definition p{n} : prog := {c['src']}.\nDefinition e{n} : flatprog := {c['exp']}.\n"
                     f"Eval vm_compute in (pass_if_check false {c['k0']} p{n} e{n} {fl}).\n"
                     f"Eval vm_compute in (pass_if_check true {c['k0']} p{n} e{n} {fl}).\n"
                     f"Eval vm_compute in (aux_parts p{n}).\n"
                     f"Eval vm_compute in (pass_if_diag false {c['k0']} p{n} e{n}).\n"
                     f"Eval vm_compute in (pass_if_diag true {c['k0']} p{n} e{n}).\n")
        files.append((f"pif_{b // BATCH}", body))
    outs = lib.coq_run_many(ctx, files, timeout=170)
    results = {}
    for b in range(0, len(cases), BATCH):
        okc, out = outs[f"pif_{b // BATCH}"]
        bools = re.findall(r"=\s*\[([^\]]*)\]\s*:\s*list bool", out, re.S)
        nats = re.findall(r"=\s*\[([^\]]*)\]\s*:\s*list nat", out, re.S)
        live = [c for c in cases[b:b + BATCH] if c["exp"] is not None]
        if not okc or len(bools) != 3 * len(live) or len(nats) != 2 * len(live):
            for c in live:
                results[c["idx"]] = ("coq-error", out[-1500:])
            continue
        for j, c in enumerate(live):
            results[c["idx"]] = {"old": (_blist(bools[3 * j]), _nlist(nats[2 * j])),
                                 "new": (_blist(bools[3 * j + 1]), _nlist(nats[2 * j + 1])),
                                 "aux_parts": _blist(bools[3 * j + 2])}
    # ---- which rule does the tree under test follow?  decided by the instances on which the two models differ
    votes = {"old": 0, "new": 0}
    for c in cases:
        res = results.get(c.get("idx"))
        if not isinstance(res, dict) or len(res["old"][0]) != 5 or len(res["new"][0]) != 5:
            continue
        m_old = res["old"][0][0] and res["old"][0][1] and res["old"][0][2]
        m_new = res["new"][0][0] and res["new"][0][1] and res["new"][0][2]
        c["m"] = {"old": m_old, "new": m_new}
        if m_old != m_new:
            votes["old" if m_old else "new"] += 1
    if votes["new"] > votes["old"]:
        rule = "new"
    elif votes["old"] > 0 or votes["new"] == 0:
        rule = "old" if votes["old"] > 0 else "undetermined"
    cov["rule"] = rule
    cov["rule_votes"] = votes
    cov["rule_model"] = RULES.get(rule, "both models agree with the code on every instance (no auxiliary assignment inside a branch)")
    use = "new" if rule == "new" else "old"
    cov["hypothesis_false"] = 0
    for c in cases:
        r, info = c["run"], c["info"]
        cov["instances"] += 1
        ctx.coverage["obligations"] += 1
        if info["n_ifs"]:
            cov["with_if"] += 1
        if info["n_old"]:
            cov["with_old_copies"] += 1
        cov["mutex_statements"] += sum(1 for f in c["flags"] if f)
        ctx.count({"pass_if": r["text"], "o": sorted(r["opts"].items())}, nontrivial=bool(info["n_ifs"]))
        sig = f"pass_if:{r['text']}:{sorted(r['opts'].items())}"
        replay = {"program_text": r["text"], "options": r["opts"], "pass": "IfTransformer", "counter_at_pass": c["k0"],
                  "mutually_exclusive_flags": c["flags"], "rule_of_the_tree": rule, "rule_votes": votes,
                  "correspondence": f"PassIf.{'if_flatten_prog' if use == 'new' else 'if_flatten_prog_old'} vs IfTransformer.execute",
                  "polar_output": _polar_text(dict(r["snapshots"])["IfTransformer"])}
        if c["exp"] is None:
            ctx.violation(sig, replay, "IfTransformer left an if-statement in the program (model: flat list)\n" + r["text"], no_input=True)
            continue
        res = results.get(c["idx"])
        if not isinstance(res, dict):
            replay["coq_output"] = res[1] if res else None
            ctx.violation(sig, replay, "the IfTransformer model could not be evaluated on Polar's snapshot\n" + r["text"], no_input=True)
            continue
        bools, nats = res[use]
        if len(bools) != 5:
            replay["coq_output"] = str(res)
            ctx.violation(sig, replay, "unexpected output of pass_if_check", no_input=True)
            continue
        defined, init_eq, body_eq, flags_eq, hyp = bools
        replay.update({"model_defined": defined, "init_equal": init_eq, "body_equal": body_eq, "flags_equal": flags_eq,
                       "hypothesis(wf_prog | aux_ok_prog)": hyp, "aux_ok_parts[wf,mass,live]": res["aux_parts"],
                       "matches": c.get("m"),
                       "diag[len_model_init,len_polar_init,first_diff_init,len_model_body,len_polar_body,"
                       "first_diff_body,model_counter_after]": nats})
        if not res["aux_parts"][0]:
            # a source variable named _old...: outside both theorems (see the capture probe)
            cov["skipped"]["wf-hypothesis-false"] = cov["skipped"].get("wf-hypothesis-false", 0) + 1
            continue
        if not defined:
            ctx.violation(sig, replay, "IfTransformer input outside the model (if_flatten_prog = None)\n" + r["text"], no_input=True)
            continue
        if not flags_eq:
            ctx.violation(sig, replay, "mutually_exclusive flag of an IfStatem differs from the shape recognised by the model "
                                       "(PassIf.mutex_shape)\n" + r["text"], no_input=True)
            continue
        if not (init_eq and body_eq):
            where = "init" if not init_eq else "body"
            k = nats[2] if not init_eq else nats[5]
            other = "new" if use == "old" else "old"
            extra = (f"; this instance follows the OTHER rule ({other}) while {votes[use]} instances follow rule {use}: the tree mixes the rules"
                     if c.get("m", {}).get(other) else "")
            ctx.violation(sig, replay,
                          f"IfTransformer's output differs from the model (rule={rule}: {RULES[use].split(' (')[0]}; the theorems of "
                          f"props/C02_IfTransformer.v no longer describe the code): first differing assignment #{k} of the {where} "
                          f"(model {nats[0 if not init_eq else 3]} assignments, Polar {nats[1 if not init_eq else 4]}), "
                          f"counter at the pass {c['k0']}{extra}\n{r['text']}", no_input=True)
            continue
        if info.get("polar_counter_after") is not None and nats[6] != info["polar_counter_after"]:
            ctx.violation(sig, replay, f"counter after IfTransformer: model {nats[6]}, Polar {info['polar_counter_after']}\n{r['text']}",
                          no_input=True)
            continue
        cov["matched"] += 1
        if not hyp:
            # model = code, but the theorem's boolean hypothesis fails on this input (new rule: mass / liveness)
            cov["hypothesis_false"] += 1
            if len(cov.setdefault("hypothesis_false_on", [])) < 3:
                cov["hypothesis_false_on"].append({"program": r["text"], "options": r["opts"], "aux_ok_parts[wf,mass,live]": res["aux_parts"]})
            continue
        ctx.coverage["discharged"] += 1
        if info["n_old"] and len([s for s in ctx.coverage["samples"] if "if_flatten" in str(s)]) < 1:
            ctx.sample({"program": r["text"], "if_flatten_equals_IfTransformer_output": True, "rule": rule, "counter": c["k0"],
                        "old_copies": info["n_old"], "if_statements": info["n_ifs"]})
    cov["wall_s"] = round(time.time() - t_start, 1)
    print(f"  [pass IfTransformer] rule={rule} (votes {votes}) instances={cov['instances']} model==polar={cov['matched']} "
          f"hypothesis_false={cov['hypothesis_false']} with_if={cov['with_if']} "
          f"with_old_copies={cov['with_old_copies']} mutex_statements={cov['mutex_statements']} skipped={cov['skipped']} "
          f"wall={cov['wall_s']}s", flush=True)
    print(f"  [pass IfTransformer] hypothesis wf_prog on the code: {cov['capture_probe'].get('outcome')}", flush=True)
    ctx.coverage["trusted_base"] += [
        "harness/pass_if.py + harness/core.py: conversion of the DistTransformer/IfTransformer snapshots into Syntax.prog / "
        "Syntax.flatprog (polynomials expanded by sympy in tasks_core.dump_expr; equality up to PassIfK.expr_eqn, proved sound)",
        "PassIf.mutex_shape stands for IfStatem.mutually_exclusive (compared with Polar's flag on every instance)",
        "PassIf.is_aux (names _old.., _t<digits>, _c<digits>) stands for Assignment.auxiliary of the proposed rule"]
    ctx.assumptions += [f"IfTransformer: the tree follows rule={rule}; theorem for that model (all blocks, states, iterations); model = code "
                        "checked syntactically on every analysed program; hypothesis wf_prog (no input variable named _old...) is not "
                        "enforced by Polar's parser; new rule: aux_ok (mass 1 of auxiliary right-hand sides, auxiliaries assigned "
                        "before read) evaluated on every instance"]
