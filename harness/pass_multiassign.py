"""C02 / MultiAssignTransformer: correspondence between the Gallina model
PassMultiAssign.multi_assign (theorems C02_multi_assign_step / _preserves in
props/C02_MultiAssign.v) and program/transformer/multi_assign_transformer.py.

For every program analysed by checks/c02.py: the loop body of Polar's snapshot BEFORE the
pass (the IfTransformer snapshot) is given to the model inside Coq and the result is compared
with the body of Polar's snapshot AFTER the pass (same generated names `_<x><i>`, same
substituted conditions / defaults / right-hand sides, polynomials up to normal form); the
initial block and the guard must be untouched; the boolean hypothesis wf_ma_prog of the
theorem is evaluated on the real input.  A mismatch is reported as a broken correspondence
(the exact joint-law comparison of c02.py is the semantic oracle and reports a semantic
difference itself).  The hypothesis itself is probed on the real code (capture probe)."""
import json
import re
import time
from fractions import Fraction

import core
import lib
import flatpass_util as U

PASS = "MultiAssignTransformer"
BEFORE = "IfTransformer"


def _case(b, a):
    ib, bb, ab = U.gas_term(b["init"]), U.gas_term(b["body"]), U.gas_term(a["body"])
    defs = (f"Definition i0 : list gassign := {ib}.\nDefinition b0 : list gassign := {bb}.\n"
            f"Definition e0 : list gassign := {ab}.")
    expr = ("(gas_eq (multi_assign b0) e0, wf_ma_prog {| fp_init := i0; fp_body := b0 |}, "
            "first_diff (multi_assign b0) e0 0)")
    return defs, expr


def run_pass(ctx, runs):
    t0 = time.time()
    st = {"compared": 0, "equal_and_hypothesis_holds": 0, "hypothesis_failed": 0, "not_observed": 0,
          "not_modelled": 0, "coq_no_answer": 0, "renaming_exercised": 0}
    cases, seen = [], {}
    extra, st["extra_programs"] = U.extra_runs(ctx, lib)
    for run in list(runs) + extra:
        pair = U.snapshot_pair(run, BEFORE, PASS)
        if pair is None:
            st["not_observed"] += 1
            continue
        b, a = pair
        key = json.dumps([b["init"], b["body"], a["init"], a["body"]], sort_keys=True)
        if key in seen:
            seen[key]["n"] += 1
            continue
        try:
            coq = _case(b, a)
        except core.NotModelled:
            st["not_modelled"] += 1
            continue
        c = {"coq": coq, "run": run, "b": b, "a": a, "n": 1,
             "untouched": b["init"] == a["init"] and b["guard"] == a["guard"]}
        seen[key] = c
        cases.append(c)
    probe = U.capture_probe(ctx, lib, "ma")
    pcase = _probe_case(probe)
    U.run_cases(ctx, lib, "pma", cases + ([pcase] if pcase else []))
    mism = []
    for c in cases:
        ctx.coverage["obligations"] += c["n"]
        st["compared"] += c["n"]
        run, b, a = c["run"], c["b"], c["a"]
        if c["res"] is None:
            st["coq_no_answer"] += c["n"]
            continue
        eq, wf, d = c["res"]
        if any(x["var"] != y["var"] for x, y in zip(b["body"], a["body"])):
            st["renaming_exercised"] += c["n"]
        if not eq or not c["untouched"]:
            st["mismatches"] = st.get("mismatches", 0) + c["n"]
            mism.append(c)
            continue
        if not wf:
            st["hypothesis_failed"] += c["n"]
            ctx.coverage.setdefault("hypothesis_failed_on", []).append({"pass": PASS, "program": run["text"]})
            continue
        st["equal_and_hypothesis_holds"] += c["n"]
        ctx.coverage["discharged"] += c["n"]
    U.report_mismatches(ctx, lib, PASS, mism, "PassMultiAssign.multi_assign", "props/C02_MultiAssign.v: C02_multi_assign_preserves", lambda d: d["body"])
    _probe_report(ctx, probe, pcase, st)
    ctx.coverage.setdefault("pass_models", {})[PASS] = st
    print(f"  [pass {PASS}] " + " ".join(f"{k}={v}" for k, v in st.items() if isinstance(v, int)) + f" wall={time.time() - t0:.1f}s", flush=True)
    ctx.coverage["trusted_base"].append(
        "harness/pass_multiassign.py, flatpass_util.py, core.ga_coq: Polar's IfTransformer/MultiAssignTransformer snapshots -> "
        "Coq terms; PassFlatCmp.gas_eq (unverified comparison up to polynomial normal form: can hide a mismatch, cannot make a theorem false)")
    ctx.assumptions.append(
        "C02_multi_assign_*: hypothesis wf_ma_prog (no variable of the program is named like a generated version `_<x><i>`; versions of "
        "different variables are different names) — evaluated on every compared program; Polar does not enforce it (capture probe)")


# ---- the hypothesis wf_ma on the real code ------------------------------------------------
def _probe_case(probe):
    if not probe or "error" in probe or "exception" in probe:
        return None
    pair = U.snapshot_pair(probe, BEFORE, PASS)
    if pair is None:
        return None
    b, a = pair
    try:
        ib, bb, ab = U.gas_term(b["init"]), U.gas_term(b["body"]), U.gas_term(a["body"])
    except core.NotModelled:
        return None
    defs = (f"Definition i0 : list gassign := {ib}.\nDefinition b0 : list gassign := {bb}.\n"
            f"Definition e0 : list gassign := {ab}.\n"
            "Definition obs (fp : flatprog) : Z * positive := qpair (E (frun no_law fp 1 st0) (fun s => s \"x\")).\n"
            "Eval vm_compute in [obs {| fp_init := i0; fp_body := b0 |}; obs {| fp_init := i0; fp_body := e0 |}].")
    expr = "(gas_eq (multi_assign b0) e0, wf_ma_prog {| fp_init := i0; fp_body := b0 |}, 0%nat)"
    return {"coq": (defs, expr), "probe": True}


def parse_qpairs(log):
    out = []
    for m in re.finditer(r"\(\s*\(?(-?\d+)\)?%Z\s*,\s*(\d+)%positive\s*\)", log or ""):
        out.append(Fraction(int(m.group(1)), int(m.group(2))))
    return out


def _probe_report(ctx, probe, pcase, st):
    info = {"program": (probe or {}).get("text")}
    st["capture_probe"] = info
    if pcase is None:
        info["outcome"] = "not accepted by Polar: " + json.dumps((probe or {}).get("exception") or (probe or {}).get("error"))
        return
    if pcase.get("res") is None:
        info["outcome"] = "no answer from Coq"
        return
    eq, wf, _ = pcase["res"]
    vals = parse_qpairs(pcase.get("out_all", ""))
    info.update({"model_equals_polar": eq, "wf_ma_prog": wf})
    if wf:
        info["outcome"] = "hypothesis holds (names no longer collide)"
        return
    if len(vals) >= 2 and vals[0] != vals[1]:
        info["outcome"] = f"E(x) after 1 iteration: {vals[0]} before the pass, {vals[1]} after"
        ctx.violation("MultiAssignTransformer:user-variable-captured-by-version-name",
                      {"program_text": probe["text"], "pass": PASS, "n": 1, "observed": "E(x)",
                       "before_pass": str(vals[0]), "after_pass": str(vals[1]),
                       "hypothesis_violated": "wf_ma_prog (props/C02_MultiAssign.v)",
                       "body_after_pass_polar": [U.ga_text(x) for x in U.snapshot_pair(probe, BEFORE, PASS)[1]["body"]]},
                      f"MultiAssignTransformer names the first version of x `_x1` without checking that the program has no variable "
                      f"of that name: E(x) after one iteration is {vals[0]} before the pass and {vals[1]} after it\n{probe['text']}")
    else:
        info["outcome"] = "hypothesis fails but no semantic difference exhibited"
