"""Worker tasks for the core pipeline (C01-C05, C09, C17, C18, C20): run the real Polar on a
program text and dump every stage structurally (exact rationals, sorted monomials)."""
import sys
from fractions import Fraction

import sympy as sp

import exppoly
from exppoly import Unsupported


# ---- structural dumps -----------------------------------------------------------------
def dump_num(c):
    c = sp.nsimplify(sp.sympify(str(c)), rational=True) if not hasattr(c, "p") else c
    c = sp.Rational(c)
    return f"{c.p}/{c.q}"


def dump_expr(e):
    """symengine/sympy polynomial expression -> sorted list of [coeff, [[var, power], ...]].
    All symbols (program variables and parameters) are treated as indeterminates."""
    e = sp.expand(sp.sympify(str(e)))
    syms = sorted(e.free_symbols, key=str)
    if not syms:
        if not e.is_Rational:
            e = sp.nsimplify(e, rational=True)
            if not e.is_Rational:
                raise Unsupported(f"non-rational constant {e}")
        return [[f"{e.p}/{e.q}", []]] if e != 0 else []
    try:
        P = sp.Poly(e, *syms)
    except Exception as ex:  # noqa
        raise Unsupported(f"not a polynomial: {e}")
    out = []
    for mon, co in P.terms():
        co = sp.nsimplify(co, rational=True)
        if not co.is_Rational:
            raise Unsupported(f"non-rational coefficient {co}")
        out.append([f"{co.p}/{co.q}", [[str(s), int(k)] for s, k in zip(syms, mon) if k]])
    out.sort(key=lambda t: (t[1], t[0]))
    return out


def dump_cond(c):
    name = type(c).__name__
    if name == "TrueCond":
        return ["true"]
    if name == "FalseCond":
        return ["false"]
    if name == "Atom":
        return ["atom", dump_expr(c.poly1), c.cop, dump_expr(c.poly2)]
    if name == "Not":
        return ["not", dump_cond(c.cond)]
    if name == "And":
        return ["and", dump_cond(c.cond1), dump_cond(c.cond2)]
    if name == "Or":
        return ["or", dump_cond(c.cond1), dump_cond(c.cond2)]
    raise Unsupported(f"condition {name}")


def dump_dist(d):
    name = type(d).__name__
    if name == "Bernoulli":
        return ["bern", dump_expr(d.p)]
    if name == "Categorical":
        return ["cat", [dump_expr(p) for p in d.probabilities]]
    if name == "DiscreteUniform":
        return ["unif", int(d.values[0]), int(d.values[-1])]
    params = []
    for k in sorted(vars(d)):
        v = getattr(d, k)
        try:
            params.append([k, dump_expr(v)])
        except Exception:
            params.append([k, str(v)])
    return ["cont", name, params]


def dump_assign(a):
    name = type(a).__name__
    d = {"var": str(a.variable), "cond": dump_cond(a.condition), "default": str(a.default),
         "guard_implied": bool(a.condition.is_implied_by_loop_guard())}
    if name == "PolyAssignment":
        d["rhs"] = ["choice", [[dump_expr(p), dump_expr(e)] for p, e in zip(a.probabilities, a.polynomials)]]
    elif name == "DistAssignment":
        d["rhs"] = ["draw", dump_dist(a.distribution)]
    elif name == "FunctionalAssignment":
        d["rhs"] = ["func", str(a.func), str(a.argument)]
    else:
        raise Unsupported(f"assignment {name}")
    return d


def dump_stmt(s):
    name = type(s).__name__
    if name == "IfStatem":
        return {"if": [[dump_cond(c), [dump_stmt(x) for x in b]] for c, b in zip(s.conditions, s.branches)],
                "else": [dump_stmt(x) for x in s.else_branch] if s.else_branch else None,
                "mutex": bool(getattr(s, "mutually_exclusive", False))}
    return dump_assign(s)


def dump_types(program):
    out = []
    for v, t in program.typedefs.items():
        if type(t).__name__ == "Finite":
            vals = []
            for x in t.values:
                x = sp.nsimplify(sp.sympify(str(x)), rational=True)
                vals.append(f"{x.p}/{x.q}" if x.is_Rational else str(x))
            out.append([str(v), sorted(vals, key=lambda s: Fraction(s) if "/" in s else 0)])
        else:
            out.append([str(v), type(t).__name__])
    out.sort()
    return out


def dump_program(program):
    return {
        "init": [dump_stmt(s) for s in program.initial],
        "body": [dump_stmt(s) for s in program.loop_body],
        "guard": dump_cond(program.loop_guard),
        "types": dump_types(program),
        "symbols": sorted(str(s) for s in program.symbols),
        "variables": sorted(str(s) for s in program.variables),
        "original_variables": sorted(str(s) for s in program.original_variables),
    }


# ---- running the pipeline -------------------------------------------------------------
def reset_settings(opts):
    import settings
    settings.cond2arithm = bool(opts.get("cond2arithm", False))
    settings.transform_categoricals = bool(opts.get("transform_categoricals", False))
    settings.trivial_guard = False
    settings.disable_type_inference = False
    settings.numeric_roots = bool(opts.get("numeric_roots", False))
    settings.numeric_croots = bool(opts.get("numeric_croots", False))
    settings.numeric_eps = float(opts.get("numeric_eps", 1e-10))
    settings.exact_func_moments = bool(opts.get("exact_func_moments", True))
    if "type_fp_iterations" in opts:
        settings.type_fp_iterations = int(opts["type_fp_iterations"])
    else:
        settings.type_fp_iterations = 100
    return settings


def classify_exception(e):
    import traceback
    tb = traceback.extract_tb(e.__traceback__)
    fn = ""
    for fr in reversed(tb):
        if "/harness/" not in fr.filename:
            fn = f"{fr.filename.split('/')[-1]}:{fr.name}"
            break
    return {"etype": type(e).__name__, "msg": str(e)[:500], "raiser": fn}


PASSES = ["LoopGuardTransformer", "DistTransformer", "IfTransformer", "MultiAssignTransformer", "ConditionsReducer",
          "ConstantsTransformer", "TypeInferer", "ConditionsNormalizer", "ConditionsToArithm"]


def normalize_with_snapshots(program, want):
    import program.transformer as T
    from program import normalize_program
    snaps = []
    if not want:
        return normalize_program(program), snaps
    originals = {}

    def wrap(cls):
        orig = cls.execute

        def execute(self, p, _orig=orig, _name=cls.__name__):
            r = _orig(self, p)
            if _name in PASSES:
                try:
                    snaps.append([_name, dump_program(r)])
                except Unsupported as u:
                    snaps.append([_name, {"unsupported": str(u)}])
            return r
        originals[cls] = orig
        cls.execute = execute

    for name in PASSES:
        wrap(getattr(T, name))
    try:
        out = normalize_program(program)
    finally:
        for cls, orig in originals.items():
            cls.execute = orig
    return out, snaps


def eval_poly_dump(d, env):
    tot = Fraction(0)
    for co, mon in d:
        t = Fraction(co)
        for x, k in mon:
            t *= Fraction(env[x]) ** k
        tot += t
    return tot


def eval_cond_dump(c, env):
    """independent evaluation of a dumped condition (not Polar's Condition.evaluate)"""
    k = c[0]
    if k == "true":
        return True
    if k == "false":
        return False
    if k == "atom":
        a, b = eval_poly_dump(c[1], env), eval_poly_dump(c[3], env)
        return {"==": a == b, "<=": a <= b, ">=": a >= b, "<": a < b, ">": a > b}[c[2]]
    if k == "not":
        return not eval_cond_dump(c[1], env)
    if k == "and":
        return eval_cond_dump(c[1], env) and eval_cond_dump(c[2], env)
    if k == "or":
        return eval_cond_dump(c[1], env) or eval_cond_dump(c[2], env)
    raise Unsupported(k)


def abstraction_points(program, abs_support):
    """values of the probability symbols introduced by the Bernoulli abstraction of conditions
    over a draw with the given finite support {var: [[weight, value], ...]}"""
    out = {}
    for prob, cond in program.abstracted_const_store.items():
        d = dump_cond(cond)
        vs = sorted(str(x) for x in cond.get_free_symbols())
        if len(vs) != 1 or vs[0] not in abs_support:
            raise Unsupported(f"abstraction over {vs}")
        tot = Fraction(0)
        for w, v in abs_support[vs[0]]:
            if eval_cond_dump(d, {vs[0]: Fraction(v)}):
                tot += Fraction(w)
        out[str(prob)] = f"{tot.numerator}/{tot.denominator}"
    return out


def task_analyze(task):
    """task: text, goals [monomial strings], opts, snapshots (bool), points [{sym: val}], nvals,
    solve (bool), all_monomials (bool: closed forms for every monomial of each system)"""
    opts = task.get("opts", {})
    reset_settings(opts)
    from inputparser import Parser
    from recurrences import RecBuilder
    from recurrences.solver import RecurrenceSolver
    import symengine
    from utils import identifiers
    res = {"counter_before": getattr(identifiers, "_count_unique_var", None)}
    try:
        program = Parser().parse_string(task["text"])
    except BaseException as e:  # noqa
        res["stage"] = "parse"
        res["exception"] = classify_exception(e)
        return res
    try:
        res["parsed"] = dump_program(program)
    except Unsupported as u:
        res["parsed"] = {"unsupported": str(u)}
    try:
        program, snaps = normalize_with_snapshots(program, task.get("snapshots", False))
    except BaseException as e:  # noqa
        res["stage"] = "normalize"
        res["exception"] = classify_exception(e)
        return res
    res["snapshots"] = snaps
    try:
        res["flat"] = dump_program(program)
    except Unsupported as u:
        res["flat"] = {"unsupported": str(u)}
    res["flat_text"] = str(program)
    res["finite_variables"] = sorted(str(v) for v in program.finite_variables)
    res["var_to_index"] = {str(k): v for k, v in program.var_to_index.items()}
    res["original_loop_guard"] = dump_cond(program.original_loop_guard) if program.original_loop_guard is not None else None
    res["abstractions"] = [[str(k), str(v)] for k, v in program.abstracted_const_store.items()]
    abs_pt = {}
    if program.abstracted_const_store:
        try:
            abs_pt = abstraction_points(program, task.get("abs_support", {}))
        except Unsupported as u:
            res["abstraction_unsupported"] = str(u)
    res["goals"] = []
    n = sp.Symbol("n", integer=True)
    rb = RecBuilder(program)
    for g in task.get("goals", []):
        gr = {"goal": g}
        res["goals"].append(gr)
        try:
            m = symengine.sympify(g)
            recs = rb.get_recurrences(m)
            gr["monomials"] = [str(x) for x in recs.monomials]
            gr["monomial_dumps"] = [dump_expr(x) for x in recs.monomials]
            gr["rec_dict"] = [[dump_expr(k), dump_expr(v)] for k, v in recs.recurrence_dict.items()]
            gr["init_dict"] = [[dump_expr(k), dump_expr(v)] for k, v in recs.init_values_dict.items()]
            gr["matrix"] = [[str(recs.recurrence_matrix[i, j]) for j in range(recs.recurrence_matrix.shape[1])]
                            for i in range(recs.recurrence_matrix.shape[0])]
            gr["vector"] = [str(x) for x in recs.init_values_vector]
            gr["is_acyclic"] = bool(recs.is_acyclic)
            gr["is_inhomogeneous"] = bool(recs.is_inhomogeneous)
        except BaseException as e:  # noqa
            gr["stage"] = "recurrences"
            gr["exception"] = classify_exception(e)
            continue
        if not task.get("solve", True):
            continue
        try:
            solver = RecurrenceSolver(recs, force_cyclic_solver=bool(opts.get("force_cyclic", False)))
            mons = recs.monomials if task.get("all_monomials", True) else [sp.sympify(g)]
            sols = [solver.get(mm) for mm in mons]
            gr["solver"] = type(solver.solver).__name__
            gr["is_exact"] = bool(solver.is_exact)
            gr["sols"] = [str(s) for s in sols]
            gr["sol_monomials"] = [str(mm) for mm in mons]
        except BaseException as e:  # noqa
            gr["stage"] = "solve"
            gr["exception"] = classify_exception(e)
            continue
        comp = list(sols)
        full = task.get("all_monomials", True)
        if full and recs.is_inhomogeneous:
            comp.append(sp.Integer(1))
        gr["instances"] = []
        free = set()
        for s in sols:
            free |= s.free_symbols
        for x in recs.recurrence_matrix.free_symbols | recs.init_values_vector.free_symbols:
            free.add(x)
        free.discard(n)
        points = task.get("points") or [{}]
        for pt in points:
            pt = dict(pt)
            pt.update(abs_pt)
            subs = {sp.Symbol(k): sp.Rational(v) for k, v in pt.items()}
            missing = [str(x) for x in free if x not in subs]
            inst = {"point": pt}
            if missing:
                inst["missing_symbols"] = missing
                gr["instances"].append(inst)
                continue
            try:
                inst["A"] = [[str(exppoly.exact(sp.sympify(x).subs(subs))) for x in row] for row in gr["matrix"]]
                inst["v"] = [str(exppoly.exact(sp.sympify(x).subs(subs))) for x in gr["vector"]]
                if full:
                    from polar_tasks import enc_cf, closed_form_data
                    inst["cf"] = enc_cf(closed_form_data(comp, n, subs, 0))
            except Unsupported as u:
                inst["unsupported"] = str(u)
            except BaseException as e:  # noqa
                inst["unsupported"] = f"{type(e).__name__}: {e}"
            try:
                from polar_tasks import numeric_values
                inst["values"] = numeric_values(comp, n, subs, task.get("nvals", 8))
            except BaseException as e:  # noqa
                inst["values_error"] = str(e)[:300]
            gr["instances"].append(inst)
    res["counter_after"] = getattr(identifiers, "_count_unique_var", None)
    return res


def task_cli_goals(task):
    """run the real command line  polar.py <file> --goals ... [--at_n k]  in a subprocess and parse
    the printed results: {goal: {"special": [...], "general": str}} (+ at_n values)"""
    import os
    import re
    import subprocess
    import tempfile
    repo = [p for p in sys.path if os.path.exists(os.path.join(p, "polar.py"))][0]
    with tempfile.NamedTemporaryFile("w", suffix=".prob", delete=False) as f:
        f.write(task["text"])
        path = f.name
    try:
        cmd = [sys.executable, os.path.join(repo, "polar.py"), path, "--goals"] + [f"E({g})" for g in task["goals"]]
        if task.get("at_n") is not None:
            cmd += ["--at_n", str(task["at_n"])]
        r = subprocess.run(cmd, cwd=repo, stdout=subprocess.PIPE, stderr=subprocess.STDOUT, text=True, timeout=task.get("timeout", 100) - 5)
    finally:
        os.unlink(path)
    out = r.stdout
    res = {"returncode": r.returncode, "printed": {}, "at_n": {}, "tail": out[-800:]}
    for g in task["goals"]:
        gs = str(sp.sympify(g))
        for line in out.splitlines():
            line = re.sub(r"\x1b\[[0-9;]*m", "", line).strip()
            m = re.match(r"^(?:E\((.*?)\)|(.*?)) = (.*)$", line)
            if not m:
                continue
            lhs = m.group(1) if m.group(1) is not None else m.group(2)
            if "|" in lhs:
                mm = re.match(r"^(.*?) \| n=(\d+)$", lhs)
                if mm and _same_monom(mm.group(1), gs):
                    res["at_n"][g] = m.group(3).split(" ≅ ")[0].strip()
                continue
            if _same_monom(lhs, gs):
                parts = m.group(3).split("; ")
                res["printed"][g] = {"special": parts[:-1], "general": parts[-1]}
    return res


def _same_monom(a, b):
    try:
        return sp.simplify(sp.sympify(a) - sp.sympify(b)) == 0
    except Exception:
        return False
