"""Worker tasks for C10 (sensitivity analysis).  The real CLI path is driven for both methods

    polar.py FILE --goals E(m) -sens p         (SensitivityAction._analyze_sensitivity:
                                                DiffRecBuilder + RecurrenceSolver)
    polar.py FILE --goals E(m) -sens_diff p    (SensitivityAction._diff_closed_form:
                                                RecBuilder + RecurrenceSolver + .diff(p).simplify())

with GoalsAction.print_moment_goal wrapped from this process, so that the objects observed are
exactly the ones the CLI prints.  From the same run the extended recurrence system Polar built
(Recurrences of the DiffRecBuilder: monomials, matrix, initial vector), the original system of
the same normalised program, Polar's own classification of monomials as parameter-dependent
and all closed forms are dumped; per parameter point: polynomial entries in p (coefficient
lists), numeric system, exp-poly decomposition of the closed forms, exact values for n < nvals."""
import contextlib
import io
import os
import re
import sys
import tempfile
from fractions import Fraction

import sympy as sp

import exppoly
from exppoly import Unsupported
from tasks_core import classify_exception, reset_settings


def _run_cli(path, goal, flag, param):
    """-> (records, action, error).  records: list of (monom, moment, prefix, goals_action)"""
    import cli.actions.goals_action as ga
    import cli.actions.sensitivity_action as sa
    from cli import ArgumentParser
    from cli.actions import ActionFactory
    recs = []
    made = []
    orig_print = ga.GoalsAction.print_moment_goal
    OrigDRB = sa.DiffRecBuilder

    def spy_print(self, monom, moment, is_exact, prefix="", is_probabilistic=True):
        recs.append({"monom": monom, "moment": moment, "prefix": prefix, "is_exact": bool(is_exact), "ga": self})
        return orig_print(self, monom, moment, is_exact, prefix=prefix, is_probabilistic=is_probabilistic)

    def spy_drb(program, param_):
        d = OrigDRB(program, param_)
        made.append(d)
        return d

    old_argv = sys.argv
    buf = io.StringIO()
    ga.GoalsAction.print_moment_goal = spy_print
    sa.DiffRecBuilder = spy_drb
    err = None
    action = None
    try:
        sys.argv = ["polar.py", path, "--goals", f"E({goal})", flag, param]
        args = ArgumentParser().parse_args()
        action = ActionFactory.create_action(args)
        with contextlib.redirect_stdout(buf):
            action(path)
    except BaseException as e:  # noqa
        err = classify_exception(e)
    finally:
        ga.GoalsAction.print_moment_goal = orig_print
        sa.DiffRecBuilder = OrigDRB
        sys.argv = old_argv
    text = re.sub(r"\x1b\[[0-9;]*m", "", buf.getvalue())
    return recs, action, made, err, text


def _frac(x):
    x = exppoly.exact(x)
    if not x.is_Rational:
        raise Unsupported(f"not rational: {x}")
    return f"{x.p}/{x.q}"


def _poly_in(e, p, subs):
    """expression -> coefficient list (low -> high, strings) of the polynomial in p after
    substituting the other parameters"""
    e = sp.sympify(e).subs(subs)
    e = sp.cancel(sp.together(sp.expand(e)))
    num, den = sp.fraction(e)
    if den.has(p):
        raise Unsupported(f"denominator mentions {p}: {e}")
    e = sp.expand(e)
    if e == 0:
        return []
    try:
        P = sp.Poly(e, p)
    except Exception:
        raise Unsupported(f"not polynomial in {p}: {e}")
    if P.free_symbols_in_domain:
        raise Unsupported(f"unsubstituted symbols {P.free_symbols_in_domain}")
    cs = [(_frac(c)) for c in reversed(P.all_coeffs())]
    return cs


def _system(recs):
    """Polar's Recurrences -> (monomials incl. the constant 1 if inhomogeneous, matrix rows, vector) as sympy"""
    mons = list(recs.monomials)
    M = recs.recurrence_matrix
    v = recs.init_values_vector
    rows = [[sp.sympify(M[i, j]) for j in range(M.shape[1])] for i in range(M.shape[0])]
    vec = [sp.sympify(v[i]) for i in range(v.shape[0])]
    if recs.is_inhomogeneous:
        mons = mons + [sp.Integer(1)]
    if len(rows) != len(mons) or len(vec) != len(mons) or any(len(r) != len(mons) for r in rows):
        raise Unsupported("system shape")
    return mons, rows, vec


def _with_const(mons, rows, vec):
    """make sure the constant monomial 1 is part of the (original) system"""
    if any(m == 1 for m in mons):
        return mons, rows, vec
    k = len(mons)
    rows = [r + [sp.Integer(0)] for r in rows] + [[sp.Integer(0)] * k + [sp.Integer(1)]]
    return mons + [sp.Integer(1)], rows, vec + [sp.Integer(1)]


def _values(exprs, n, subs, nvals):
    out = []
    for i in range(nvals):
        row = []
        for s in exprs:
            v = s.subs(subs).subs(n, i)
            v = exppoly.exact(v)
            row.append(f"{v.p}/{v.q}" if v.is_Rational else "~" + str(sp.N(v, 30)))
        out.append(row)
    return out


def task_sens(task):
    """task: text, goal (monomial string), param, points [{sym: "a/b"}], nvals, opts
    -> {"a": {...}, "b": {...}} (one entry per method; each may carry "exception")"""
    from polar_tasks import closed_form_data, enc_cf
    reset_settings(task.get("opts", {}))
    n = sp.Symbol("n", integer=True)
    goal = task["goal"]
    pname = task["param"]
    p = sp.Symbol(pname)
    nvals = task.get("nvals", 6)
    points = task.get("points", [])
    res = {"goal": goal, "param": pname}
    import time
    t0 = time.time()
    with tempfile.NamedTemporaryFile("w", suffix=".prob", delete=False) as f:
        f.write(task["text"])
        path = f.name
    try:
        # ---------------- (a) sensitivity recurrences ----------------
        a = {}
        res["a"] = a
        recs, action, made, err, text = _run_cli(path, goal, "-sens", pname)
        a["action"] = type(action).__name__ if action is not None else None
        if err is not None:
            a["exception"] = err
        else:
            try:
                _dump_a(a, recs, made, goal, p, n, points, nvals, closed_form_data, enc_cf)
            except Unsupported as u:
                a["unsupported"] = str(u)
            a["printed"] = [l for l in text.splitlines() if l.startswith("∂")][:4]
        res["seconds_a"] = round(time.time() - t0, 2)
        # ---------------- (b) differentiated closed form ----------------
        b = {}
        res["b"] = b
        recs, action, made, err, text = _run_cli(path, goal, "-sens_diff", pname)
        b["action"] = type(action).__name__ if action is not None else None
        if err is not None:
            b["exception"] = err
        else:
            try:
                _dump_b(b, recs, goal, p, n, points, nvals, closed_form_data, enc_cf)
            except Unsupported as u:
                b["unsupported"] = str(u)
            b["printed"] = [l for l in text.splitlines() if l.startswith("∂")][:4]
    finally:
        os.unlink(path)
    res["seconds"] = round(time.time() - t0, 2)
    return res


def _subs_of(pt):
    return {sp.Symbol(k): sp.Rational(v) for k, v in pt.items()}


def _dump_a(a, recs, made, goal, p, n, points, nvals, closed_form_data, enc_cf):
    import symengine
    shown = [r for r in recs if r["prefix"] == "∂"]
    if len(shown) != 1 or len(made) != 1:
        raise Unsupported(f"unexpected CLI behaviour: {len(shown)} sensitivity results, {len(made)} DiffRecBuilder")
    r = shown[0]
    drb = made[0]
    ga = r["ga"]
    monom = r["monom"]
    sens = sp.sympify(r["moment"])
    a["is_exact"] = r["is_exact"]
    a["sens"] = str(sens)
    a["flat_text"] = str(ga.program)
    a["symbols"] = sorted(str(s) for s in ga.program.symbols)
    a["dep_vars"] = sorted(str(v) for v in drb.dep_vars)
    delta = sp.Symbol(str(drb.delta))
    ext = drb.get_recurrences(monom)  # lru-cached: the object the CLI solved
    solver = ga.solvers[symengine.sympify(monom) * drb.delta]
    a["solver"] = type(solver.solver).__name__
    emons, erows, evec = _system(ext)
    esols = [sp.sympify(solver.get(m)) if m != 1 else sp.Integer(1) for m in emons]
    a["ext_monomials"] = [str(m) for m in emons]
    a["ext_matrix"] = [[str(x) for x in row] for row in erows]
    a["ext_vector"] = [str(x) for x in evec]
    a["ext_sols"] = [str(s) for s in esols]
    a["ext_rec_dict"] = [[str(k), str(v)] for k, v in ext.recurrence_dict.items()]
    a["ext_init_dict"] = [[str(k), str(v)] for k, v in ext.init_values_dict.items()]
    # the original system of the same normalised program
    orig = drb.rec_builder.get_recurrences(symengine.sympify(monom))
    omons, orows, ovec = _with_const(*_system(orig))
    a["orig_monomials"] = [str(m) for m in omons]
    a["orig_matrix"] = [[str(x) for x in row] for row in orows]
    a["orig_vector"] = [str(x) for x in ovec]
    a["dep"] = [bool(m != 1 and drb._is_monomial_p_dependent(symengine.sympify(m))) for m in omons]
    k = len(omons)
    idx = {m: i for i, m in enumerate(omons)}
    iota = []
    for m in emons:
        if m != 1 and delta in m.free_symbols:
            base = sp.sympify(m).subs(delta, 1)
            if base not in idx:
                raise Unsupported(f"extended unknown {m}: {base} is not a monomial of the original system")
            iota.append(k + idx[base])
        else:
            if m not in idx:
                raise Unsupported(f"extended unknown {m} is not a monomial of the original system")
            iota.append(idx[m])
    a["iota"] = iota
    gkey = sp.sympify(monom) * delta
    a["goal_index"] = emons.index(gkey) if gkey in emons else None
    if a["goal_index"] is None:
        raise Unsupported("delta*goal is not an unknown of the extended system")
    if esols[a["goal_index"]] != sens and sp.simplify(esols[a["goal_index"]] - sens) != 0:
        raise Unsupported("printed sensitivity differs from the solver's closed form of delta*goal")
    a["instances"] = []
    for pt in points:
        subs = _subs_of(pt)
        others = {s: v for s, v in subs.items() if s != p}
        inst = {"point": pt}
        a["instances"].append(inst)
        try:
            inst["PA"] = [[_poly_in(x, p, others) for x in row] for row in orows]
            inst["Pv"] = [_poly_in(x, p, others) for x in ovec]
            inst["S"] = [[_frac(x.subs(subs)) for x in row] for row in erows]
            inst["s"] = [_frac(x.subs(subs)) for x in evec]
            inst["cf"] = enc_cf(closed_form_data(esols, n, subs, 0))
        except Unsupported as u:
            inst["unsupported"] = str(u)
        except BaseException as e:  # noqa
            inst["unsupported"] = f"{type(e).__name__}: {e}"
        try:
            inst["values"] = [row[0] for row in _values([sens], n, subs, nvals)]
        except BaseException as e:  # noqa
            inst["values_error"] = str(e)[:300]


def _dump_b(b, recs, goal, p, n, points, nvals, closed_form_data, enc_cf):
    import symengine
    shown = [r for r in recs if r["prefix"] == "∂"]
    plain = [r for r in recs if r["prefix"] == ""]
    if len(shown) != 1 or len(plain) != 1:
        raise Unsupported(f"unexpected CLI behaviour: {len(shown)} sensitivity results")
    r = shown[0]
    ga = r["ga"]
    monom = r["monom"]
    sens = sp.sympify(r["moment"])
    b["is_exact"] = r["is_exact"]
    b["sens"] = str(sens)
    b["moment"] = str(plain[0]["moment"])
    orig = ga.rec_builder.get_recurrences(symengine.sympify(monom))
    solver = ga.solvers[symengine.sympify(monom)]
    b["solver"] = type(solver.solver).__name__
    omons, orows, ovec = _system(orig)
    osols = [sp.sympify(solver.get(m)) if m != 1 else sp.Integer(1) for m in omons]
    gi = omons.index(sp.sympify(monom))
    omons, orows, ovec = _with_const(omons, orows, ovec)
    if len(osols) < len(omons):
        osols.append(sp.Integer(1))
    b["orig_monomials"] = [str(m) for m in omons]
    b["orig_sols"] = [str(s) for s in osols]
    dsols = [s.diff(p) for s in osols]
    dsols[gi] = sens  # the expression the CLI printed (after .simplify())
    b["goal_index"] = gi
    b["instances"] = []
    for pt in points:
        subs = _subs_of(pt)
        others = {s: v for s, v in subs.items() if s != p}
        inst = {"point": pt}
        b["instances"].append(inst)
        try:
            inst["PA"] = [[_poly_in(x, p, others) for x in row] for row in orows]
            inst["Pv"] = [_poly_in(x, p, others) for x in ovec]
            inst["cf"] = enc_cf(closed_form_data(osols + dsols, n, subs, 0))
        except Unsupported as u:
            inst["unsupported"] = str(u)
        except BaseException as e:  # noqa
            inst["unsupported"] = f"{type(e).__name__}: {e}"
        try:
            inst["values"] = [row[0] for row in _values([sens], n, subs, nvals)]
        except BaseException as e:  # noqa
            inst["values_error"] = str(e)[:300]
