"""Generator for C18: programs INSIDE the documented class ("Loop Restrictions" of the README),
built around the shapes the property names, and an out-of-class stream where a refusal is
legitimate.  Membership in the class is NOT decided here: the check evaluates the Coq boolean
InClass.in_class on every generated program (class membership by construction is only the
generator's intention; the measured agreement is reported in the evidence).

Every generator returns (program AST (progast), options dict, shape name)."""
from fractions import Fraction as F

import gen
import progast as P

c = P.const
v = P.var
PROBS = [F(1, 2), F(1, 3), F(1, 4), F(2, 3), F(3, 4), F(1, 5)]
COPS = ["==", "<", ">", "<=", ">="]


def bern(p):
    return ("draw", ("bern", c(p)))


def choice2(p, a, b):
    return ("choice", [(c(p), a), (c(1 - p), b)])


def assign(x, e):
    return ("assign", x, P.det(e) if e[0] in ("const", "var", "add", "sub", "mul", "pow", "neg") else e)


def add(a, b):
    return ("add", a, b)


def mul(a, b):
    return ("mul", a, b)


def atom(x, op, k):
    return ("atom", v(x), op, c(k))


def prog(init, body, guard=("true",), types=None):
    return {"types": types or [], "init": init, "guard": guard, "body": body}


def lin_update(rng, x, others):
    """x = a*x + b*y + c  (linear in everything)"""
    e = mul(c(rng.choice([1, 1, 1, F(1, 2), 2, -1])), v(x))
    if others and rng.random() < 0.6:
        e = add(e, mul(c(rng.choice([1, 2, -1, F(1, 2)])), v(rng.choice(others))))
    if rng.random() < 0.7:
        e = add(e, c(rng.choice([1, 2, -1, 3])))
    return e


# ---- minimal witnesses of the known defects (always run) ------------------------------------
def witnesses():
    out = []
    # 12: nested if reassigning its own condition variable
    out.append((prog([assign("c", c(0)), assign("d", c(0)), assign("x", c(0))],
                     [assign("c", bern(F(1, 2))), assign("d", bern(F(1, 2))),
                      ("if", [(atom("c", "==", 1),
                               [("if", [(atom("d", "==", 1), [assign("d", c(0)), assign("x", add(v("x"), c(1)))])], None)])], None)]),
                {}, "nested-reassign"))
    # 16: categorical expansion inside a branch
    out.append((prog([assign("c", c(0)), assign("x", c(0))],
                     [assign("c", bern(F(1, 2))),
                      ("if", [(atom("c", "==", 1), [("assign", "x", choice2(F(1, 4), add(v("x"), c(1)), add(v("x"), c(2))))])], None)]),
                {"transform_categoricals": True}, "categorical-in-branch"))
    # 17: non-integer finite values in a condition
    out.append((prog([assign("x", c(F(1, 2))), assign("y", c(0))],
                     [("assign", "x", choice2(F(1, 2), c(F(1, 2)), c(F(3, 2)))),
                      ("if", [(atom("x", "<", 1), [assign("y", add(v("y"), c(1)))])], None)]),
                {}, "nonint-values"))
    # 18: goal over a loop constant that is folded away
    out.append((prog([assign("k", c(2)), assign("x", c(0))], [assign("x", add(v("x"), v("k")))]), {}, "goal-over-constant"))
    # 19: fixed loop constant used directly in an atom
    out.append((prog([assign("a", c(1)), assign("x", c(0))],
                     [("if", [(atom("a", "==", 0), [assign("x", add(v("x"), c(1)))])], None)]),
                {}, "const-in-cond"))
    # 20: simultaneous assignment inside a branch assigning a finite variable used in a later condition
    out.append((prog([assign("c", c(0)), assign("f", c(0)), assign("x", c(0))],
                     [assign("c", bern(F(1, 2))),
                      ("if", [(atom("c", "==", 1), [("simult", [("f", P.det(c(1))), ("x", P.det(add(v("x"), c(1))))])])], None),
                      ("if", [(atom("f", "==", 1), [assign("x", add(v("x"), c(2)))])], None)]),
                {}, "simult-in-branch"))
    # 20b: the same root cause without a later condition: the finite coefficient f becomes untyped, a = f*a
    # counts as a non-linear self-dependency and a is classified defective
    out.append((prog([assign("c", c(0)), assign("f", c(1)), assign("a", c(0))],
                     [assign("c", bern(F(1, 2))),
                      ("if", [(atom("c", "==", 1), [("simult", [("f", P.det(c(2))), ("c", P.det(c(0)))])])], None),
                      assign("a", add(mul(v("f"), v("a")), c(1))), assign("f", c(1))]),
                {}, "simult-in-branch"))
    # 21: a finite variable assigned twice per iteration, the second time from itself (no guard, no branch)
    out.append((prog([assign("f", c(0)), assign("y", c(0))],
                     [("assign", "f", choice2(F(1, 2), c(0), c(1))), assign("f", add(v("f"), c(1))),
                      ("if", [(atom("f", ">=", 2), [assign("y", add(v("y"), c(1)))])], None)]),
                {}, "multi-assign-finite"))
    # 22: the same under a loop guard
    out.append((prog([assign("f", c(0)), assign("y", c(0)), assign("c", c(0))],
                     [assign("c", bern(F(1, 2))), ("assign", "f", choice2(F(1, 2), c(0), c(1))), assign("f", add(v("f"), c(1))),
                      ("if", [(atom("f", ">=", 2), [assign("y", add(v("y"), c(1)))])], None)], atom("c", "==", 0)),
                {}, "multi-assign-finite"))
    return out


# ---- in-class shapes ------------------------------------------------------------------------
def sh_const_in_cond(rng):
    """a variable assigned once in the init block and never in the loop, used in a condition"""
    fixed = rng.random() < 0.5
    vals = rng.sample([0, 1, 2, 3], 2)
    init = [assign("a", c(vals[0])) if fixed else ("assign", "a", choice2(rng.choice(PROBS), c(vals[0]), c(vals[1])))]
    init += [assign("f", c(0)), assign("x", c(rng.choice([0, 1])))]
    cond = atom("a", rng.choice(COPS), rng.choice(vals + [1]))
    if rng.random() < 0.4:
        cond = (rng.choice(["and", "or"]), cond, atom("f", "==", rng.choice([0, 1])))
    then = [assign("x", lin_update(rng, "x", ["f"]))]
    els = [assign("x", add(v("x"), v("f")))] if rng.random() < 0.5 else None
    body = [assign("f", bern(rng.choice(PROBS))), ("if", [(cond, then)], els)]
    if rng.random() < 0.3:
        body.append(assign("x", add(v("x"), v("a"))))
    return prog(init, body), {}, "const-in-cond"


def sh_nested_reassign(rng):
    """nested branches that reassign their own condition variables"""
    deep = rng.random() < 0.6
    p1, p2 = rng.choice(PROBS), rng.choice(PROBS)
    inner_body = [assign("d", c(rng.choice([0, 1]))) if rng.random() < 0.6 else assign("d", bern(p1)),
                  assign("x", lin_update(rng, "x", ["c"]))]
    if rng.random() < 0.5:
        rng.shuffle(inner_body)
    inner = ("if", [(atom("d", "==", rng.choice([0, 1])), inner_body)],
             [assign("x", add(v("x"), c(2)))] if rng.random() < 0.4 else None)
    if deep:
        outer_body = [inner] + ([assign("c", c(0))] if rng.random() < 0.4 else [])
        st = ("if", [(atom("c", "==", 1), outer_body)], None)
    else:
        st = inner
    body = [assign("c", bern(p1)), assign("d", bern(p2)), st]
    guard = atom("c", "==", 0) if (not deep and rng.random() < 0.3) else ("true",)
    return prog([assign("c", c(0)), assign("d", c(0)), assign("x", c(0))], body, guard), {}, "nested-reassign"


def sh_nonint(rng):
    """finite variables with non-integer values used in conditions"""
    pool = [F(1, 2), F(3, 2), F(5, 2), F(-1, 2), F(1, 3), F(2, 3)]
    vals = rng.sample(pool, 2) + ([rng.choice([0, 1, 2])] if rng.random() < 0.4 else [])
    alts = [(c(F(1, len(vals))), c(x)) for x in vals]
    thr = rng.choice([0, 1, 2]) if rng.random() < 0.7 else rng.choice(pool)
    cond = ("atom", v("x"), rng.choice(COPS), c(thr))
    body = [("assign", "x", ("choice", alts)),
            ("if", [(cond, [assign("y", lin_update(rng, "y", []))])],
             [assign("y", add(v("y"), v("x")))] if rng.random() < 0.4 else None)]
    return prog([assign("x", c(vals[0])), assign("y", c(0))], body), {}, "nonint-values"


def sh_nonint_branch(rng):
    """a conjunction / disjunction with an inequality over a non-integer valued finite variable guarding a branch with TWO
    (or three) assignments: the flattened assignments share the condition"""
    vals = rng.choice([[F(1, 2), F(3, 2)], [F(1, 2), F(3, 2), F(5, 2)], [F(-1, 2), F(1, 2), 1]])
    alts = [(c(F(1, len(vals))), c(x)) for x in vals]
    thr = rng.choice([1, 2, 0])
    atom1 = ("atom", v("x"), rng.choice(["<", ">=", "<=", ">"]), c(thr))
    atom2 = ("atom", v("f"), "==", c(1))
    cond = (rng.choice(["and", "and", "or"]), atom1, atom2)
    branch = [assign("y", add(v("y"), c(1))), assign("z", add(v("z"), c(2)))]
    if rng.random() < 0.4:
        branch.append(assign("y", add(v("y"), v("x"))))
    body = [("assign", "x", ("choice", alts)), ("assign", "f", bern(rng.choice(PROBS))), ("if", [(cond, branch)], None)]
    return prog([assign("x", c(vals[0])), assign("f", c(0)), assign("y", c(0)), assign("z", c(0))], body), {}, "nonint-values-shared-condition"


def sh_goal_const(rng):
    """goals over loop-constant variables (k = 2; ... E(k*x))"""
    k = rng.choice([2, 3, -1, F(1, 2)])
    init = [assign("k", c(k)), assign("x", c(rng.choice([0, 1])))]
    body = []
    if rng.random() < 0.5:
        init.append(assign("f", c(0)))
        body.append(assign("f", bern(rng.choice(PROBS))))
        body.append(assign("x", add(v("x"), mul(v("k"), v("f")))))
    else:
        body.append(("assign", "x", choice2(rng.choice(PROBS), add(v("x"), v("k")), v("x"))))
    return prog(init, body), {}, "goal-over-constant"


def sh_simult_branch(rng):
    """simultaneous assignments inside branches"""
    if rng.random() < 0.4:
        # a finite variable assigned simultaneously inside a branch and used in a later condition
        s1 = ("simult", [("f", P.det(c(rng.choice([0, 1])))), ("x", P.det(add(v("x"), c(1))))])
        body = [assign("c", bern(rng.choice(PROBS))), assign("f", bern(rng.choice(PROBS))),
                ("if", [(atom("c", "==", 1), [s1])], None),
                ("if", [(atom("f", "==", 1), [assign("x", add(v("x"), c(2)))])], None)]
        return prog([assign("c", c(0)), assign("f", c(0)), assign("x", c(0))], body), {}, "simult-in-branch"
    s1 = ("simult", [("x", P.det(v("y"))), ("y", P.det(v("x")))]) if rng.random() < 0.5 else \
        ("simult", [("x", P.det(add(v("y"), c(1)))), ("y", P.det(v("x")))])
    s2 = ("simult", [("x", P.det(add(v("x"), c(1)))), ("y", P.det(v("y")))])
    body = [assign("f", bern(rng.choice(PROBS))),
            ("if", [(atom("f", "==", 1), [s1])], [s2] if rng.random() < 0.7 else None)]
    if rng.random() < 0.3:
        body.append(("simult", [("f", P.det(c(0))), ("x", P.det(add(v("x"), v("f"))))]))
    return prog([assign("f", c(0)), assign("x", c(0)), assign("y", c(1))], body), {}, "simult-in-branch"


def sh_cat_branch(rng):
    """probabilistic choice inside a branch, analysed with --transform_categoricals"""
    k = rng.choice([2, 2, 3])
    ps = [F(1, 4), F(1, 4), F(1, 2)] if k == 3 else [rng.choice(PROBS)]
    if k == 2:
        ps = [ps[0], 1 - ps[0]]
    alts = [(c(p), add(v("x"), c(i + 1))) for i, p in enumerate(ps)]
    inside = rng.random() < 0.7
    ch = ("assign", "x", ("choice", alts))
    body = [assign("c", bern(rng.choice(PROBS)))]
    body.append(("if", [(atom("c", "==", 1), [ch])], None) if inside else ch)
    if not inside:
        body.append(("if", [(atom("c", "==", 0), [assign("x", add(v("x"), c(1)))])], None))
    return prog([assign("c", c(0)), assign("x", c(0))], body), {"transform_categoricals": True}, "categorical-in-branch"


def sh_multi_assign(rng):
    """finite variables assigned several times per iteration"""
    body = [("assign", "f", choice2(rng.choice(PROBS), c(0), c(1))),
            assign("x", add(v("x"), v("f"))),
            assign("f", add(v("f"), c(1))) if rng.random() < 0.5 else assign("f", mul(c(2), v("f"))),
            assign("y", add(v("y"), v("f")))]
    if rng.random() < 0.5:
        body.append(("if", [(atom("f", ">=", 2), [assign("y", add(v("y"), c(1)))])], None))
    if rng.random() < 0.3:
        body.append(assign("f", c(0)))
    return prog([assign("f", c(0)), assign("x", c(0)), assign("y", c(0))], body), {}, "multi-assign-finite"


def sh_guard(rng):
    """loop guard over finite variables"""
    body = [assign("c", bern(rng.choice(PROBS))), assign("x", lin_update(rng, "x", ["c"]))]
    if rng.random() < 0.4:
        body.insert(1, ("if", [(atom("c", "==", 1), [assign("x", add(v("x"), c(2)))])], None))
    guard = atom("c", "==", 0) if rng.random() < 0.6 else ("and", atom("c", "==", 0), atom("c", "<", 1))
    return prog([assign("c", c(0)), assign("x", c(0))], body, guard), {}, "guard"


def sh_linear_cycle(rng):
    """linear dependency cycles (rational eigenvalues, so that sympy's root finding stays cheap)"""
    k = rng.choice([1, 2, F(1, 2)])
    body = [assign("f", bern(rng.choice(PROBS))),
            ("simult", [("x", P.det(add(mul(c(k), v("y")), v("f")))), ("y", P.det(mul(c(1 / F(k)), v("x"))))])]
    return prog([assign("f", c(0)), assign("x", c(1)), assign("y", c(1))], body), {}, "linear-cycle"


def sh_nl_acyclic(rng):
    """the README example's situation: x depends non-linearly on g, g does not depend on x"""
    body = [assign("f", bern(rng.choice(PROBS))), assign("g", add(v("g"), v("f"))),
            assign("x", add(v("x"), ("pow", v("g"), 2)) if rng.random() < 0.5 else add(v("x"), mul(v("g"), v("f"))))]
    return prog([assign("f", c(0)), assign("g", c(0)), assign("x", c(0))], body), {}, "nonlinear-acyclic"


def sh_cont_location(rng):
    """non-constant location parameters (README: permissible for Normal, ...)"""
    fam = rng.choice(["Normal", "Uniform", "Laplace"])
    if fam == "Uniform":
        d = ("draw", ("cont", "Uniform", [v("y"), add(v("y"), c(2))]))
    else:
        d = ("draw", ("cont", fam, [add(v("y"), c(1)), c(rng.choice([1, 2]))]))
    body = [assign("f", bern(rng.choice(PROBS))), assign("y", add(v("y"), v("f"))), ("assign", "x", d)]
    return prog([assign("f", c(0)), assign("y", c(0)), assign("x", c(0))], body), {}, "continuous-location"


def sh_many_values(rng):
    """finite variables with 3..6 values (draws and arithmetic on them) in conditions and guards"""
    k = rng.randint(2, 5)
    d = ("draw", ("unif", 0, k)) if rng.random() < 0.5 else \
        ("draw", ("cat", [c(F(1, k + 1))] * (k + 1)))
    thr = rng.randint(1, k)
    body = [("assign", "f", d)]
    if rng.random() < 0.5:
        body.append(assign("g", add(v("f"), c(1))))
        cond = ("and", atom("f", rng.choice(["<", ">="]), thr), atom("g", rng.choice(["<=", ">", "=="]), thr))
        init = [assign("f", c(0)), assign("g", c(1)), assign("x", c(0))]
    else:
        cond = ("atom", add(v("f"), v("f")), rng.choice(["<", ">=", "=="]), c(2 * thr))
        init = [assign("f", c(0)), assign("x", c(0))]
    body.append(("if", [(cond, [assign("x", add(v("x"), v("f")))])], [assign("x", add(v("x"), c(1)))] if rng.random() < 0.5 else None))
    return prog(init, body), {}, "many-values"


def sh_all_finite(rng):
    """every variable finitely valued (the class for which the worklist bound prod |T x| is explicit)"""
    g = gen.G(rng, max_depth=1, allow_simult=False, n_fin=rng.randint(2, 3), n_acc=0, guard=rng.random() < 0.3)
    return g.program(), {}, "all-finite"


def sh_generic(rng):
    g = gen.G(rng, max_depth=rng.choice([1, 2]), allow_nested_reassign=rng.random() < 0.3, n_fin=rng.randint(1, 2), n_acc=rng.randint(1, 2))
    return g.program(), {}, "generic"


def sh_two_dice(rng):
    """a condition variable built from TWO finite variables: more than 25 value combinations (6 x 6) but at most 25
    distinct values (11 sums / 15 products), i.e. within the typer's limit on VALUES"""
    if rng.random() < 0.5:
        comb, thr, tag = add(v("a"), v("b")), rng.choice([7, 5, 10]), "sum"
        lo, hi = 1, 6
    else:
        comb, thr, tag = mul(v("a"), v("b")), rng.choice([0, 6, 12]), "product"
        lo, hi = 0, 5
    body = [("assign", "a", ("draw", ("unif", lo, hi))), ("assign", "b", ("draw", ("unif", lo, hi))), assign("s", comb),
            ("if", [(atom("s", rng.choice(["==", ">=", "<"]), thr), [assign("x", add(v("x"), c(1)))])], None)]
    return prog([assign("a", c(lo)), assign("b", c(lo)), assign("s", c(0)), assign("x", c(0))], body), {}, "two-dice-" + tag


IN_SHAPES = [sh_two_dice, sh_nonint_branch, sh_const_in_cond, sh_nested_reassign, sh_nonint, sh_goal_const, sh_simult_branch, sh_cat_branch,
             sh_multi_assign, sh_guard, sh_linear_cycle, sh_nl_acyclic, sh_cont_location, sh_many_values, sh_all_finite, sh_generic]


# ---- out-of-class stream (a refusal is legitimate; a result must still be right) --------------
def out_unbounded_cond(rng):
    op = rng.choice([">", "<", "=="])
    body = [assign("x", add(v("x"), c(1))), ("if", [(atom("x", op, 3), [assign("y", add(v("y"), c(1)))])], None)]
    return prog([assign("x", c(0)), assign("y", c(0))], body), {}, "out:unbounded-in-condition"


def out_unbounded_guard(rng):
    body = [assign("x", add(v("x"), c(1)))]
    return prog([assign("x", c(0))], body, atom("x", "<", rng.choice([3, 5]))), {}, "out:unbounded-in-guard"


def out_abstractable_cond(rng):
    """a condition over a variable with too many values, independent of the iteration: Polar
    abstracts it by a Bernoulli with a symbolic probability"""
    body = [("assign", "u", ("draw", ("unif", 1, 30))), ("if", [(atom("u", ">", 3), [assign("y", add(v("y"), c(1)))])], None)]
    return prog([assign("u", c(1)), assign("y", c(0))], body), {}, "out:too-many-values-in-condition"


def out_nl_cycle(rng):
    k = rng.random()
    if k < 0.4:
        body = [assign("x", mul(v("x"), v("y"))), assign("y", v("x"))]
    elif k < 0.7:
        body = [assign("x", ("pow", v("x"), 2))]
        return prog([assign("x", c(2))], body), {}, "out:nonlinear-cycle"
    else:
        body = [assign("x", add(v("y"), c(1))), assign("y", mul(v("x"), v("x"))), assign("z", add(v("z"), c(1)))]
        return prog([assign("x", c(1)), assign("y", c(1)), assign("z", c(0))], body), {}, "out:nonlinear-cycle"
    return prog([assign("x", c(2)), assign("y", c(1))], body), {}, "out:nonlinear-cycle"


def out_param_dep(rng):
    if rng.random() < 0.5:
        st = ("assign", "x", ("draw", ("bern", mul(c(F(1, 2)), v("y")))))
    else:
        st = ("assign", "x", ("choice", [(mul(c(F(1, 2)), v("y")), c(1)), (("sub", c(1), mul(c(F(1, 2)), v("y"))), c(0))]))
    body = [assign("y", bern(rng.choice(PROBS))), st, assign("z", add(v("z"), v("x")))]
    return prog([assign("y", c(0)), assign("x", c(0)), assign("z", c(0))], body), {}, "out:parameter-depends-on-variable"


def out_uninitialised(rng):
    body = [assign("f", bern(F(1, 2))), assign("x", add(v("x"), v("f")))]
    return prog([assign("f", c(0))], body), {}, "out:uninitialised"


def out_if_in_init(rng):
    init = [assign("c", bern(F(1, 2))), ("if", [(atom("c", "==", 1), [assign("x", c(1))])], [assign("x", c(2))])]
    return prog(init, [assign("x", add(v("x"), c(1)))]), {}, "out:if-in-init"


_DERIVED = {"k": 0}


def out_derived_unbounded_cond(rng):
    """a condition over a variable DERIVED (copy, alias of a non-reduced atom, comparison of two accumulators) from an
    accumulator after the accumulator's assignment: not iteration independent, so no constant coin can stand for it"""
    walk = ("assign", "x", choice2(F(1, 2), add(v("x"), c(1)), v("x")))
    inc = assign("y", add(v("y"), c(1)))
    k = _DERIVED["k"] % 3      # the three variants in turn (every run sees each)
    _DERIVED["k"] += 1
    if k == 0:
        body = [walk, assign("w", v("x")), ("if", [(atom("w", ">", 2), [inc])], None)]
        return prog([assign("x", c(0)), assign("w", c(0)), assign("y", c(0))], body), {}, "out:condition-over-copy-of-accumulator"
    if k == 1:
        body = [walk, ("if", [(("atom", v("x"), ">", c(F(5, 2))), [inc])], None)]
        return prog([assign("x", c(0)), assign("y", c(0))], body), {}, "out:non-reduced-atom-over-accumulator"
    body = [walk, ("assign", "z", choice2(F(1, 3), add(v("z"), c(1)), v("z"))), ("if", [(("atom", v("x"), ">", v("z")), [inc])], None)]
    return prog([assign("x", c(0)), assign("z", c(0)), assign("y", c(0))], body), {}, "out:comparison-of-two-accumulators"


OUT_SHAPES = [out_derived_unbounded_cond, out_unbounded_cond, out_unbounded_guard, out_abstractable_cond, out_nl_cycle, out_param_dep,
              out_uninitialised, out_if_in_init]


# ---- goals: all monomials of degree <= 2 over the source variables --------------------------
def monomials(vars_, maxdeg=2, limit=12, rng=None):
    ms = [{x: 1} for x in vars_]
    if maxdeg >= 2:
        for i, x in enumerate(vars_):
            ms.append({x: 2})
            for y in vars_[i + 1:]:
                ms.append({x: 1, y: 1})
    if len(ms) > limit and rng is not None:
        head = ms[:len(vars_)]
        rest = ms[len(vars_):]
        rng.shuffle(rest)
        ms = head + rest[:max(0, limit - len(head))]
    return ms


# ---- shape predicates on the AST (used to name known refusals precisely) ----------------------
def walk_ifs(block, depth=0):
    for s in block:
        if s[0] == "if":
            yield s, depth
            for _, b in s[1]:
                yield from walk_ifs(b, depth + 1)
            if s[2]:
                yield from walk_ifs(s[2], depth + 1)


def nested_if_reassigns_own_condition(p):
    for s, depth in walk_ifs(p["body"]):
        if depth >= 1:
            cv = set()
            for cnd, _ in s[1]:
                cv |= gen.cond_vars(cnd)
            assigned = set()
            for _, b in s[1]:
                assigned |= P.stmts_vars(b)
            if s[2]:
                assigned |= P.stmts_vars(s[2])
            if cv & assigned:
                return True
    return False


def choice_inside_branch(p):
    def rec(block, depth):
        for s in block:
            if s[0] == "assign" and s[2][0] == "choice" and len(s[2][1]) >= 2 and depth >= 1:
                return True
            if s[0] == "if":
                for _, b in s[1]:
                    if rec(b, depth + 1):
                        return True
                if s[2] and rec(s[2], depth + 1):
                    return True
        return False
    return rec(p["body"], 0)


def simult_in_branch_assigns_condition_variable(p, among=None):
    """a simultaneous assignment inside a branch assigns a variable of some condition (or, if [among] is
    given, one of those variables)"""
    cvars = set(gen.cond_vars(p["guard"]))
    for s, _ in walk_ifs(p["body"]):
        for cnd, _ in s[1]:
            cvars |= gen.cond_vars(cnd)
    if among is not None:
        cvars = set(among)

    def rec(block, depth):
        for s in block:
            if s[0] == "simult" and depth >= 1 and {x for x, _ in s[1]} & cvars:
                return True
            if s[0] == "if":
                for _, b in s[1]:
                    if rec(b, depth + 1):
                        return True
                if s[2] and rec(s[2], depth + 1):
                    return True
        return False
    return rec(p["body"], 0)


def self_updating_reassignment(p):
    """(found, unconditional): a variable of some condition with >= 2 assignments in the loop body one of
    which reads the variable itself; unconditional = loop guard true and all its assignments at top level"""
    cvars = set(gen.cond_vars(p["guard"]))
    for s, _ in walk_ifs(p["body"]):
        for cnd, _ in s[1]:
            cvars |= gen.cond_vars(cnd)
    info = {}

    def rhs_reads(r, z):
        if r[0] == "choice":
            return any(z in gen.expr_vars(e) for _, e in r[1])
        return False

    def rec(block, depth):
        for s in block:
            if s[0] == "assign":
                d = info.setdefault(s[1], {"n": 0, "self": False, "deep": False})
                d["n"] += 1
                d["self"] |= rhs_reads(s[2], s[1])
                d["deep"] |= depth > 0
            elif s[0] == "simult":
                for x, r in s[1]:
                    d = info.setdefault(x, {"n": 0, "self": False, "deep": False})
                    d["n"] += 1
                    d["self"] |= rhs_reads(r, x)
                    d["deep"] |= depth > 0
            else:
                for _, b in s[1]:
                    rec(b, depth + 1)
                if s[2]:
                    rec(s[2], depth + 1)
    rec(p["body"], 0)
    hits = [(z, d) for z, d in info.items() if z in cvars and d["n"] >= 2 and d["self"]]
    if not hits:
        return False, False
    uncond = p["guard"] == ("true",) and all(not d["deep"] for _, d in hits)
    return True, uncond


def fixed_constants(p):
    """variables assigned exactly once, deterministically, at the top level of the init block and
    never in the loop body"""
    body_vars = P.stmts_vars(p["body"])
    cnt = {}
    for s in p["init"]:
        if s[0] == "assign":
            cnt[s[1]] = cnt.get(s[1], 0) + 1
    out = set()
    for s in p["init"]:
        if s[0] == "assign" and s[1] not in body_vars and cnt[s[1]] == 1 and s[2][0] == "choice" and len(s[2][1]) == 1:
            out.add(s[1])
    return out


def atoms_of(cnd):
    if cnd[0] == "atom":
        yield cnd
    elif cnd[0] == "not":
        yield from atoms_of(cnd[1])
    elif cnd[0] in ("and", "or"):
        yield from atoms_of(cnd[1])
        yield from atoms_of(cnd[2])


def constant_as_atom_variable(p):
    fc = fixed_constants(p)
    conds = [p["guard"]] + [cnd for s, _ in walk_ifs(p["body"]) for cnd, _ in s[1]]
    for cnd in conds:
        for a in atoms_of(cnd):
            if a[1][0] == "var" and a[1][1] in fc and a[3][0] == "const" and a[3][1].denominator == 1:
                return True
    return False


def has_nonint_constant(p):
    def in_expr(e):
        if e[0] == "const":
            return e[1].denominator != 1
        return any(in_expr(x) for x in e[1:] if isinstance(x, tuple))

    def in_block(b):
        for s in b:
            if s[0] == "assign" and s[2][0] == "choice":
                if any(in_expr(e) for _, e in s[2][1]):
                    return True
            elif s[0] == "simult":
                if any(r[0] == "choice" and any(in_expr(e) for _, e in r[1]) for _, r in s[1]):
                    return True
            elif s[0] == "if":
                if any(in_block(bb) for _, bb in s[1]) or (s[2] and in_block(s[2])):
                    return True
        return False
    return in_block(p["init"]) or in_block(p["body"])


def is_discrete(p):
    """finite discrete program without symbolic parameters: the exact oracle applies"""
    vars_ = set(P.prog_vars(p))

    def expr_ok(e):
        return gen.expr_vars(e) <= vars_

    def rhs_ok(r):
        if r[0] == "draw":
            d = r[1]
            if d[0] == "cont":
                return False
            if d[0] == "bern":
                return expr_ok(d[1])
            if d[0] == "cat":
                return all(expr_ok(x) for x in d[1])
            return True
        return all(expr_ok(pp) and expr_ok(e) for pp, e in r[1])

    def block_ok(b):
        for s in b:
            if s[0] == "assign":
                if not rhs_ok(s[2]):
                    return False
            elif s[0] == "simult":
                if not all(rhs_ok(r) for _, r in s[1]):
                    return False
            else:
                for cnd, bb in s[1]:
                    if not gen.cond_vars(cnd) <= vars_ or not block_ok(bb):
                        return False
                if s[2] and not block_ok(s[2]):
                    return False
        return True
    return block_ok(p["init"]) and block_ok(p["body"]) and gen.cond_vars(p["guard"]) <= vars_
