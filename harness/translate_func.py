"""T (C13): fail-closed Python-`ast` -> Gallina translator for the Sin/Cos/Exp moment code of Polar.

Reads, on every run, from lib.REPO (honours POLAR_REPO):
  program/assignment/functional_assignment.py
      FunctionalAssignment.get_func_moment      (whole method  -> get_func_moment : fdict -> dispatch)
      FunctionalAssignment.get_trig_moment      (whole method  -> get_trig_moment_num / _den, parametric in
                                                 the ring R, the unit I, dist.cf at an integer frequency and
                                                 diff(dist.cf(t), t, a).xreplace({t: m}))
      FunctionalAssignment.get_exp_moment       (whole method  -> get_exp_moment : option R, parametric in
                                                 dist.mgf_exists_at, dist.mgf, diff(dist.mgf(t), t, a) at m)
      FunctionalAssignment.convert_func_moment  (whole method)
      FunctionalAssignment.get_const_moment     (whole method)
  program/distribution/bernoulli.py, discrete_uniform.py
      cf / mgf bodies as formal expressions in E ** (I * m * t)  (-> *_cf, *_mgf over a ring with e : Z -> R)
and writes coq/gen/FuncGen.v (logical path PolarGen.FuncGen) over the runtime of Polar.Func.

Typing: Python ints that are powers / loop indices are `nat`; integer arithmetic is done in Z
(`Z.of_nat`), exponents in nat (every nat subtraction gets a generated side lemma proved by lia
from the enclosing ranges); `math.comb` is the binomial coefficient `binom` (Python stdlib,
trusted); a product of an integer and a ring element embeds the integer with `zr`.
Anything outside the subset raises Abort (file:line) and the check reports the tie as broken."""
import ast
import os
import sys

sys.path.insert(0, os.path.dirname(os.path.abspath(__file__)))
import lib  # noqa: E402


class Abort(Exception):
    pass


def coq_string(s):
    if '"' in s or "\n" in s or any(ord(c) > 126 or ord(c) < 32 for c in s):
        raise Abort(f"string literal outside the subset: {s!r}")
    return '"' + s + '"'


class Tr:
    def __init__(self, path, fname):
        self.path = path
        self.fname = fname
        self.side = []
        self.nside = 0

    def abort(self, node, why):
        raise Abort(f"{self.path}:{getattr(node, 'lineno', '?')}: {self.fname}: {why} "
                    f"[{ast.unparse(node)[:120] if isinstance(node, ast.AST) else node}]")

    # ---- types -------------------------------------------------------------------------
    def ty(self, n, env):
        """'nat' (python int, non-negative index/power), 'Z' (python int expression), 'R', 'bool', 'sym'"""
        if isinstance(n, ast.Constant):
            if isinstance(n.value, bool):
                return "bool"
            if isinstance(n.value, int):
                return "nat" if n.value >= 0 else "Z"
            self.abort(n, "constant outside the subset")
        if isinstance(n, ast.Name):
            if n.id in env:
                return env[n.id]
            self.abort(n, f"unknown name {n.id}")
        if isinstance(n, ast.UnaryOp) and isinstance(n.op, ast.USub):
            t = self.ty(n.operand, env)
            return "Z" if t in ("nat", "Z") else t
        if isinstance(n, ast.BinOp):
            a, b = self.ty(n.left, env), self.ty(n.right, env)
            if isinstance(n.op, ast.Pow):
                if b != "nat" and not self.is_nat(n.right, env):
                    self.abort(n, "exponent is not a natural-number expression")
                return "R" if a == "R" else "Z"
            if a == "R" or b == "R":
                return "R"
            if a in ("nat", "Z") and b in ("nat", "Z"):
                if isinstance(n.op, (ast.Add, ast.Mult)) and a == "nat" and b == "nat":
                    return "nat"
                return "Z"
            self.abort(n, f"arithmetic on {a} and {b}")
        if isinstance(n, ast.Call) and ast.unparse(n.func) == "math.comb":
            return "Z"
        if isinstance(n, ast.IfExp):
            a, b = self.ty(n.body, env), self.ty(n.orelse, env)
            if a == b:
                return a
            if {a, b} <= {"nat", "Z"}:
                return "Z"
            self.abort(n, "branches of different type")
        if isinstance(n, ast.Subscript):
            return "nat"
        if isinstance(n, ast.Call):
            return self.call_ty(n, env)
        self.abort(n, "expression outside the subset")

    def is_nat(self, n, env):
        """expression built from nat names, non-negative literals, +, *, - (side lemma)"""
        if isinstance(n, ast.Constant):
            return isinstance(n.value, int) and not isinstance(n.value, bool) and n.value >= 0
        if isinstance(n, ast.Name):
            return env.get(n.id) == "nat"
        if isinstance(n, ast.BinOp) and isinstance(n.op, (ast.Add, ast.Mult, ast.Sub)):
            return self.is_nat(n.left, env) and self.is_nat(n.right, env)
        if isinstance(n, ast.Subscript) or isinstance(n, ast.IfExp):
            return self.ty(n, env) == "nat"
        return False

    def is_int(self, n, env):
        if isinstance(n, ast.Constant):
            return isinstance(n.value, int) and not isinstance(n.value, bool)
        if isinstance(n, ast.Name):
            return env.get(n.id) in ("nat", "Z")
        if isinstance(n, ast.UnaryOp) and isinstance(n.op, ast.USub):
            return self.is_int(n.operand, env)
        if isinstance(n, ast.BinOp) and isinstance(n.op, (ast.Add, ast.Sub, ast.Mult)):
            return self.is_int(n.left, env) and self.is_int(n.right, env)
        return False

    # ---- expressions -------------------------------------------------------------------
    def nat(self, n, env, hyps):
        if isinstance(n, ast.Constant) and isinstance(n.value, int) and not isinstance(n.value, bool) and n.value >= 0:
            return f"{n.value}%nat"
        if isinstance(n, ast.Name) and env.get(n.id) == "nat":
            return n.id
        if isinstance(n, ast.BinOp) and isinstance(n.op, (ast.Add, ast.Mult, ast.Sub)):
            a, b = self.nat(n.left, env, hyps), self.nat(n.right, env, hyps)
            if isinstance(n.op, ast.Sub):
                self.nside += 1
                binders = " ".join(f"({v} : nat)" for v, t in env.items() if t == "nat")
                hy = "".join(f"{h} -> " for h in hyps)
                self.side.append(
                    f"Lemma {self.fname}_nat_sub_{self.nside} : forall {binders}, {hy}({b} <= {a})%nat.\n"
                    f"Proof. intros; lia. Qed.   (* line {n.lineno}: Python's {ast.unparse(n)} is never negative here *)")
            sym = {ast.Add: "+", ast.Mult: "*", ast.Sub: "-"}[type(n.op)]
            return f"({a} {sym} {b})%nat"
        if isinstance(n, ast.Subscript):
            return self.subscript(n, env)
        if isinstance(n, ast.IfExp):
            c = self.boolean(n.test, env, hyps)
            return f"(if {c} then {self.nat(n.body, env, hyps)} else {self.nat(n.orelse, env, hyps)})"
        self.abort(n, "natural-number expression outside the subset")

    def subscript(self, n, env):
        if isinstance(n.value, ast.Name) and env.get(n.value.id) == "fdict" and isinstance(n.slice, ast.Constant) \
                and isinstance(n.slice.value, str):
            return f"(fget {coq_string(n.slice.value)} {n.value.id})"
        self.abort(n, "subscript outside the subset (func_powers[\"...\"])")

    def Z(self, n, env, hyps):
        t = self.ty(n, env)
        if t == "nat":
            if isinstance(n, ast.Constant):
                return f"{n.value}%Z"
            if isinstance(n, ast.Name):
                return f"(Z.of_nat {n.id})"
            if isinstance(n, ast.BinOp) and isinstance(n.op, (ast.Add, ast.Mult)):
                sym = "+" if isinstance(n.op, ast.Add) else "*"
                return f"({self.Z(n.left, env, hyps)} {sym} {self.Z(n.right, env, hyps)})%Z"
            return f"(Z.of_nat {self.nat(n, env, hyps)})"
        if t != "Z":
            self.abort(n, f"integer expression expected, found {t}")
        if isinstance(n, ast.Name):
            return n.id
        if isinstance(n, ast.Constant):
            return f"({n.value})%Z"
        if isinstance(n, ast.UnaryOp):
            return f"(- {self.Z(n.operand, env, hyps)})%Z"
        if isinstance(n, ast.BinOp):
            if isinstance(n.op, ast.Pow):
                return f"({self.Z(n.left, env, hyps)} ^ Z.of_nat {self.nat(n.right, env, hyps)})%Z"
            sym = {ast.Add: "+", ast.Sub: "-", ast.Mult: "*"}.get(type(n.op))
            if sym is None:
                self.abort(n, "integer operator outside the subset")
            return f"({self.Z(n.left, env, hyps)} {sym} {self.Z(n.right, env, hyps)})%Z"
        if isinstance(n, ast.Call) and ast.unparse(n.func) == "math.comb":
            if len(n.args) != 2 or n.keywords:
                self.abort(n, "math.comb arity")
            return f"(binom {self.nat(n.args[0], env, hyps)} {self.nat(n.args[1], env, hyps)})"
        if isinstance(n, ast.IfExp):
            c = self.boolean(n.test, env, hyps)
            return f"(if {c} then {self.Z(n.body, env, hyps)} else {self.Z(n.orelse, env, hyps)})"
        self.abort(n, "integer expression outside the subset")

    def R(self, n, env, hyps):
        t = self.ty(n, env)
        if t in ("nat", "Z"):
            z = self.Z(n, env, hyps)
            if z == "0%Z":
                return "r0"
            if z == "1%Z":
                return "r1"
            return f"(zr {z})"
        if t != "R":
            self.abort(n, f"ring expression expected, found {t}")
        if isinstance(n, ast.Name):
            return env.get("@" + n.id, n.id)
        if isinstance(n, ast.UnaryOp):
            return f"(ropp {self.R(n.operand, env, hyps)})"
        if isinstance(n, ast.BinOp):
            if isinstance(n.op, ast.Pow):
                return f"(rpow {self.R(n.left, env, hyps)} {self.nat(n.right, env, hyps)})"
            f = {ast.Add: "radd", ast.Sub: "rsub", ast.Mult: "rmul"}.get(type(n.op))
            if f is None:
                self.abort(n, "ring operator outside the subset (division only as `result /= ...`)")
            return f"({f} {self.R(n.left, env, hyps)} {self.R(n.right, env, hyps)})"
        if isinstance(n, ast.Call):
            return self.call(n, env, hyps)
        self.abort(n, "ring expression outside the subset")

    # dist.cf(m), dist.mgf(m), diff(dist.cf(t), t, a).xreplace({t: m})
    def transform_call(self, n, env):
        """-> (kind 'cf'|'mgf', deriv order node or None, point node) or None"""
        if isinstance(n.func, ast.Attribute) and isinstance(n.func.value, ast.Name) and env.get(n.func.value.id) == "dist" \
                and n.func.attr in ("cf", "mgf") and len(n.args) == 1 and not n.keywords:
            return n.func.attr, None, n.args[0]
        if isinstance(n.func, ast.Attribute) and n.func.attr == "xreplace" and len(n.args) == 1 and not n.keywords \
                and isinstance(n.args[0], ast.Dict) and len(n.args[0].keys) == 1:
            key, point = n.args[0].keys[0], n.args[0].values[0]
            d = n.func.value
            if isinstance(d, ast.Call) and isinstance(d.func, ast.Name) and d.func.id == "diff" and env.get("diff") == "sympy.diff" \
                    and len(d.args) == 3 and not d.keywords and isinstance(key, ast.Name) and env.get(key.id) == "sym" \
                    and isinstance(d.args[1], ast.Name) and d.args[1].id == key.id:
                inner = d.args[0]
                if isinstance(inner, ast.Call) and isinstance(inner.func, ast.Attribute) and isinstance(inner.func.value, ast.Name) \
                        and env.get(inner.func.value.id) == "dist" and inner.func.attr in ("cf", "mgf") \
                        and len(inner.args) == 1 and isinstance(inner.args[0], ast.Name) and inner.args[0].id == key.id:
                    return inner.func.attr, d.args[2], point
        return None

    def moment_call(self, n, env):
        return (isinstance(n.func, ast.Attribute) and isinstance(n.func.value, ast.Name) and env.get(n.func.value.id) == "dist"
                and n.func.attr == "get_moment" and len(n.args) == 1 and not n.keywords)

    def identity_call(self, n, env):
        """value-preserving conversions between the two CAS: sympy.sympify(x)"""
        return (isinstance(n.func, ast.Name) and env.get(n.func.id) == "sympy.sympify" and len(n.args) == 1 and not n.keywords)

    def call_ty(self, n, env):
        if self.transform_call(n, env) or self.moment_call(n, env):
            return "R"
        if self.identity_call(n, env):
            return self.ty(n.args[0], env)
        if isinstance(n.func, ast.Attribute) and isinstance(n.func.value, ast.Name) and env.get(n.func.value.id) == "dist" \
                and n.func.attr == "mgf_exists_at":
            return "bool"
        self.abort(n, "call outside the subset")

    def call(self, n, env, hyps):
        tc = self.transform_call(n, env)
        if tc:
            kind, order, point = tc
            if env.get("@transform") != kind:
                self.abort(n, f"dist.{kind} used in a function that is expected to use dist.{env.get('@transform')}")
            p = self.Z(point, env, hyps)
            if order is None:
                return f"({kind} {p})"
            return f"(d{kind} {self.nat(order, env, hyps)} {p})"
        if self.moment_call(n, env):
            return f"(mom {self.nat(n.args[0], env, hyps)})"
        if self.identity_call(n, env):
            return self.R(n.args[0], env, hyps)
        self.abort(n, "call outside the subset")

    def boolean(self, n, env, hyps):
        if isinstance(n, ast.BoolOp):
            f = "orb" if isinstance(n.op, ast.Or) else "andb"
            xs = [self.boolean(v, env, hyps) for v in n.values]
            t = xs[0]
            for x in xs[1:]:
                t = f"({f} {t} {x})"
            return t
        if isinstance(n, ast.UnaryOp) and isinstance(n.op, ast.Not):
            return f"(negb {self.boolean(n.operand, env, hyps)})"
        if isinstance(n, ast.Name) and env.get(n.id) == "bool":
            return n.id
        if isinstance(n, ast.Compare) and len(n.ops) == 1:
            a, b, op = n.left, n.comparators[0], n.ops[0]
            if isinstance(op, ast.In) and isinstance(a, ast.Constant) and isinstance(a.value, str) \
                    and isinstance(b, ast.Name) and env.get(b.id) == "fdict":
                return f"(fmem {coq_string(a.value)} {b.id})"
            if isinstance(op, ast.Eq) and self.is_nat(a, env) and self.is_nat(b, env):
                return f"({self.nat(a, env, hyps)} =? {self.nat(b, env, hyps)})%nat"
            if isinstance(op, ast.Eq) and self.is_int(a, env) and self.is_int(b, env):
                return f"({self.Z(a, env, hyps)} =? {self.Z(b, env, hyps)})%Z"
            if isinstance(op, ast.Eq) and ast.unparse(a) == "self.func" and isinstance(b, ast.Constant) \
                    and isinstance(b.value, str) and env.get("self.func") == "string":
                return f"(String.eqb func {coq_string(b.value)})"
        if isinstance(n, ast.Call) and isinstance(n.func, ast.Name) and n.func.id == "isinstance" and len(n.args) == 2 \
                and not n.keywords and isinstance(n.args[0], ast.Name) and env.get(n.args[0].id) == "dist" \
                and isinstance(n.args[1], ast.Name) and env.get(n.args[1].id) == "class:TruncNormal":
            return "dist_is_truncnormal"
        if isinstance(n, ast.Attribute) and ast.unparse(n) == "cls.exact_func_moments" and env.get("cls.exact_func_moments"):
            return "exact_func_moments"
        if isinstance(n, ast.Attribute) and n.attr == "is_Rational" and isinstance(n.value, ast.Name) \
                and env.get(n.value.id) == "V":
            return f"(is_Rational {n.value.id})"
        if isinstance(n, ast.Call) and isinstance(n.func, ast.Attribute) and isinstance(n.func.value, ast.Name) \
                and env.get(n.func.value.id) == "dist" and n.func.attr == "mgf_exists_at" and len(n.args) == 1 \
                and not n.keywords:
            return f"(mgf_exists_at {self.Z(n.args[0], env, hyps)})"
        self.abort(n, "condition outside the subset")


# ---- helpers on the module ------------------------------------------------------------------
def find_class(tree, name, path):
    cs = [n for n in tree.body if isinstance(n, ast.ClassDef) and n.name == name]
    if len(cs) != 1:
        raise Abort(f"{path}: class {name} not found exactly once")
    return cs[0]


def find_method(cls, name, path, classmethod_=None):
    fs = [n for n in cls.body if isinstance(n, ast.FunctionDef) and n.name == name]
    if len(fs) != 1:
        raise Abort(f"{path}: method {name} not found exactly once")
    fn = fs[0]
    decos = [ast.unparse(d) for d in fn.decorator_list]
    if classmethod_ is True and decos != ["classmethod"]:
        raise Abort(f"{path}:{fn.lineno}: {name} is expected to be a classmethod (decorators {decos})")
    if classmethod_ is False and decos:
        raise Abort(f"{path}:{fn.lineno}: {name} has decorators {decos}")
    a = fn.args
    if a.vararg or a.kwarg or a.kwonlyargs or a.defaults or a.posonlyargs:
        raise Abort(f"{path}:{fn.lineno}: parameter list of {name} outside the subset")
    return fn


def params(fn):
    return [x.arg for x in fn.args.args]


def strip_doc(body):
    if body and isinstance(body[0], ast.Expr) and isinstance(body[0].value, ast.Constant) \
            and isinstance(body[0].value.value, str):
        return body[1:]
    return body


def imported_from(tree, module_suffixes, name):
    """is `name` imported (without alias) from a module whose dotted name ends with one of the suffixes"""
    for n in tree.body:
        if isinstance(n, ast.ImportFrom) and n.module and any(n.module == s or n.module.endswith("." + s) or n.module.endswith(s)
                                                              for s in module_suffixes):
            for a in n.names:
                if a.name == name and a.asname is None:
                    return True
    return False


def alias_of(tree, module, name):
    for n in tree.body:
        if isinstance(n, ast.ImportFrom) and n.module == module:
            for a in n.names:
                if a.name == name:
                    return a.asname or a.name
    return None


def check_no_rebinding(tree, path, names):
    """module-level names we interpret must not be rebound at module level or inside the class"""
    for n in ast.walk(tree):
        if isinstance(n, (ast.Assign, ast.AugAssign, ast.AnnAssign)):
            tg = n.targets if isinstance(n, ast.Assign) else [n.target]
            for t in tg:
                for x in ast.walk(t):
                    if isinstance(x, ast.Name) and x.id in names and isinstance(x.ctx, ast.Store):
                        raise Abort(f"{path}:{n.lineno}: the name {x.id} is rebound")
        if isinstance(n, ast.FunctionDef) and n.name in names:
            raise Abort(f"{path}:{n.lineno}: the name {n.name} is redefined")


RAISE_EXC = "FunctionalAssignmentException"


def raise_msg(s, tr):
    """raise FunctionalAssignmentException("literal" | f"...") -> message text or None for f-strings"""
    if not (isinstance(s, ast.Raise) and s.cause is None and isinstance(s.exc, ast.Call)
            and isinstance(s.exc.func, ast.Name) and s.exc.func.id == RAISE_EXC and len(s.exc.args) == 1
            and not s.exc.keywords):
        tr.abort(s, "raise outside the subset")
    a = s.exc.args[0]
    if isinstance(a, ast.Constant) and isinstance(a.value, str):
        return a.value
    if isinstance(a, ast.JoinedStr):
        return None
    tr.abort(s, "exception message outside the subset")


# ---- get_func_moment --------------------------------------------------------------------------
def tr_get_func_moment(cls, path):
    fn = find_method(cls, "get_func_moment", path, True)
    if params(fn) != ["cls", "dist", "func_powers"]:
        raise Abort(f"{path}:{fn.lineno}: parameters of get_func_moment are {params(fn)}")
    tr = Tr(path, "get_func_moment")
    env = {"func_powers": "fdict", "dist": "dist"}

    def block(stmts, env, ind):
        pad = "  " * ind
        if not stmts:
            tr.abort(fn, "get_func_moment can fall off its end")
        s, rest = stmts[0], stmts[1:]
        if isinstance(s, ast.Assign) and len(s.targets) == 1 and isinstance(s.targets[0], ast.Name):
            v = s.targets[0].id
            if v in env:
                tr.abort(s, f"{v} is reassigned")
            e = tr.boolean(s.value, env, [])
            env2 = dict(env)
            env2[v] = "bool"
            return f"let {v} := {e} in\n{pad}" + block(rest, env2, ind)
        if isinstance(s, ast.If) and not s.orelse and len(s.body) == 1:
            c = tr.boolean(s.test, env, [])
            return f"if {c} then {leaf(s.body[0])}\n{pad}else " + block(rest, env, ind)
        if isinstance(s, (ast.Raise, ast.Return)):
            if rest:
                tr.abort(s, "code after raise/return")
            return leaf(s)
        tr.abort(s, "statement outside the subset")

    def leaf(s):
        if isinstance(s, ast.Raise):
            m = raise_msg(s, tr)
            if m is None:
                tr.abort(s, "f-string message")
            return f"DRaise {coq_string(m)}"
        if isinstance(s, ast.Return):
            u = ast.unparse(s.value)
            if u == "cls.get_trig_moment(dist, func_powers)":
                return "DTrig"
            if u == "cls.get_exp_moment(dist, func_powers)":
                return "DExp"
        tr.abort(s, "branch outside the subset (return cls.get_trig_moment/get_exp_moment(dist, func_powers) or raise)")

    body = block(strip_doc(fn.body), env, 1)
    return (f"(* {os.path.relpath(path, lib.REPO)}:{fn.lineno}  FunctionalAssignment.get_func_moment(cls, dist, func_powers) *)\n"
            f"Definition get_func_moment (func_powers : fdict) : dispatch :=\n  {body}.\n")


# ---- get_trig_moment --------------------------------------------------------------------------
def power_reads(stmts, tr, env, allowed):
    """leading statements `<v> = func_powers["K"] if "K" in func_powers else 0` and `t = SSymbol("t")`;
    -> (let-lines, env, remaining statements)"""
    lets = []
    env = dict(env)
    i = 0
    while i < len(stmts):
        s = stmts[i]
        if not (isinstance(s, ast.Assign) and len(s.targets) == 1 and isinstance(s.targets[0], ast.Name)):
            break
        v = s.targets[0].id
        if is_symbol_decl(s, env):
            env[v] = "sym"
            i += 1
            continue
        if isinstance(s.value, ast.IfExp) and v not in env and tr.ty(s.value, env) == "nat":
            e = tr.nat(s.value, env, [])
            keys = [x.value for x in ast.walk(s.value) if isinstance(x, ast.Constant) and isinstance(x.value, str)]
            if len(set(keys)) != 1 or keys[0] not in allowed:
                tr.abort(s, f"power read with keys {keys}")
            lets.append((v, e, keys[0]))
            env[v] = "nat"
            i += 1
            continue
        break
    return lets, env, stmts[i:]


def is_symbol_decl(s, env):
    return (isinstance(s, ast.Assign) and len(s.targets) == 1 and isinstance(s.targets[0], ast.Name)
            and isinstance(s.value, ast.Call) and isinstance(s.value.func, ast.Name)
            and env.get(s.value.func.id) == "sympy.Symbol" and len(s.value.args) == 1 and not s.value.keywords
            and isinstance(s.value.args[0], ast.Constant) and isinstance(s.value.args[0].value, str))


def tr_get_trig_moment(cls, path, genv):
    fn = find_method(cls, "get_trig_moment", path, True)
    if params(fn) != ["cls", "dist", "func_powers"]:
        raise Abort(f"{path}:{fn.lineno}: parameters of get_trig_moment are {params(fn)}")
    tr = Tr(path, "get_trig_moment")
    env = dict(genv)
    env.update({"func_powers": "fdict", "dist": "dist", "@transform": "cf"})
    lets, env, rest = power_reads(strip_doc(fn.body), tr, env, {"Id", "Sin", "Cos"})
    if sorted(k for _, _, k in lets) != ["Cos", "Id", "Sin"]:
        tr.abort(fn, f"expected the three power reads Id/Sin/Cos first, found {[k for _, _, k in lets]}")
    # result = 0
    if not (rest and isinstance(rest[0], ast.Assign) and ast.unparse(rest[0]) == "result = 0"):
        tr.abort(rest[0] if rest else fn, "expected `result = 0`")
    env["result"] = "R"
    rest = rest[1:]
    # the accumulation loops
    if not (rest and isinstance(rest[0], ast.For)):
        tr.abort(rest[0] if rest else fn, "expected the accumulation loop")

    def loop(s, env, hyps, ind):
        pad = "  " * ind
        if s.orelse or not isinstance(s.target, ast.Name) or s.target.id in env:
            tr.abort(s, "loop shape")
        v = s.target.id
        it = s.iter
        if not (isinstance(it, ast.Call) and isinstance(it.func, ast.Name) and it.func.id == "range" and len(it.args) == 1
                and not it.keywords):
            tr.abort(s, "loop is not over range(n)")
        hi = tr.nat(it.args[0], env, hyps)
        env2 = dict(env)
        env2[v] = "nat"
        hy2 = hyps + [f"({v} < {hi})%nat"]
        body = stmts(s.body, env2, hy2, ind + 2)
        return (f"fold_left (fun result ({v} : nat) =>\n{pad}    {body})\n{pad}  (pyrange 0%nat {hi}) result")

    def stmts(ss, env, hyps, ind):
        """statements of a loop body; value: the new `result`"""
        pad = "  " * ind
        if not ss:
            return "result"
        s, rest_ = ss[0], ss[1:]
        if isinstance(s, ast.For):
            return f"let result :=\n{pad}  " + loop(s, env, hyps, ind + 1) + f" in\n{pad}" + stmts(rest_, env, hyps, ind)
        if isinstance(s, ast.Assign) and len(s.targets) == 1 and isinstance(s.targets[0], ast.Name) \
                and s.targets[0].id not in env and tr.ty(s.value, env) in ("nat", "Z"):
            v = s.targets[0].id
            env2 = dict(env)
            env2[v] = "Z"
            return f"let {v} := {tr.Z(s.value, env, hyps)} in\n{pad}" + stmts(rest_, env2, hyps, ind)
        if isinstance(s, ast.If):
            # if c1: v = e1 elif c2: v = e2 ... else: v = en      (one ring-valued variable)
            chain, cur = [], s
            while True:
                if not (len(cur.body) == 1 and isinstance(cur.body[0], ast.Assign) and len(cur.body[0].targets) == 1
                        and isinstance(cur.body[0].targets[0], ast.Name)):
                    tr.abort(cur, "branch is not a single assignment")
                chain.append((cur.test, cur.body[0]))
                if len(cur.orelse) == 1 and isinstance(cur.orelse[0], ast.If):
                    cur = cur.orelse[0]
                    continue
                if not (len(cur.orelse) == 1 and isinstance(cur.orelse[0], ast.Assign) and len(cur.orelse[0].targets) == 1
                        and isinstance(cur.orelse[0].targets[0], ast.Name)):
                    tr.abort(cur, "the chain has no final else with a single assignment")
                last = cur.orelse[0]
                break
            names = {a.targets[0].id for _, a in chain} | {last.targets[0].id}
            if len(names) != 1:
                tr.abort(s, f"branches assign different variables {sorted(names)}")
            v = names.pop()
            if v in env:
                tr.abort(s, f"{v} is reassigned")
            txt = tr.R(last.value, env, hyps)
            for c, a in reversed(chain):
                txt = f"(if {tr.boolean(c, env, hyps)} then {tr.R(a.value, env, hyps)} else {txt})"
            env2 = dict(env)
            env2[v] = "R"
            return f"let {v} := {txt} in\n{pad}" + stmts(rest_, env2, hyps, ind)
        if isinstance(s, ast.AugAssign) and isinstance(s.op, ast.Add) and isinstance(s.target, ast.Name) \
                and s.target.id == "result":
            e = tr.R(s.value, env, hyps)
            return f"let result := (radd result {e}) in\n{pad}" + stmts(rest_, env, hyps, ind)
        tr.abort(s, "loop statement outside the subset")

    num_body = "let result :=\n    " + loop(rest[0], env, [], 2) + " in\n  result"
    rest = rest[1:]
    # result /= <divisor>
    if not (rest and isinstance(rest[0], ast.AugAssign) and isinstance(rest[0].op, ast.Div)
            and isinstance(rest[0].target, ast.Name) and rest[0].target.id == "result"):
        tr.abort(rest[0] if rest else fn, "expected `result /= <divisor>` after the loops")
    den = tr.R(rest[0].value, env, [])
    tail = [ast.unparse(s) for s in rest[1:]]
    if tail != ["assert im(result).expand() == 0", "return cls.convert_func_moment(re(result))"]:
        tr.abort(fn, f"unexpected statements after the division: {tail}")
    letl = "".join(f"  let {v} := {e} in\n" for v, e, _ in lets)
    bind = "(R : cring) (I : R) (dist_is_truncnormal : bool) (mom : nat -> R) (cf : Z -> R) (dcf : nat -> Z -> R)"
    sec = ("(* R: any commutative ring; I: sympy.I; dist_is_truncnormal: isinstance(dist, TruncNormal);\n"
           "   mom a: dist.get_moment(a); cf m: dist.cf(m) at an integer frequency m;\n"
           "   dcf a m: diff(dist.cf(t), t, a).xreplace({t: m}) *)\n"
           f"(* {os.path.relpath(path, lib.REPO)}:{fn.lineno}  FunctionalAssignment.get_trig_moment: `result` before `result /= ...` *)\n"
           f"Definition get_trig_moment_num {bind} (func_powers : fdict) : R :=\n{letl}  let result := r0 in\n  {num_body}.\n\n"
           f"(* the divisor of `result /= ...`; the method returns convert_func_moment(re(num / den)) after\n"
           f"   asserting im(num / den) == 0 *)\n"
           f"Definition get_trig_moment_den {bind} (func_powers : fdict) : R :=\n{letl}  {den}.\n")
    if tr.side:
        sec += "\n".join(tr.side) + "\n"
    return sec


# ---- get_exp_moment ---------------------------------------------------------------------------
def tr_get_exp_moment(cls, path, genv):
    fn = find_method(cls, "get_exp_moment", path, True)
    if params(fn) != ["cls", "dist", "func_powers"]:
        raise Abort(f"{path}:{fn.lineno}: parameters of get_exp_moment are {params(fn)}")
    tr = Tr(path, "get_exp_moment")
    env = dict(genv)
    env.update({"func_powers": "fdict", "dist": "dist", "@transform": "mgf"})
    lets, env, rest = power_reads(strip_doc(fn.body), tr, env, {"Id", "Exp"})
    if sorted(k for _, _, k in lets) != ["Exp", "Id"]:
        tr.abort(fn, f"expected the two power reads Exp/Id first, found {[k for _, _, k in lets]}")
    # if not dist.mgf_exists_at(exp_power): raise ...
    if not (rest and isinstance(rest[0], ast.If) and not rest[0].orelse and len(rest[0].body) == 1
            and isinstance(rest[0].body[0], ast.Raise)):
        tr.abort(rest[0] if rest else fn, "expected the existence check `if not dist.mgf_exists_at(..): raise`")
    raise_msg(rest[0].body[0], tr)
    guard = tr.boolean(rest[0].test, env, [])
    rest = rest[1:]
    # if id_power == 0: result = dist.mgf(exp_power) else: t = SSymbol("t"); result = diff(...)...
    if not (rest and isinstance(rest[0], ast.If)):
        tr.abort(rest[0] if rest else fn, "expected `if id_power == 0: ... else: ...`")
    s = rest[0]

    def branch(ss, env):
        env = dict(env)
        ss = list(ss)
        while ss and is_symbol_decl(ss[0], env):
            env[ss[0].targets[0].id] = "sym"
            ss = ss[1:]
        if not (len(ss) == 1 and isinstance(ss[0], ast.Assign) and len(ss[0].targets) == 1
                and isinstance(ss[0].targets[0], ast.Name) and ss[0].targets[0].id == "result"):
            tr.abort(s, "branch does not consist of symbol declarations and `result = ...`")
        return tr.R(ss[0].value, env, [])
    c = tr.boolean(s.test, env, [])
    a = branch(s.body, env)
    b = branch(s.orelse, env)
    tail = [ast.unparse(x) for x in rest[1:]]
    if tail != ["return cls.convert_func_moment(result)"]:
        tr.abort(fn, f"unexpected statements at the end: {tail}")
    letl = "".join(f"  let {v} := {e} in\n" for v, e, _ in lets)
    sec = ("(* mgf_exists_at m: dist.mgf_exists_at(m); mgf m: dist.mgf(m) at an integer point m;\n"
           "   dmgf a m: diff(dist.mgf(t), t, a).xreplace({t: m}) *)\n"
           f"(* {os.path.relpath(path, lib.REPO)}:{fn.lineno}  FunctionalAssignment.get_exp_moment; None = raise {RAISE_EXC} *)\n"
           f"Definition get_exp_moment (R : cring) (mgf_exists_at : Z -> bool) (mgf : Z -> R) (dmgf : nat -> Z -> R)\n"
           f"    (convert_func_moment : R -> R) (func_powers : fdict) : option R :=\n{letl}"
           f"  if {guard} then None else\n"
           f"  let result := if {c} then {a} else {b} in\n"
           f"  Some (convert_func_moment result).\n")
    if tr.side:
        sec += "\n".join(tr.side) + "\n"
    return sec


# ---- convert_func_moment ----------------------------------------------------------------------
def tr_convert(cls, path, genv):
    fn = find_method(cls, "convert_func_moment", path, True)
    if params(fn) != ["cls", "m"]:
        raise Abort(f"{path}:{fn.lineno}: parameters of convert_func_moment are {params(fn)}")
    tr = Tr(path, "convert_func_moment")
    body = strip_doc(fn.body)
    if not (len(body) == 1 and isinstance(body[0], ast.If) and len(body[0].body) == 1 and len(body[0].orelse) == 1
            and isinstance(body[0].body[0], ast.Return) and isinstance(body[0].orelse[0], ast.Return)):
        tr.abort(fn, "expected `if ...: return m else: return <rounded>`")
    env = {"m": "V", "cls.exact_func_moments": True}
    c = tr.boolean(body[0].test, env, [])
    if ast.unparse(body[0].body[0].value) != "m":
        tr.abort(body[0].body[0], "the exact branch does not return m")
    r = body[0].orelse[0].value
    # sympy2symengine(Rational(re(N(m, D))))
    ok = (isinstance(r, ast.Call) and ast.unparse(r.func) == "sympy2symengine" and len(r.args) == 1
          and isinstance(r.args[0], ast.Call) and ast.unparse(r.args[0].func) == "Rational" and len(r.args[0].args) == 1
          and isinstance(r.args[0].args[0], ast.Call) and ast.unparse(r.args[0].args[0].func) == "re"
          and len(r.args[0].args[0].args) == 1)
    nn = r.args[0].args[0].args[0] if ok else None
    if not (ok and isinstance(nn, ast.Call) and ast.unparse(nn.func) == "N" and len(nn.args) == 2 and not nn.keywords
            and ast.unparse(nn.args[0]) == "m" and isinstance(nn.args[1], ast.Constant) and isinstance(nn.args[1].value, int)
            and nn.args[1].value > 0 and genv.get("N") == "sympy.N" and genv.get("re") == "sympy.re"
            and genv.get("Rational") == "sympy.Rational"):
        tr.abort(body[0].orelse[0], "the rounding branch is not sympy2symengine(Rational(re(N(m, <digits>))))")
    digits = nn.args[1].value
    # class attribute default
    dflt = None
    for n in cls.body:
        if isinstance(n, ast.AnnAssign) and isinstance(n.target, ast.Name) and n.target.id == "exact_func_moments":
            if not (isinstance(n.value, ast.Constant) and isinstance(n.value.value, bool)):
                tr.abort(n, "default of exact_func_moments")
            dflt = n.value.value
    if dflt is None:
        tr.abort(cls, "class attribute exact_func_moments not found")
    return (f"(* {os.path.relpath(path, lib.REPO)}:{fn.lineno}  FunctionalAssignment.convert_func_moment(cls, m);\n"
            f"   round_to d m stands for sympy2symengine(Rational(re(N(m, d)))) *)\n"
            f"Definition convert_func_moment {{V : Type}} (exact_func_moments : bool) (is_Rational : V -> bool)\n"
            f"    (round_to : nat -> V -> V) (m : V) : V :=\n"
            f"  if {c} then m else round_to {digits}%nat m.\n"
            f"Definition exact_func_moments_default : bool := {'true' if dflt else 'false'}.\n")


# ---- get_const_moment -------------------------------------------------------------------------
def tr_const(cls, path, genv):
    fn = find_method(cls, "get_const_moment", path, False)
    if params(fn) != ["self", "k"]:
        raise Abort(f"{path}:{fn.lineno}: parameters of get_const_moment are {params(fn)}")
    tr = Tr(path, "get_const_moment")
    env = {"self.func": "string", "k": "nat"}
    body = strip_doc(fn.body)
    out = ""
    for s in body[:-1]:
        if not (isinstance(s, ast.If) and not s.orelse and len(s.body) == 1 and isinstance(s.body[0], ast.Return)):
            tr.abort(s, "expected `if self.func == \"F\": return self.convert_func_moment(f(self.argument) ** k)`")
        c = tr.boolean(s.test, env, [])
        r = s.body[0].value
        if not (isinstance(r, ast.Call) and ast.unparse(r.func) == "self.convert_func_moment" and len(r.args) == 1
                and isinstance(r.args[0], ast.BinOp) and isinstance(r.args[0].op, ast.Pow)
                and ast.unparse(r.args[0].right) == "k" and isinstance(r.args[0].left, ast.Call)
                and isinstance(r.args[0].left.func, ast.Name) and len(r.args[0].left.args) == 1
                and ast.unparse(r.args[0].left.args[0]) == "self.argument"):
            tr.abort(s, "return value outside the subset")
        f = r.args[0].left.func.id
        if genv.get(f) not in ("symengine.sin", "symengine.cos", "symengine.exp"):
            tr.abort(s, f"{f} is not symengine's sin/cos/exp")
        out += f"  if {c} then Some (convert_func_moment (vpow (f{genv[f].split('.')[1]} argument) k)) else\n"
    if not isinstance(body[-1], ast.Raise):
        tr.abort(body[-1], "expected a final raise")
    raise_msg(body[-1], tr)
    out += "  None"
    return (f"(* {os.path.relpath(path, lib.REPO)}:{fn.lineno}  FunctionalAssignment.get_const_moment(self, k); None = raise *)\n"
            f"Definition get_const_moment {{A V : Type}} (fsin fcos fexp : A -> V) (vpow : V -> nat -> V)\n"
            f"    (convert_func_moment : V -> V) (func : string) (argument : A) (k : nat) : option V :=\n{out}.\n")


# ---- cf / mgf of the integer-supported families ------------------------------------------------
class ExpTr:
    """bodies of cf/mgf of Bernoulli and DiscreteUniform as expressions over a ring with e : Z -> R
    (e m = E ** (u * m) where u = I for cf, u = 1 for mgf) at an INTEGER point t."""

    def __init__(self, path, fname, kind, env):
        self.path, self.fname, self.kind, self.env = path, fname, kind, env

    def abort(self, n, why):
        raise Abort(f"{self.path}:{getattr(n, 'lineno', '?')}: {self.fname}: {why} [{ast.unparse(n)[:120]}]")

    def ty(self, n):
        if isinstance(n, ast.Constant) and isinstance(n.value, int) and not isinstance(n.value, bool):
            return "Z"
        if isinstance(n, ast.Name):
            t = self.env.get(n.id)
            if t in ("Z", "R"):
                return t
            self.abort(n, f"name {n.id}")
        if isinstance(n, ast.BinOp):
            if isinstance(n.op, ast.Pow) and ast.unparse(n.left) == "E":
                return "R"
            a, b = self.ty(n.left), self.ty(n.right)
            return "R" if "R" in (a, b) else "Z"
        if isinstance(n, ast.UnaryOp):
            return self.ty(n.operand)
        self.abort(n, "expression outside the subset")

    def Z(self, n):
        if isinstance(n, ast.Constant):
            return f"({n.value})%Z"
        if isinstance(n, ast.Name) and self.env.get(n.id) == "Z":
            return n.id
        if isinstance(n, ast.UnaryOp) and isinstance(n.op, ast.USub):
            return f"(- {self.Z(n.operand)})%Z"
        if isinstance(n, ast.BinOp):
            sym = {ast.Add: "+", ast.Sub: "-", ast.Mult: "*"}.get(type(n.op))
            if sym and self.ty(n) == "Z":
                return f"({self.Z(n.left)} {sym} {self.Z(n.right)})%Z"
        self.abort(n, "integer expression outside the subset")

    def exponent(self, n):
        """exponent of E: a product containing exactly one factor I (cf) / no I (mgf); -> Z term"""
        fs = []

        def flat(x):
            if isinstance(x, ast.BinOp) and isinstance(x.op, ast.Mult):
                flat(x.left)
                flat(x.right)
            else:
                fs.append(x)
        flat(n)
        ni = [f for f in fs if isinstance(f, ast.Name) and f.id == "I"]
        rest = [f for f in fs if not (isinstance(f, ast.Name) and f.id == "I")]
        if len(ni) != (1 if self.kind == "cf" else 0):
            self.abort(n, f"exponent of E has {len(ni)} factors I")
        if not rest:
            self.abort(n, "empty exponent")
        t = self.Z(rest[0])
        for f in rest[1:]:
            t = f"({t} * {self.Z(f)})%Z"
        return t

    def R(self, n):
        t = self.ty(n)
        if t == "Z":
            z = self.Z(n)
            return "r1" if z == "(1)%Z" else f"(zr {z})"
        if isinstance(n, ast.Name):
            return n.id
        if isinstance(n, ast.BinOp):
            if isinstance(n.op, ast.Pow) and ast.unparse(n.left) == "E":
                return f"(e {self.exponent(n.right)})"
            f = {ast.Add: "radd", ast.Sub: "rsub", ast.Mult: "rmul"}.get(type(n.op))
            if f:
                return f"({f} {self.R(n.left)} {self.R(n.right)})"
        self.abort(n, "ring expression outside the subset")


def tr_dist_transforms(repo):
    out = ""
    # Bernoulli
    p = os.path.join(repo, "program", "distribution", "bernoulli.py")
    tree = ast.parse(open(p).read(), p)
    cls = find_class(tree, "Bernoulli", p)
    names = {"E": None, "I": None}
    for nm in names:
        if not imported_from(tree, ["symengine", "symengine_wrapper", "sympy"], nm):
            raise Abort(f"{p}: {nm} is not imported from symengine/sympy")
    check_no_rebinding(tree, p, {"E", "I", "sympify"})
    out += "(* cf / mgf of the integer-supported families at an integer point t;\n   e m = E ** (u * m) with u = I for cf and u = 1 for mgf *)\n"
    for kind in ("cf", "mgf"):
        fn = find_method(cls, kind, p, False)
        if params(fn) != ["self", "t"]:
            raise Abort(f"{p}:{fn.lineno}: parameters of {kind}")
        body = [ast.unparse(s) for s in strip_doc(fn.body)]
        if body[:2] != ["p = sympify(self.p)", "t = sympify(t)"] or len(body) != 3 or not body[2].startswith("return "):
            raise Abort(f"{p}:{fn.lineno}: Bernoulli.{kind} has an unexpected shape: {body}")
        et = ExpTr(p, f"Bernoulli.{kind}", kind, {"p": "R", "t": "Z"})
        e = et.R(strip_doc(fn.body)[2].value)
        out += (f"(* {os.path.relpath(p, repo)}:{fn.lineno}  Bernoulli.{kind}(t) *)\n"
                f"Definition bernoulli_{kind} (R : cring) (e : Z -> R) (p : R) (t : Z) : R :=\n  {e}.\n")
    # DiscreteUniform
    p = os.path.join(repo, "program", "distribution", "discrete_uniform.py")
    tree = ast.parse(open(p).read(), p)
    cls = find_class(tree, "DiscreteUniform", p)
    for nm in ("E", "I"):
        if not imported_from(tree, ["symengine", "symengine_wrapper", "sympy"], nm):
            raise Abort(f"{p}: {nm} is not imported from symengine/sympy")
    check_no_rebinding(tree, p, {"E", "I", "ssympify", "sympify"})
    for kind in ("cf", "mgf"):
        fn = find_method(cls, kind, p, False)
        if params(fn) != ["self", "t"]:
            raise Abort(f"{p}:{fn.lineno}: parameters of {kind}")
        ss = strip_doc(fn.body)
        body = [ast.unparse(s) for s in ss]
        if body[:3] != ["a = ssympify(self.values[0])", "b = ssympify(self.values[-1])", "t = ssympify(t)"] \
                or len(body) != 4 or not isinstance(ss[3], ast.Return):
            raise Abort(f"{p}:{fn.lineno}: DiscreteUniform.{kind} has an unexpected shape: {body}")
        r = ss[3].value
        if not (isinstance(r, ast.BinOp) and isinstance(r.op, ast.Div)):
            raise Abort(f"{p}:{fn.lineno}: DiscreteUniform.{kind} is not a quotient")
        et = ExpTr(p, f"DiscreteUniform.{kind}", kind, {"a": "Z", "b": "Z", "t": "Z"})
        out += (f"(* {os.path.relpath(p, repo)}:{fn.lineno}  DiscreteUniform.{kind}(t) = num / den; a = values[0], b = values[-1] *)\n"
                f"Definition discreteuniform_{kind}_num (R : cring) (e : Z -> R) (a b : Z) (t : Z) : R :=\n  {et.R(r.left)}.\n"
                f"Definition discreteuniform_{kind}_den (R : cring) (e : Z -> R) (a b : Z) (t : Z) : R :=\n  {et.R(r.right)}.\n")
    return out


HEADER = """(* GENERATED by harness/translate_func.py on every run of ./check C13 -- do not edit.
   Source tree: %s *)
From Coq Require Import List ZArith Lia Arith Bool String.
From Polar Require Import CRing Stats Func.
Import ListNotations.
Local Open Scope string_scope.

"""


def generate(repo=None):
    repo = repo or lib.REPO
    path = os.path.join(repo, "program", "assignment", "functional_assignment.py")
    with open(path) as f:
        tree = ast.parse(f.read(), path)
    cls = find_class(tree, "FunctionalAssignment", path)
    # names the translation interprets: where they come from
    genv = {}
    if not any(isinstance(n, ast.Import) and [a.name for a in n.names] == ["math"] and n.names[0].asname is None
               for n in tree.body):
        raise Abort(f"{path}: `import math` not found")
    for nm in ("I", "N", "re", "im", "Rational", "diff"):
        if alias_of(tree, "sympy", nm) != nm:
            raise Abort(f"{path}: {nm} is not imported from sympy under its own name")
        genv[nm] = "sympy." + nm
    genv["I"] = "R"
    genv["@I"] = "I"
    ss = alias_of(tree, "sympy", "Symbol")
    if ss is None:
        raise Abort(f"{path}: sympy.Symbol is not imported")
    genv[ss] = "sympy.Symbol"
    if imported_from(tree, ["program.distribution"], "TruncNormal"):
        genv["TruncNormal"] = "class:TruncNormal"
    sy = alias_of(tree, "sympy", "sympify")
    if sy is not None:
        genv[sy] = "sympy.sympify"
    for nm in ("sin", "cos", "exp"):
        if not imported_from(tree, ["symengine_wrapper", "symengine"], nm):
            raise Abort(f"{path}: {nm} is not imported from symengine")
        genv[nm] = "symengine." + nm
    check_no_rebinding(tree, path, {"I", "N", "re", "im", "Rational", "diff", ss, sy or ss, "sin", "cos", "exp", "math",
                                    "sympy2symengine", "TruncNormal", "isinstance", RAISE_EXC})
    out = HEADER % repo
    out += tr_get_func_moment(cls, path) + "\n"
    out += tr_get_trig_moment(cls, path, genv) + "\n"
    out += tr_get_exp_moment(cls, path, genv) + "\n"
    out += tr_convert(cls, path, genv) + "\n"
    out += tr_const(cls, path, genv) + "\n"
    out += tr_dist_transforms(repo)
    return out


def main():
    text = generate()
    path = os.path.join(lib.COQ, "gen", "FuncGen.v")
    changed = lib.write_if_changed(path, text)
    return path, changed


if __name__ == "__main__":
    try:
        p, ch = main()
        print(p, "changed" if ch else "unchanged")
    except Abort as e:
        print("ABORT:", e)
        sys.exit(2)
