def fill(check, NA):
    check("C04",
          "Machine-checked theorem (Coq): a verified validator check_solution over any commutative ring; acceptance implies the closed form with its special cases equals A^n v at EVERY n. Every closed form both Polar solvers return on generated systems (all Jordan shapes, rational / quadratic-irrational / complex roots, parameters at rational points) is decided by the kernel through that validator; rejected or undecomposable ones go to an exact-iteration search.",
          "Trusted: Coq kernel + vm_compute; harness decomposition of sympy output (re-evaluated by the validator, so it cannot cause a wrong acceptance of a different object than decomposed; identification with the printed formula is cross-checked on n<12); systems are sampled (theorem is per instance, for all n); parameters instantiated at rational points; rounded-result tolerance only compared numerically. No axioms.",
          "Coq proof: verified validator (translation validation of CAS output) + kernel-evaluated instances",
          "5/C04")
    check("C05",
          "Machine-checked theorem (Coq): check_types_sound / _pointwise — if the executable validator accepts (flat program, types) then every state reachable in ANY iteration and at every program point is typed (guard-false iterations included). Polar's own flat program and typedefs, for several fixed-point budgets, are decided by the kernel through the validator; rejections go to an exact reachable-state search under the flat semantics.",
          "Trusted: Coq kernel + vm_compute; structural dump of Polar's objects (tasks_core.py); programs sampled by the generator; the validator is flow-insensitive (cartesian, default always included) so sound types it cannot confirm are counted as unvalidated, never as violations unless a reachable witness exists. Known finding: defaults dropped under a loop guard (see known_findings.json). No axioms.",
          "Coq proof: verified validator for types + kernel-evaluated instances + exact reachable-state search",
          "5/C05")
    check("C01",
          "Machine-checked composition theorem (Coq): validated types (C05) + exact one-step system (C03) + validated closed form (C04) imply closed form = exact moments at EVERY n. Per generated program: all closed forms of all system monomials are kernel-validated against Polar's matrix; end to end, Polar's printed closed forms are compared with the exact moments of the SOURCE program under the Coq reference semantics (independent oracle) for n <= N.",
          "Trusted: Coq kernel + vm_compute; printers of the shared program AST; oracle compaction step (cross-checked against the plain semantics for n<=2 on every case); programs sampled; the end-to-end comparison is bounded in n (the unbounded statement is carried by the validators' theorems on Polar's own intermediate objects). Finite discrete programs only in the oracle. No axioms.",
          "Coq proof: composition theorem + verified validators on Polar's intermediate objects + reference-semantics oracle (differential)",
          "5/C01")
