def fill(check, NA):
    check("C04",
          "Machine-checked theorem (Coq): a verified validator check_solution over any commutative ring; acceptance implies the closed form with its special cases equals A^n v at EVERY n. Every closed form both Polar solvers return on generated systems (all Jordan shapes, rational / quadratic-irrational / complex roots, parameters at rational points) is decided by the kernel through that validator; rejected or undecomposable ones go to an exact-iteration search.",
          "Trusted: Coq kernel + vm_compute; harness decomposition of sympy output (re-evaluated by the validator, so it cannot cause a wrong acceptance of a different object than decomposed; identification with the printed formula is cross-checked on n<12); systems are sampled (theorem is per instance, for all n); parameters instantiated at rational points; rounded-result tolerance only compared numerically. No axioms.",
          "Coq proof: verified validator (translation validation of CAS output) + kernel-evaluated instances",
          "5/C04")
