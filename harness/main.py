import argparse
import importlib
import os
import sys
import traceback

sys.path.insert(0, os.path.dirname(os.path.abspath(__file__)))
import lib  # noqa: E402

sys.setrecursionlimit(20000)  # printers recurse over expression trees (long sums from arithmetised conditions)


def main():
    ap = argparse.ArgumentParser()
    ap.add_argument("prop")
    ap.add_argument("--tier", default=os.environ.get("VERIF_TIER", "quick"), choices=["quick", "thorough"])
    ap.add_argument("--replay", default=None)
    a = ap.parse_args()
    seed = int(os.environ.get("VERIF_SEED", "0") or 0)
    ctx = lib.Ctx(a.prop, a.tier, seed, a.replay)
    try:
        mod = importlib.import_module("checks." + a.prop.lower())
        mod.run(ctx)
    except Exception:
        tb = traceback.format_exc()
        print(tb, file=sys.stderr)
        ctx.violation("harness-crash", {"traceback": tb}, "the check itself crashed; property no longer shown to hold", no_input=True)
    rc = ctx.finish()
    print(f"[{a.prop}] tier={a.tier} seed={seed} evaluations={ctx.coverage['evaluations']} "
          f"obligations={ctx.coverage['obligations']} discharged={ctx.coverage['discharged']} "
          f"violations={len(ctx.violations)} known={len(ctx.known_hits)} wall={ctx.elapsed():.1f}s")
    sys.exit(rc)


main()
