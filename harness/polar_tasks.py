"""Task functions executed inside the Polar worker process (real code from /repo)."""
import json
import sys
from fractions import Fraction

import sympy as sp

import exppoly
from exppoly import Unsupported


def _settings_reset():
    import settings
    settings.numeric_roots = False
    settings.numeric_croots = False
    settings.numeric_eps = 1e-10
    return settings


def frac_str(x):
    return f"{x.numerator}/{x.denominator}"


def closed_form_data(sols, n, subs, nvals):
    """sols: list of sympy closed forms (one per component, possibly Piecewise).
    Returns dict with k (number of special cases), specials (k rows of constants), general
    (list of decomposed exp-polys), gens, values (exact values for n < nvals as strings)."""
    ks, gens_ = [], []
    for s in sols:
        k, g = exppoly.split_piecewise(s, n)
        ks.append(k)
        gens_.append(g.subs(subs) if subs else g)
    k = max(ks) if ks else 0
    specials = []
    for i in range(k):
        specials.append([exppoly.exact(s.subs(subs).subs(n, i) if subs else s.subs(n, i)) for s in sols])
    dec = [exppoly.decompose(g, n) for g in gens_]
    consts = [c for row in specials for c in row]
    for d in dec:
        for b, cs in d:
            consts.append(b)
            consts.extend(cs)
    gens = exppoly.field_of(consts)
    out = {
        "k": k,
        "gens": gens,
        "specials": [[exppoly.to_field(c, gens) for c in row] for row in specials],
        "general": [[(exppoly.to_field(b, gens), [exppoly.to_field(c, gens) for c in cs]) for b, cs in d] for d in dec],
    }
    return out


def numeric_values(sols, n, subs, nvals):
    vals = []
    for i in range(nvals):
        row = []
        for s in sols:
            v = s.subs(subs).subs(n, i) if subs else s.subs(n, i)
            v = exppoly.exact(v)
            if v.is_Rational:
                row.append(f"{v.p}/{v.q}")
            else:
                row.append("~" + str(sp.N(v, 30)))
        vals.append(row)
    return vals


def enc(x):
    """field element (nested tuples of Fractions) -> JSON"""
    if isinstance(x, tuple):
        return [enc(x[0]), enc(x[1])]
    return f"{x.numerator}/{x.denominator}"


def enc_cf(d):
    return {"k": d["k"], "gens": d["gens"], "specials": [[enc(c) for c in r] for r in d["specials"]],
            "general": [[[enc(b), [enc(c) for c in cs]] for b, cs in f] for f in d["general"]]}


def build_recurrences(task):
    """task: mons (names), A (rows of strings, len = len(mons) [+1 if inhom const column]),
    v (strings), params (names)"""
    from recurrences import Recurrences
    mons = [sp.Symbol(m) for m in task["mons"]]
    params = [sp.Symbol(p) for p in task.get("params", [])]
    rec = {}
    init = {}
    for i, m in enumerate(mons):
        row = task["A"][i]
        e = sp.Integer(0)
        for j, mj in enumerate(mons):
            e += sp.sympify(row[j]) * mj
        if len(row) > len(mons):
            e += sp.sympify(row[len(mons)])
        rec[m] = e
        init[m] = sp.sympify(task["v"][i])
    return Recurrences(rec, init, None, const_symbols=params), mons


def task_solve(task):
    """Solve a linear system with one of Polar's solvers and describe all closed forms."""
    settings = _settings_reset()
    from recurrences.solver import RecurrenceSolver
    recs, mons = build_recurrences(task)
    opts = task.get("opts", {})
    solver = RecurrenceSolver(recs, numeric_roots=opts.get("numeric_roots"), numeric_croots=opts.get("numeric_croots"),
                              numeric_eps=opts.get("numeric_eps"), force_cyclic_solver=task.get("force_cyclic", False))
    n = sp.Symbol("n", integer=True)
    sols = [solver.get(m) for m in recs.monomials]
    res = {
        "solver": type(solver.solver).__name__,
        "is_exact": bool(solver.is_exact),
        "is_acyclic": bool(recs.is_acyclic),
        "monomials": [str(m) for m in recs.monomials],
        "matrix": [[str(recs.recurrence_matrix[i, j]) for j in range(recs.recurrence_matrix.shape[1])]
                   for i in range(recs.recurrence_matrix.shape[0])],
        "vector": [str(x) for x in recs.init_values_vector],
        "sols": [str(s) for s in sols],
    }
    # components of the closed form vector: monomials [+ constant 1 if inhomogeneous]
    comp = list(sols)
    if recs.is_inhomogeneous:
        comp.append(sp.Integer(1))
    points = task.get("points", [{}])
    res["instances"] = []
    for pt in points:
        subs = {sp.Symbol(k): sp.Rational(v) for k, v in pt.items()}
        inst = {"point": pt}
        try:
            inst["cf"] = enc_cf(closed_form_data(comp, n, subs, 0))
        except Unsupported as e:
            inst["unsupported"] = str(e)
        try:
            inst["values"] = numeric_values(comp, n, subs, task.get("nvals", 12))
        except Exception as e:  # noqa
            inst["values_error"] = str(e)
        inst["A"] = [[str(exppoly.exact(sp.sympify(x).subs(subs))) for x in row] for row in res["matrix"]]
        inst["v"] = [str(exppoly.exact(sp.sympify(x).subs(subs))) for x in res["vector"]]
        res["instances"].append(inst)
    return res


# every harness/tasks_*.py module is picked up automatically (its task_* functions)
import glob as _glob
import importlib as _importlib
import os as _os

IMPORT_ERRORS = {}
for _f in sorted(_glob.glob(_os.path.join(_os.path.dirname(_os.path.abspath(__file__)), "tasks_*.py"))):
    _m = _os.path.basename(_f)[:-3]
    try:
        _mod = _importlib.import_module(_m)
        globals().update({k: v for k, v in vars(_mod).items() if k.startswith("task_")})
    except BaseException as _e:  # noqa
        IMPORT_ERRORS[_m] = repr(_e)


def task_import_errors(task):
    return IMPORT_ERRORS
from tasks_synth import *  # noqa
