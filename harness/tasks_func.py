"""C13 worker tasks: run the REAL FunctionalAssignment.get_func_moment / get_const_moment and the
REAL analysis of programs with Sin/Cos/Exp assignments (Polar worker process, code from the
working tree named by POLAR_REPO).  Values are returned as decimal strings (45 significant
digits, evaluated by sympy from the exact expression Polar returned) or as exact rationals."""
import sympy as sp

DIGITS = 45


def _make(family, params):
    from program.distribution import distribution_factory
    from symengine import sympify as S
    return distribution_factory(family, [S(p) for p in params])


def _num(e):
    """-> dict describing the exact value Polar returned: rational p/q, or a decimal expansion"""
    e = sp.sympify(e)
    if e.free_symbols:
        return {"symbolic": str(e)[:400]}
    if e.is_Rational:
        return {"rat": f"{e.p}/{e.q}"}
    v = sp.N(e, DIGITS)
    if v.is_real is False or (hasattr(v, "as_real_imag") and v.as_real_imag()[1] != 0):
        r, i = v.as_real_imag()
        return {"dec": str(r), "im": str(i)}
    if not v.is_Float and not v.is_Rational:
        return {"unevaluated": str(e)[:400]}
    return {"dec": str(v)}


def _set_exact(flag):
    import settings
    from program.assignment import FunctionalAssignment
    settings.exact_func_moments = bool(flag)
    FunctionalAssignment.exact_func_moments = bool(flag)
    return FunctionalAssignment


def _timed(fn):
    import time

    def w(task):
        t0 = time.time()
        r = fn(task)
        if isinstance(r, dict):
            r["secs"] = time.time() - t0
        return r
    w.__name__ = fn.__name__
    return w


@_timed
def task_func_moment(task):
    """get_func_moment(dist, powers) on a fresh distribution object"""
    FA = _set_exact(task.get("exact", True))
    from program.assignment.exceptions import FunctionalAssignmentException
    d = _make(task["family"], task["params"])
    powers = {k: int(v) for k, v in task["powers"].items()}
    try:
        m = FA.get_func_moment(d, powers)
    except FunctionalAssignmentException as e:
        return {"raised": "FunctionalAssignmentException", "msg": str(e)[:300]}
    except NotImplementedError as e:
        return {"raised": "NotImplementedError", "msg": str(e)[:300]}
    except AssertionError as e:
        return {"raised": "AssertionError", "msg": str(e)[:300]}
    res = _num(m)
    res["expr"] = str(m)[:300]
    return res


def task_func_const(task):
    """FunctionalAssignment(var, func, c).get_const_moment(k)"""
    FA = _set_exact(task.get("exact", True))
    fa = FA("y", task["func"], task["arg"])
    m = fa.get_const_moment(int(task["k"]))
    res = _num(m)
    res["expr"] = str(m)[:300]
    return res


@_timed
def task_func_program(task):
    """closed forms of the goals of a program text, evaluated at n = 0..nmax"""
    _set_exact(task.get("exact", True))
    import symengine
    from inputparser import Parser
    from program import normalize_program
    from recurrences import RecBuilder
    from recurrences.solver import RecurrenceSolver
    import settings
    settings.numeric_roots = False
    settings.numeric_croots = False
    program = Parser().parse_string(task["text"])
    program = normalize_program(program)
    # normalize_program copies the setting into the class attribute; make sure of it
    _set_exact(task.get("exact", True))
    n = sp.Symbol("n", integer=True)
    out = {"goals": {}}
    for g in task["goals"]:
        try:
            m = symengine.sympify(g)            # goals are monomials
            rb = RecBuilder(program)
            recs = rb.get_recurrences(m)
            sol = sp.sympify(RecurrenceSolver(recs).get(m))
            vals = []
            for i in range(int(task.get("nmax", 4)) + 1):
                vals.append(_num(sol.subs(n, i)))
            out["goals"][g] = {"closed_form": str(sol)[:600], "values": vals}
        except Exception as e:  # noqa
            out["goals"][g] = {"raised": type(e).__name__, "msg": str(e)[:300]}
    return out


def task_func_dispatch(task):
    """which branch of the REAL get_func_moment answers each request (the two branch methods are
    replaced by probes in a subclass; get_func_moment itself is the inherited, real one)"""
    from program.assignment import FunctionalAssignment
    from program.assignment.exceptions import FunctionalAssignmentException

    class Probe(FunctionalAssignment):
        @classmethod
        def get_trig_moment(cls, dist, func_powers):
            return "TRIG"

        @classmethod
        def get_exp_moment(cls, dist, func_powers):
            return "EXP"
    out = []
    for r in task["requests"]:
        fp = {k: int(v) for k, v in r}
        try:
            o = Probe.get_func_moment(None, fp)
            out.append(o if o in ("TRIG", "EXP") else "OTHER:" + repr(o)[:100])
        except FunctionalAssignmentException as e:
            out.append("RAISE:" + str(e))
        except Exception as e:  # noqa
            out.append("EXC:" + type(e).__name__ + ":" + str(e)[:100])
    return {"outcomes": out}


def task_func_trig_model(task):
    """the REAL get_trig_moment on laws with atoms at integer multiples of pi/2 (duck-typed distribution whose cf is
    the exponential sum of the law): the result is (pi/2)^a times a rational number, returned exactly"""
    FA = _set_exact(True)
    half_pi = sp.pi / 2

    class AngleLaw:
        def __init__(self, law):
            self.law = [(sp.Rational(p), int(v)) for p, v in law]

        def cf(self, t):
            t = sp.sympify(t)
            return sum(p * sp.exp(sp.I * half_pi * v * t) for p, v in self.law)

        def get_moment(self, k):
            return sum(p * (half_pi * v) ** int(k) for p, v in self.law)

        def __str__(self):
            return f"AngleLaw({self.law})"
    out = []
    for law, powers in task["requests"]:
        pw = {k: int(v) for k, v in powers}
        try:
            r = FA.get_trig_moment(AngleLaw(law), pw)
            q = sp.simplify(sp.expand(sp.sympify(r) / half_pi ** pw.get("Id", 0)))
            out.append(f"{q.p}/{q.q}" if q.is_Rational else {"error": "not rational", "value": str(q)[:200]})
        except AssertionError:
            out.append({"error": "AssertionError"})
        except Exception as e:  # noqa
            out.append({"error": type(e).__name__, "msg": str(e)[:200]})
    return {"values": out}
