"""C12 generator: finite discrete source programs (progast AST) for the simulator correspondence.

Every program initialises all its variables, uses integer / dyadic constants only (so that
float(result) in Assignment.evaluate is lossless), and draws only from finite laws:
probabilistic choice with 2-4 branches (implicit or explicit last probability), Bernoulli,
Categorical, DiscreteUniform — also inside simultaneous assignments and nested if/elif/else.
Guards range from `true` to conditions that fail quickly, so that the frozen suffix
(states copied once the guard is false) is exercised.  One variable `b` is only ever assigned
a Bernoulli draw so that state-dependent probabilities (1/4 + b/2) stay inside [0, 1]."""
from fractions import Fraction

from progast import const, var, det

DY = [Fraction(1, 2), Fraction(1, 4), Fraction(3, 4), Fraction(1, 8), Fraction(3, 8), Fraction(5, 8)]
COPS = ["==", "<=", ">=", "<", ">"]


def prob_vector(rng, k):
    """k dyadic probabilities summing to 1 (eighths); zeros allowed occasionally"""
    while True:
        cuts = sorted(rng.randint(0, 8) for _ in range(k - 1))
        parts = [b - a for a, b in zip([0] + cuts, cuts + [8])]
        if all(p > 0 for p in parts) or rng.random() < 0.1:
            if sum(1 for p in parts if p > 0) >= 1:
                return [Fraction(p, 8) for p in parts]


class Gen:
    def __init__(self, rng, size):
        self.rng = rng
        self.size = size
        self.vars = ["x", "y", "z", "c"][: rng.randint(2, 4)]
        self.use_b = rng.random() < 0.35
        self.random_stmts = 0
        self.max_random = rng.choice([2, 3, 3, 4]) if size > 0 else 2
        self.kinds = {}

    def note(self, k):
        self.kinds[k] = self.kinds.get(k, 0) + 1

    def small(self):
        r = self.rng
        if r.random() < 0.25:
            return Fraction(r.choice([1, 3, 5, -1, -3]), r.choice([2, 4]))
        return Fraction(r.randint(-2, 3))

    def expr(self, depth=0):
        r = self.rng
        vs = self.vars + (["b"] if self.use_b else [])
        t = r.random()
        if t < 0.25 or depth >= 2:
            return var(r.choice(vs)) if r.random() < 0.6 else const(self.small())
        if t < 0.55:
            return ("add", self.expr(depth + 1), self.expr(depth + 1))
        if t < 0.7:
            return ("sub", self.expr(depth + 1), self.expr(depth + 1))
        if t < 0.85:
            return ("mul", const(self.small()), self.expr(depth + 1))
        if t < 0.93:
            return ("mul", var(r.choice(vs)), var(r.choice(vs)))
        if t < 0.97:
            return ("pow", var(r.choice(vs)), 2)
        return ("mul", const(-1), self.expr(depth + 1))      # unary minus of a compound term is not in Polar's grammar

    def atom(self):
        r = self.rng
        vs = self.vars + (["b"] if self.use_b else [])
        t = r.random()
        if t < 0.6:
            return ("atom", var(r.choice(vs)), r.choice(COPS), const(r.randint(-1, 3)))
        if t < 0.85:
            return ("atom", var(r.choice(vs)), r.choice(COPS), var(r.choice(vs)))
        return ("atom", ("add", var(r.choice(vs)), var(r.choice(vs))), r.choice(COPS), const(self.small()))

    def cond(self, depth=0):
        r = self.rng
        t = r.random()
        if t < 0.6 or depth >= 2:
            return self.atom()
        if t < 0.7:
            return ("not", self.cond(depth + 1))
        if t < 0.85:
            return ("and", self.cond(depth + 1), self.cond(depth + 1))
        if t < 0.97:
            return ("or", self.cond(depth + 1), self.cond(depth + 1))
        return ("true",) if r.random() < 0.5 else ("false",)

    def random_rhs(self):
        r = self.rng
        self.random_stmts += 1
        t = r.random()
        if t < 0.45:
            k = r.choice([2, 2, 3, 4])
            ps = prob_vector(r, k)
            if self.use_b and k == 2 and r.random() < 0.3:
                # state-dependent probability 1/4 + b/2 in {1/4, 3/4}
                p = ("add", const(Fraction(1, 4)), ("mul", const(Fraction(1, 2)), var("b")))
                alts = [(p, self.expr(1)), (("sub", const(1), p), self.expr(1))]
                self.note("choice-state-dependent")
                return ("choice", alts)
            self.note(f"choice{k}")
            return ("choice", [(const(p), self.expr(1)) for p in ps])
        if t < 0.65:
            self.note("bernoulli")
            return ("draw", ("bern", const(r.choice(DY + [Fraction(0), Fraction(1)]) if r.random() < 0.9 else Fraction(1, 2))))
        if t < 0.85:
            k = r.choice([2, 3, 3, 4])
            self.note(f"categorical{k}")
            return ("draw", ("cat", [const(p) for p in prob_vector(r, k)]))
        a = r.randint(-1, 2)
        self.note("discreteuniform")
        return ("draw", ("unif", a, a + r.randint(0, 2)))

    def rhs(self):
        if self.random_stmts < self.max_random and self.rng.random() < 0.5:
            return self.random_rhs()
        self.note("det")
        return det(self.expr())

    def stmt(self, depth):
        r = self.rng
        t = r.random()
        if t < 0.5 or (depth >= 2 and t < 0.8):
            return ("assign", r.choice(self.vars), self.rhs())
        if t < 0.68 or depth >= 2:
            k = r.choice([2, 2, 3]) if len(self.vars) >= 3 else 2
            xs = r.sample(self.vars, k)
            self.note(f"simult{k}")
            return ("simult", [(x, self.rhs()) for x in xs])
        nb = r.choice([1, 1, 2, 2, 3])
        brs = [(self.cond(), self.block(depth + 1, r.randint(1, 2))) for _ in range(nb)]
        els = self.block(depth + 1, r.randint(1, 2)) if r.random() < 0.6 else None
        self.note("if" + ("-elif" * (nb - 1)) + ("-else" if els is not None else ""))
        return ("if", brs, els)

    def block(self, depth, n):
        return [self.stmt(depth) for _ in range(n)]

    def guard(self):
        r = self.rng
        t = r.random()
        if t < 0.2:
            return ("true",)
        if t < 0.75:
            # fails after a few iterations with positive probability
            return self.atom()
        return self.cond(1)

    def program(self):
        r = self.rng
        init = []
        all_vars, use_b = self.vars, self.use_b
        self.use_b = False
        if use_b:
            init.append(("assign", "b", ("draw", ("bern", const(r.choice(DY))))))
            self.random_stmts += 1
        for i, v in enumerate(all_vars):
            self.vars = all_vars[:i]         # initial assignments read only what is already set
            if i > 0 and self.random_stmts < 2 and r.random() < 0.25:
                init.append(("assign", v, self.random_rhs()))
            elif i > 0 and r.random() < 0.2:
                init.append(("assign", v, det(self.expr(1))))
            else:
                init.append(("assign", v, det(const(self.small()))))
        self.vars, self.use_b = all_vars, use_b
        if len(self.vars) >= 2 and r.random() < 0.2:
            xs = r.sample(self.vars, 2)
            init.append(("simult", [(xs[0], det(var(xs[1]))), (xs[1], det(var(xs[0])))]))
        self.random_stmts = 0
        body = self.block(0, r.randint(1, 3 + self.size))
        if self.random_stmts == 0 and r.random() < 0.85:
            # keep purely deterministic programs rare: one draw at a random top-level position
            body.insert(r.randint(0, len(body)), ("assign", r.choice(self.vars), self.random_rhs()))
        if self.use_b and r.random() < 0.7:
            body.insert(r.randint(0, len(body)), ("assign", "b", ("draw", ("bern", const(r.choice(DY))))))
        g = self.guard()
        return {"types": [], "init": init, "guard": g, "body": body}


def close_value_programs():
    """comparisons whose two sides take DISTINCT values closer than 1e-9 (dyadic, so floats are exact): ==, <=, >= must be
    decided exactly (x = 1024**-k; 1 + 2**-30 vs 1)"""
    F = Fraction
    half = lambda e: ("choice", [(const(F(1, 2)), e), (const(F(1, 2)), var("x"))])
    out = []
    for cop, rhs in [("==", const(0)), ("<=", const(0)), (">=", const(F(1, 1024)))]:
        out.append({"types": [], "init": [("assign", "x", det(const(1))), ("assign", "c", det(const(0)))], "guard": ("true",),
                    "body": [("assign", "x", half(("mul", const(F(1, 1024)), var("x")))),
                             ("if", [(("atom", var("x"), cop, rhs), [("assign", "c", det(("add", var("c"), const(1))))])], None)]})
    out.append({"types": [], "init": [("assign", "x", det(const(1))), ("assign", "y", det(const(0))), ("assign", "c", det(const(0)))],
                "guard": ("atom", var("c"), "<", const(2)),
                "body": [("assign", "x", half(("mul", const(F(1, 32768)), var("x")))), ("assign", "y", det(("add", const(1), var("x")))),
                         ("if", [(("atom", var("y"), "==", const(1)), [("assign", "c", det(("add", var("c"), const(1))))]),
                                 (("atom", ("sub", const(1), var("x")), ">=", const(1)), [("assign", "c", det(("add", var("c"), const(2))))])], None)]})
    # (the last program adds 1: two divisions by 2**15 at most, 1 + 2**-30 is a double; 1 + 2**-60 would not be)
    return [{"prog": p, "kinds": {"close-values": 1}, "explicit_last": True, "N": 4 if i < 3 else 2} for i, p in enumerate(out)]


def generate(rng, n, size=1):
    out = close_value_programs()
    for _ in range(n - len(out)):
        g = Gen(rng, size)
        p = g.program()
        out.append({"prog": p, "kinds": g.kinds, "explicit_last": rng.random() < 0.3})
    return out


def analysable(rng, n):
    """programs inside Polar's documented class with shapes the analysis handles: guard true,
    every variable assigned at top level in every iteration, finite-valued branch variables"""
    out = []
    for _ in range(n):
        r = rng
        k = r.randint(1, 3)
        p1, p2 = r.choice(DY), r.choice(DY)
        init = [("assign", "x", det(const(r.randint(0, 2)))), ("assign", "y", det(const(r.randint(-1, 1)))),
                ("assign", "c", det(const(0)))]
        body = []
        shape = r.randint(0, 4)
        if shape == 0:
            body = [("assign", "c", ("draw", ("bern", const(p1)))),
                    ("assign", "x", ("choice", [(const(p2), ("add", var("x"), const(k))), (const(1 - p2), ("sub", var("x"), var("c")))])),
                    ("assign", "y", det(("add", var("y"), var("x"))))]
        elif shape == 1:
            body = [("assign", "c", ("draw", ("cat", [const(q) for q in prob_vector(r, 3)]))),
                    ("if", [(("atom", var("c"), "==", const(0)), [("assign", "x", det(("add", var("x"), const(k))))]),
                            (("atom", var("c"), "==", const(1)), [("assign", "x", det(("mul", const(Fraction(1, 2)), var("x"))))])],
                     [("assign", "y", det(("add", var("y"), const(1))))])]
        elif shape == 2:
            body = [("assign", "c", ("draw", ("unif", 0, r.randint(1, 2)))),
                    ("simult", [("x", det(("add", var("y"), var("c")))), ("y", det(var("x")))])]
        elif shape == 3:
            body = [("assign", "c", ("draw", ("bern", const(p1)))),
                    ("if", [(("atom", var("c"), "==", const(1)), [("assign", "x", ("choice", [(const(p2), ("add", var("x"), const(1))), (const(1 - p2), var("x"))]))])],
                     [("assign", "x", det(("sub", var("x"), const(k))))]),
                    ("assign", "y", det(("add", var("y"), ("mul", var("c"), var("x")))))]
        else:
            body = [("simult", [("x", ("choice", [(const(p1), var("y")), (const(1 - p1), ("add", var("x"), const(1)))])),
                                ("y", ("draw", ("bern", const(p2))))]),
                    ("assign", "c", det(("mul", var("y"), var("y"))))]
        out.append({"prog": {"types": [], "init": init, "guard": ("true",), "body": body},
                    "monomials": ["x", "y", "x**2", "x*y", "c"], "shape": shape})
    return out


def guarded(rng, n):
    """programs in the PARSED form: every assignment carries a condition and a default variable
    (("gassign", x, cond, default, rhs)); what Assignment.evaluate implements and the parser never
    produces.  Same finite fragment as above."""
    out = []
    for _ in range(n):
        g = Gen(rng, 1)
        g.use_b = False
        init = [("gassign", v, ("true",), v, det(const(g.small()))) for v in g.vars]
        g.max_random = rng.choice([2, 3, 4])

        def gas():
            x = rng.choice(g.vars)
            c = g.cond() if rng.random() < 0.8 else ("true",)
            d = rng.choice(g.vars) if rng.random() < 0.7 else x
            return ("gassign", x, c, d, g.rhs())

        def blk(depth, k):
            b = []
            for _ in range(k):
                if depth < 1 and rng.random() < 0.25:
                    nb = rng.choice([1, 2])
                    b.append(("if", [(g.cond(), blk(depth + 1, rng.randint(1, 2))) for _ in range(nb)],
                              blk(depth + 1, 1) if rng.random() < 0.5 else None))
                else:
                    b.append(gas())
            return b
        body = blk(0, rng.randint(2, 4))
        out.append({"prog": {"init": init, "guard": g.guard(), "body": body}, "vars": list(g.vars)})
    return out
