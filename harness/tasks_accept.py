"""Worker tasks for C18 (acceptance of the documented class, refusals are errors).

task_accept : parse + normalize_program + for every requested monomial: Polar's own is_solvable,
              RecBuilder.get_recurrences, RecurrenceSolver.get, exact values for small n.  Every
              exception is classified by type and raising function (tasks_core.classify_exception);
              the recurrence dictionary is dumped structurally so that the harness can check that
              the system is closed without trusting Polar.
task_graph  : the real utils.graph.Graph on a given labelled adjacency matrix."""
import time

import sympy as sp

import tasks_core
from exppoly import Unsupported


def task_accept(task):
    opts = task.get("opts", {})
    tasks_core.reset_settings(opts)
    from inputparser import Parser
    from recurrences import RecBuilder
    from recurrences.solver import RecurrenceSolver
    from utils import is_solvable
    import symengine
    res = {}
    t0 = time.time()
    try:
        program = Parser().parse_string(task["text"])
    except BaseException as e:  # noqa
        res["stage"] = "parse"
        res["exception"] = tasks_core.classify_exception(e)
        return res
    try:
        from program import normalize_program
        program = normalize_program(program)
    except BaseException as e:  # noqa
        res["stage"] = "normalize"
        res["exception"] = tasks_core.classify_exception(e)
        return res
    res["t_normalize"] = round(time.time() - t0, 3)
    try:
        res["flat"] = tasks_core.dump_program(program)
    except Unsupported as u:
        res["flat"] = {"unsupported": str(u)}
    except BaseException as e:  # noqa
        res["flat"] = {"unsupported": f"{type(e).__name__}: {e}"}
    res["flat_text"] = str(program)
    res["effective"] = sorted(str(v) for v in program.effective_variables)
    res["defective"] = sorted(str(v) for v in program.defective_variables)
    res["variables"] = sorted(str(v) for v in program.variables)
    res["symbols"] = sorted(str(v) for v in program.symbols)
    res["finite_variables"] = sorted(str(v) for v in program.finite_variables)
    res["abstracted"] = {str(k): str(v) for k, v in program.abstracted_const_store.items()}
    try:
        res["original_loop_guard"] = (tasks_core.dump_cond(program.original_loop_guard)
                                      if program.original_loop_guard is not None else None)
    except BaseException:  # noqa
        res["original_loop_guard"] = None
    n = sp.Symbol("n", integer=True)
    rb = RecBuilder(program)
    res["goals"] = []
    nvals = task.get("nvals", 6)
    for g in task.get("goals", []):
        gr = {"goal": g}
        res["goals"].append(gr)
        t1 = time.time()
        try:
            m = symengine.sympify(g)
            if not is_solvable(m, program):
                # what cli.common.get_moment raises under --solvability_check
                gr["refused"] = "not-effective"
                continue
        except BaseException as e:  # noqa
            gr["stage"] = "solvability"
            gr["exception"] = tasks_core.classify_exception(e)
            continue
        try:
            recs = rb.get_recurrences(m)
            gr["n_monomials"] = len(recs.monomials)
            gr["monomials"] = [str(x) for x in recs.monomials]
            try:
                gr["rec_dict"] = [[tasks_core.dump_expr(k), tasks_core.dump_expr(v)] for k, v in recs.recurrence_dict.items()]
            except Unsupported as u:
                gr["rec_dict_unsupported"] = str(u)
        except BaseException as e:  # noqa
            gr["stage"] = "recurrences"
            gr["exception"] = tasks_core.classify_exception(e)
            continue
        try:
            solver = RecurrenceSolver(recs)
            sol = solver.get(sp.sympify(g))
            gr["solver"] = type(solver.solver).__name__
            gr["is_exact"] = bool(solver.is_exact)
            gr["sol"] = str(sol)
        except BaseException as e:  # noqa
            gr["stage"] = "solve"
            gr["exception"] = tasks_core.classify_exception(e)
            continue
        try:
            from polar_tasks import numeric_values
            free = set(sol.free_symbols)
            free.discard(n)
            if free:
                gr["symbolic"] = sorted(str(x) for x in free)
                if all(str(x) in res["abstracted"] for x in free):
                    # symbolic only in the probabilities of abstracted conditions: values as expressions in them
                    gr["values_sym"] = [str(sp.sympify(sol).subs(n, i)) for i in range(nvals)]
            else:
                gr["values"] = [row[0] for row in numeric_values([sol], n, {}, nvals)]
        except BaseException as e:  # noqa
            gr["values_error"] = f"{type(e).__name__}: {str(e)[:200]}"
        gr["time"] = round(time.time() - t1, 3)
    res["time"] = round(time.time() - t0, 3)
    return res


def task_graph(task):
    """adj[a][b] = label (0/1/2) of the edge a -> b in the sense of Graph._dfs; built through the
    public API (add_node / add_edge, which stores add_edge(v, u, e) at adj[u][v])."""
    from utils.graph import Graph
    from symengine.lib.symengine_wrapper import Symbol
    adj = task["adj"]
    V = len(adj)
    g = Graph(V)
    names = [Symbol(f"v{i}") for i in range(V)]
    for s in names:
        g.add_node(s)
    for a in range(V):
        for b in range(V):
            if adj[a][b] > 0:
                g.add_edge(names[b], names[a], adj[a][b])
                if adj[a][b] == 2 and task.get("weak_after"):
                    # a second, linear occurrence of the same dependency must not weaken the label
                    g.add_edge(names[b], names[a], 1)
    res = {"stored": [list(r) for r in g.adj]}
    try:
        d = g.get_defective_nodes()
        res["defective"] = sorted(int(str(s)[1:]) for s in d)
        res["in_nl_cycle"] = [bool(g.is_variable_in_nonlinear_cycle(s)) for s in names]
        res["reachable"] = [sorted(int(str(s)[1:]) for s in g.get_reachable_variables(x)) for x in names]
    except BaseException as e:  # noqa
        res["exception"] = tasks_core.classify_exception(e)
    return res
