"""C08 translator T: Python `ast` -> Gallina for /repo/program/distribution/*.py (and the
location/scale rewriting of program/transformer/dist_transformer.py).

Runs on every `./check C08`; reads the working tree under lib.REPO; writes
coq/gen/DistGen.v (logical path PolarGen.DistGen).  Fail-closed: every construct outside
the subset below raises Unsupported(file, line, reason); nothing is guessed.

Model conventions (part of the trusted base, listed in the evidence):
  * distribution parameters are numbers: Qc (Z for DiscreteUniform, a list of Qc for
    Categorical); Python ints and symengine/sympy rationals both become Qc, except orders
    and exponents (`k`, `k + 1`, `len(...)`, loop indices) which are nat;
  * sympify / ssympify / sympy2symengine / Rational(e) / int(e) / list(e) are identities;
  * on numbers `.is_Number`, `.is_Boolean` are True, `.is_Integer` is True for Z;
  * `x = <sympy.stats family>("x", a, b)` becomes a descriptor [SGamma a b] ... and
    `EV(x**k)` becomes [sympy_moment x k]  (hand-written closed formulas in
    theories/DistSympy.v, tied to the real sympy by the correspondence check);
  * `e ** (1/2)` inside a sympified string is the symbolic square root [Sqrt e];
  * `if c: raise ...` in set_parameters becomes a disjunct of `<family>_rejects`;
  * `@lru_cache()` is ignored here (its interaction with `subs` is checked by K).
"""
import ast
import os
import sys
from fractions import Fraction

sys.path.insert(0, os.path.dirname(os.path.abspath(__file__)))
import lib  # noqa: E402


class Unsupported(Exception):
    def __init__(self, file, node, why):
        self.file = file
        self.line = getattr(node, "lineno", 0) if node is not None else 0
        self.why = why
        super().__init__(f"{file}:{self.line}: {why}")


# family table: class, file, variants (prefix, parameter types | 'listQ')
FAMILIES = [
    ("Bernoulli", "bernoulli.py", [("bernoulli", ["Q"])]),
    ("Categorical", "categorical.py", [("categorical", "listQ")]),
    ("DiscreteUniform", "discrete_uniform.py", [("discreteuniform", ["Z", "Z"])]),
    ("Uniform", "uniform.py", [("uniform", ["Q", "Q"])]),
    ("Exponential", "exponential.py", [("exponential", ["Q"])]),
    ("Gamma", "gamma.py", [("gamma", ["Q", "Q"])]),
    ("Beta", "beta.py", [("beta2", ["Q", "Q"]), ("beta3", ["Q", "Q", "Q"])]),
    ("Normal", "normal.py", [("normal", ["Q", "Q"])]),
    ("Laplace", "laplace.py", [("laplace", ["Q", "Q"])]),
    ("TruncNormal", "truncated_normal.py", [("truncnormal", ["Q", "Q", "Q", "Q"])]),
]
FACTORY = {"Bernoulli": "Bernoulli", "Normal": "Normal", "Categorical": "Categorical", "Uniform": "Uniform",
           "DiscreteUniform": "DiscreteUniform", "Laplace": "Laplace", "DistExp": "Exponential",
           "TruncNormal": "TruncNormal", "Beta": "Beta", "Gamma": "Gamma"}
KNOWN_METHODS = {"set_parameters", "get_moment", "is_discrete", "subs", "sample", "cf", "mgf", "mgf_exists_at",
                 "get_free_symbols", "get_support", "__str__"}
TRANSLATED = ["get_moment", "is_discrete", "get_support", "mgf_exists_at"]
# not modelled (float erf; documented as inexact by Polar itself): validated numerically by K
UNMODELLED = {("TruncNormal", "get_moment"): "float erf/pdf recursion, result rounded through float()"}
ARG_TYPES = {"get_moment": ["nat"], "is_discrete": [], "get_support": [], "mgf_exists_at": ["Q"]}
RET_TYPES = {"get_moment": "Q", "is_discrete": "bool", "get_support": "supp", "mgf_exists_at": "bool"}
COQ_TY = {"Q": "Qc", "Z": "Z", "nat": "nat", "bool": "bool", "listQ": "list Qc", "listZ": "list Z",
          "listnat": "list nat", "supp": "list sitem", "sqv": "sqv", "srv": "srv", "ext": "ext"}
RESERVED = set("""z mklin lin fun let in match with end if then else forall exists fix cofix as return Type Prop Set
qpow qnat qz mkq qabs qfact rising qsum pmf enumerate zrange shift sumn qbinom binsum fold_left map seq length combine
sympy_moment SGamma SBeta SNormal SLaplace Rat Sqrt SPoint SIv Fin PosInf NegInf negb orb andb true false
Qc_eqb Qc_ltb Qc_leb nat Z Qc bool list""".split())


class V:
    """a translated value: Coq term + type, or a static Python value"""

    def __init__(self, term, ty, val=None):
        self.term = term
        self.ty = ty
        self.val = val

    @staticmethod
    def static(val):
        return V(None, "static", val)

    @property
    def is_static(self):
        return self.ty == "static"


class Module:
    """one Python source file: AST + import table"""

    def __init__(self, path):
        self.path = path
        self.rel = os.path.relpath(path, lib.REPO)
        with open(path) as f:
            self.src = f.read()
        self.tree = ast.parse(self.src, filename=path)
        self.imports = {}
        for node in self.tree.body:
            if isinstance(node, ast.ImportFrom):
                for a in node.names:
                    self.imports[a.asname or a.name] = ("." * node.level + (node.module or "")) + ":" + a.name
            elif isinstance(node, ast.Import):
                for a in node.names:
                    self.imports[a.asname or a.name] = a.name + ":"

    def resolve(self, name):
        return self.imports.get(name)

    def cls(self, name):
        for node in self.tree.body:
            if isinstance(node, ast.ClassDef) and node.name == name:
                return node
        raise Unsupported(self.rel, None, f"class {name} not found")


IDENTITY_FUNCS = {
    "sympy:sympify", "symengine.lib.symengine_wrapper:sympify", "symengine:sympify",
    "symengine.lib.symengine_wrapper:sympy2symengine", "builtin:int", "builtin:list", "builtin:bool",
}
SYMPY_STATS = {"sympy.stats:Gamma": ("SGamma", ["Q", "Q"]), "sympy.stats:Beta": ("SBeta", ["Q", "Q"]),
               "sympy.stats:Normal": ("SNormal", ["Q", "sqv"]), "sympy.stats:Laplace": ("SLaplace", ["Q", "Q"])}
ZERO_ONE = {"symengine.lib.symengine_wrapper:Zero": 0, "symengine.lib.symengine_wrapper:One": 1,
            "symengine.lib.symengine_wrapper:zero": 0, "symengine.lib.symengine_wrapper:one": 1}


class Tr:
    """translation of one method body in one environment"""

    def __init__(self, mod, attrs, arity, params_v):
        self.mod = mod
        self.attrs = attrs          # attribute name -> V
        self.arity = arity          # int, or None for the variadic family
        self.params_v = params_v    # list of V (fixed arity) or a V of type listQ

    def fail(self, node, why):
        raise Unsupported(self.mod.rel, node, why)

    # ---- coercions ------------------------------------------------------------------
    def coerce(self, v, ty, node):
        if v.ty == ty:
            return v.term
        if v.is_static:
            x = v.val
            if isinstance(x, bool):
                if ty == "bool":
                    return "true" if x else "false"
                self.fail(node, f"static bool used as {ty}")
            if isinstance(x, int):
                if ty == "nat" and x >= 0:
                    return f"{x}%nat"
                if ty == "Z":
                    return f"({x})%Z"
                if ty == "Q":
                    return "0" if x == 0 else "1" if x == 1 else f"(qz ({x}))"
                if ty == "ext":
                    return f"(Fin {self.coerce(v, 'Q', node)})"
                if ty == "sqv":
                    return f"(Rat {self.coerce(v, 'Q', node)})"
            if isinstance(x, Fraction):
                if ty == "Q":
                    return f"(mkq ({x.numerator}) {x.denominator})"
            self.fail(node, f"static value {x!r} used as {ty}")
        if v.ty == "nat" and ty == "Q":
            return f"(qnat {v.term})"
        if v.ty == "Z" and ty == "Q":
            return f"(qz {v.term})"
        if v.ty == "Q" and ty == "sqv":
            return f"(Rat {v.term})"
        if v.ty in ("Q", "nat", "Z") and ty == "ext":
            return f"(Fin {self.coerce(v, 'Q', node)})"
        self.fail(node, f"cannot use a value of type {v.ty} as {ty}")

    # ---- names ----------------------------------------------------------------------
    def func_name(self, f):
        """resolved name of a called function"""
        if isinstance(f, ast.Name):
            r = self.mod.resolve(f.id)
            if r:
                return r
            if f.id in ("int", "len", "list", "set", "range", "enumerate", "sum", "bool", "all", "str", "float"):
                return "builtin:" + f.id
            return "local:" + f.id
        return None

    # ---- expressions ----------------------------------------------------------------
    def expr(self, n, env):
        m = getattr(self, "e_" + type(n).__name__, None)
        if m is None:
            self.fail(n, f"expression {type(n).__name__} is outside the translated subset")
        return m(n, env)

    def e_Constant(self, n, env):
        if isinstance(n.value, (bool, int)):
            return V.static(n.value)
        self.fail(n, f"constant {n.value!r} not supported")

    def e_Name(self, n, env):
        if n.id in env:
            return env[n.id]
        r = self.mod.resolve(n.id)
        if r in ZERO_ONE:
            return V.static(ZERO_ONE[r])
        if r == "symengine.lib.symengine_wrapper:oo":
            return V("PosInf", "ext")
        self.fail(n, f"unknown name {n.id}")

    def e_Attribute(self, n, env):
        if isinstance(n.value, ast.Name) and n.value.id == "self":
            if n.attr in self.attrs:
                return self.attrs[n.attr]
            self.fail(n, f"attribute self.{n.attr} is not set by set_parameters")
        if n.attr in ("is_Number", "is_Boolean", "is_Integer"):
            v = self.expr(n.value, env)
            ok = {"is_Number": ("Q", "Z", "nat"), "is_Boolean": ("bool",), "is_Integer": ("Z", "nat")}[n.attr]
            if v.ty in ok or (v.is_static and n.attr != "is_Boolean" and isinstance(v.val, int)):
                return V.static(True)
            self.fail(n, f".{n.attr} of a value of type {v.ty} is not decided by the numeric model")
        self.fail(n, f"attribute .{n.attr} not supported")

    def e_Subscript(self, n, env):
        if isinstance(n.value, ast.Name) and n.value.id == "parameters" and "parameters" not in env:
            idx = self.expr(n.slice, env)
            if not (idx.is_static and isinstance(idx.val, int)) or self.arity is None:
                self.fail(n, "parameters[...] needs a fixed arity and a constant index")
            if not 0 <= idx.val < self.arity:
                self.fail(n, f"parameters[{idx.val}] out of range for arity {self.arity}")
            return self.params_v[idx.val]
        self.fail(n, "subscript not supported")

    def e_UnaryOp(self, n, env):
        v = self.expr(n.operand, env)
        if isinstance(n.op, ast.USub):
            if v.ty == "ext" and v.term == "PosInf":
                return V("NegInf", "ext")
            if v.is_static and isinstance(v.val, (int, Fraction)) and not isinstance(v.val, bool):
                return V.static(-v.val)
            if v.ty in ("Q", "Z"):
                return V(f"(- {v.term})" + ("%Z" if v.ty == "Z" else ""), v.ty)
            self.fail(n, f"unary minus on {v.ty}")
        if isinstance(n.op, ast.Not):
            if v.is_static:
                return V.static(not v.val)
            if v.ty == "bool":
                return V(f"(negb {v.term})", "bool")
            self.fail(n, f"`not` on a value of type {v.ty}")
        self.fail(n, "unary operator not supported")

    def e_BoolOp(self, n, env):
        is_or = isinstance(n.op, ast.Or)
        terms = []
        for x in n.values:
            v = self.expr(x, env)
            if v.is_static:
                if bool(v.val) == is_or:
                    # absorbing element: everything before it has no side effects in this subset
                    return V.static(is_or)
                continue
            if v.ty != "bool":
                self.fail(x, f"boolean operator on {v.ty}")
            terms.append(v.term)
        if not terms:
            return V.static(not is_or)
        t = terms[0]
        for u in terms[1:]:
            t = f"({'orb' if is_or else 'andb'} {t} {u})"
        return V(t, "bool")

    def e_Compare(self, n, env):
        if len(n.ops) != 1:
            self.fail(n, "chained comparison")
        a = self.expr(n.left, env)
        b = self.expr(n.comparators[0], env)
        op = n.ops[0]
        if a.is_static and b.is_static:
            fn = {ast.Eq: lambda x, y: x == y, ast.NotEq: lambda x, y: x != y, ast.Lt: lambda x, y: x < y,
                  ast.LtE: lambda x, y: x <= y, ast.Gt: lambda x, y: x > y, ast.GtE: lambda x, y: x >= y}.get(type(op))
            if fn is None:
                self.fail(n, "comparison operator")
            return V.static(fn(a.val, b.val))
        tys = {a.ty, b.ty} - {"static"}
        if tys <= {"nat"}:
            ta, tb = self.coerce(a, "nat", n), self.coerce(b, "nat", n)
            tab = {ast.Eq: f"(Nat.eqb {ta} {tb})", ast.NotEq: f"(negb (Nat.eqb {ta} {tb}))",
                   ast.Lt: f"(Nat.ltb {ta} {tb})", ast.LtE: f"(Nat.leb {ta} {tb})",
                   ast.Gt: f"(Nat.ltb {tb} {ta})", ast.GtE: f"(Nat.leb {tb} {ta})"}
        elif tys <= {"Q", "Z", "nat"}:
            ta, tb = self.coerce(a, "Q", n), self.coerce(b, "Q", n)
            tab = {ast.Eq: f"(Qc_eqb {ta} {tb})", ast.NotEq: f"(negb (Qc_eqb {ta} {tb}))",
                   ast.Lt: f"(Qc_ltb {ta} {tb})", ast.LtE: f"(Qc_leb {ta} {tb})",
                   ast.Gt: f"(Qc_ltb {tb} {ta})", ast.GtE: f"(Qc_leb {tb} {ta})"}
        else:
            self.fail(n, f"comparison of {a.ty} and {b.ty}")
        if type(op) not in tab:
            self.fail(n, "comparison operator")
        return V(tab[type(op)], "bool")

    def e_BinOp(self, n, env):
        op = n.op
        if isinstance(op, ast.Pow):
            return self.power(n, env)
        a = self.expr(n.left, env)
        b = self.expr(n.right, env)
        sym = {ast.Add: "+", ast.Sub: "-", ast.Mult: "*", ast.Div: "/"}.get(type(op))
        if sym is None:
            self.fail(n, f"operator {type(op).__name__}")
        if a.is_static and b.is_static:
            x, y = a.val, b.val
            if isinstance(x, bool) or isinstance(y, bool):
                self.fail(n, "arithmetic on booleans")
            if sym == "/":
                if y == 0:
                    self.fail(n, "static division by zero")
                return V.static(Fraction(x) / Fraction(y) if (Fraction(x) / Fraction(y)).denominator != 1
                                else int(Fraction(x) / Fraction(y)))
            return V.static({"+": x + y, "-": x - y, "*": x * y}[sym])
        tys = {a.ty, b.ty} - {"static"}
        for v in (a, b):
            if v.is_static and (isinstance(v.val, bool) or not isinstance(v.val, (int, Fraction))):
                self.fail(n, "arithmetic on a non-number")
        if tys <= {"nat"} and sym in "+*" and all((not v.is_static) or (isinstance(v.val, int) and v.val >= 0) for v in (a, b)):
            return V(f"({self.coerce(a, 'nat', n)} {sym} {self.coerce(b, 'nat', n)})%nat", "nat")
        if tys <= {"Z"} and sym in "+-*" and all((not v.is_static) or isinstance(v.val, int) for v in (a, b)):
            return V(f"({self.coerce(a, 'Z', n)} {sym} {self.coerce(b, 'Z', n)})%Z", "Z")
        if tys <= {"Q", "nat", "Z"}:
            return V(f"({self.coerce(a, 'Q', n)} {sym} {self.coerce(b, 'Q', n)})", "Q")
        self.fail(n, f"operator {sym} on {a.ty} and {b.ty}")

    def power(self, n, env):
        base = self.expr(n.left, env)
        ex = self.expr(n.right, env)
        if base.ty == "srv":
            self.fail(n, "power of a sympy random variable outside EV(...)")
        if ex.is_static and ex.val == Fraction(1, 2):
            return V(f"(Sqrt {self.coerce(base, 'Q', n)})", "sqv")
        if ex.is_static and isinstance(ex.val, int) and not isinstance(ex.val, bool) and ex.val >= 0:
            if base.is_static:
                return V.static(base.val ** ex.val)
            return V(f"(qpow {self.coerce(base, 'Q', n)} {ex.val})", "Q")
        if ex.ty == "nat":
            return V(f"(qpow {self.coerce(base, 'Q', n)} {ex.term})", "Q")
        self.fail(n, f"exponent of type {ex.ty} ({'static ' + repr(ex.val) if ex.is_static else ex.term})")

    def e_Call(self, n, env):
        if n.keywords:
            self.fail(n, "keyword arguments")
        f = n.func
        name = self.func_name(f)
        if name is None:
            self.fail(n, "call of a non-name")
        args = n.args
        if name in IDENTITY_FUNCS:
            if len(args) != 1:
                self.fail(n, f"{name} with {len(args)} arguments")
            if isinstance(args[0], ast.JoinedStr):
                if not name.endswith(":sympify"):
                    self.fail(n, "f-string outside sympify")
                return self.fstring(args[0], env)
            v = self.expr(args[0], env)
            if name == "builtin:int" and not (v.ty in ("Z", "nat") or (v.is_static and isinstance(v.val, int))):
                self.fail(n, f"int() of {v.ty}")
            if name == "builtin:bool" and not (v.ty == "bool" or (v.is_static and isinstance(v.val, bool))):
                self.fail(n, f"bool() of {v.ty}")
            return v
        if name in ZERO_ONE:
            if args:
                self.fail(n, "arguments to Zero()/One()")
            return V.static(ZERO_ONE[name])
        if name in ("sympy:Rational", "symengine.lib.symengine_wrapper:Rational"):
            if len(args) == 1:
                v = self.expr(args[0], env)
                if v.ty == "Q" or (v.is_static and isinstance(v.val, (int, Fraction))):
                    return v
                self.fail(n, f"Rational() of {v.ty}")
            if len(args) == 2:
                a, b = self.expr(args[0], env), self.expr(args[1], env)
                if a.is_static and b.is_static:
                    return V.static(Fraction(a.val, b.val))
                return V(f"({self.coerce(a, 'Q', n)} / {self.coerce(b, 'Q', n)})", "Q")
            self.fail(n, "Rational arity")
        if name == "symengine.lib.symengine_wrapper:factorial":
            v = self.expr(args[0], env) if len(args) == 1 else self.fail(n, "factorial arity")
            return V(f"(qfact {self.coerce(v, 'nat', n)})", "Q")
        if name == "sympy:Abs":
            v = self.expr(args[0], env) if len(args) == 1 else self.fail(n, "Abs arity")
            return V(f"(qabs {self.coerce(v, 'Q', n)})", "Q")
        if name == "builtin:len":
            if len(args) == 1 and isinstance(args[0], ast.Name) and args[0].id == "parameters" and "parameters" not in env:
                if self.arity is not None:
                    return V.static(self.arity)
                return V(f"(length {self.params_v.term})", "nat")
            v = self.expr(args[0], env) if len(args) == 1 else self.fail(n, "len arity")
            if v.ty in ("listQ", "listZ", "listnat"):
                return V(f"(length {v.term})", "nat")
            self.fail(n, f"len of {v.ty}")
        if name == "builtin:sum":
            if len(args) == 1 and isinstance(args[0], ast.Name) and args[0].id == "parameters" and self.arity is None:
                return V(f"(qsum {self.params_v.term})", "Q")
            v = self.expr(args[0], env) if len(args) == 1 else self.fail(n, "sum arity")
            if v.ty == "listQ":
                return V(f"(qsum {v.term})", "Q")
            self.fail(n, f"sum of {v.ty}")
        if name == "builtin:range":
            vs = [self.expr(a, env) for a in args]
            if len(vs) == 1 and (vs[0].ty == "nat" or vs[0].is_static):
                return V(f"(seq 0 {self.coerce(vs[0], 'nat', n)})", "listnat")
            if len(vs) == 2 and {v.ty for v in vs} <= {"Z", "static"}:
                return V(f"(zrange {self.coerce(vs[0], 'Z', n)} {self.coerce(vs[1], 'Z', n)})", "listZ")
            self.fail(n, "range(...) form")
        if name == "builtin:set":
            v = self.expr(args[0], env) if len(args) == 1 else self.fail(n, "set arity")
            if v.ty == "listQ":
                return V(f"(map SPoint {v.term})", "supp")
            self.fail(n, f"set() of {v.ty}")
        if name in SYMPY_STATS:
            ctor, tys = SYMPY_STATS[name]
            if len(args) != 1 + len(tys) or not (isinstance(args[0], ast.Constant) and isinstance(args[0].value, str)):
                self.fail(n, f"{name} must be called as F(\"name\", {len(tys)} parameters)")
            ts = [self.coerce(self.expr(a, env), ty, a) for a, ty in zip(args[1:], tys)]
            return V(f"({ctor} {' '.join(ts)})", "srv")
        if name == "sympy.stats:E":
            if len(args) == 1 and isinstance(args[0], ast.BinOp) and isinstance(args[0].op, ast.Pow):
                x = self.expr(args[0].left, env)
                k = self.expr(args[0].right, env)
                if x.ty == "srv" and (k.ty == "nat" or (k.is_static and isinstance(k.val, int) and k.val >= 0)):
                    return V(f"(sympy_moment {x.term} {self.coerce(k, 'nat', n)})", "Q")
            self.fail(n, "sympy.stats.E is only translated in the form E(x ** k)")
        self.fail(n, f"call of {name} is outside the translated subset")

    def fstring_template(self, js, env):
        """f"...{e}..."  ->  (expression AST of the template with the interpolated values as
        atoms, environment for the atoms).  The printed text of an interpolated value is a
        sum of terms in general, so treating it as ONE atom is only right if the template
        puts it in parentheses or in a purely additive position: checked, else abort."""
        txt = ""
        loc = dict(env)
        i = 0
        spans = []
        for part in js.values:
            if isinstance(part, ast.Constant) and isinstance(part.value, str):
                txt += part.value
            elif isinstance(part, ast.FormattedValue) and part.conversion == -1 and part.format_spec is None:
                v = self.expr(part.value, env)
                if v.ty not in ("Q", "Z", "nat", "static", "zvar"):
                    self.fail(js, f"interpolation of a value of type {v.ty}")
                nm = f"__fs{i}"
                i += 1
                loc[nm] = v
                spans.append((len(txt), len(txt) + len(nm), v))
                txt += nm
            else:
                self.fail(js, "f-string part")
        for lo, hi, v in spans:
            if v.ty == "zvar":
                continue    # a fresh Symbol prints as an identifier
            before = txt[:lo].rstrip()
            after = txt[hi:].lstrip()
            pb = before[-1] if before else ""
            pa = after[0] if after else ""
            paren = pb == "(" and pa == ")"
            additive = pb in ("", "(", "+") and (pa in ("", ")", "+") or (pa == "-" and not after.startswith("-" * 2)))
            if not (paren or additive):
                self.fail(js, f"interpolated value between {pb!r} and {pa!r}: precedence of its printed text is not guaranteed")
        try:
            tree = ast.parse(txt.strip(), mode="eval").body
        except SyntaxError:
            self.fail(js, f"f-string template {txt!r} is not an expression")
        for sub in ast.walk(tree):
            sub.lineno = getattr(js, "lineno", 0)
        return tree, loc

    def fstring(self, js, env):
        tree, loc = self.fstring_template(js, env)
        return self.expr(tree, loc)

    # ---- linear forms  c0 + c1 * z  in the fresh variable z (dist_transformer templates) ----
    def lin(self, n, env):
        """-> (c0, c1): V or None each"""
        if isinstance(n, ast.Name) and n.id in env and env[n.id].ty == "zvar":
            return None, V.static(1)
        if isinstance(n, ast.BinOp) and isinstance(n.op, (ast.Add, ast.Sub)):
            a0, a1 = self.lin(n.left, env)
            b0, b1 = self.lin(n.right, env)
            sub = isinstance(n.op, ast.Sub)

            def comb(x, y):
                if y is None:
                    return x
                if x is None:
                    if not sub:
                        return y
                    if y.is_static:
                        return V.static(-y.val)
                    if y.ty != "Q":
                        self.fail(n, "negated square root coefficient")
                    return V(f"(- {y.term})", "Q")
                if x.is_static and y.is_static:
                    return V.static(x.val - y.val if sub else x.val + y.val)
                if "sqv" in (x.ty, y.ty):
                    self.fail(n, "sum of square-root coefficients")
                return V(f"({self.coerce(x, 'Q', n)} {'-' if sub else '+'} {self.coerce(y, 'Q', n)})", "Q")
            return comb(a0, b0), comb(a1, b1)
        if isinstance(n, ast.BinOp) and isinstance(n.op, ast.Mult):
            a0, a1 = self.lin(n.left, env)
            b0, b1 = self.lin(n.right, env)
            if a1 is not None and b1 is not None:
                self.fail(n, "product of two terms containing the fresh variable")
            if a1 is None and b1 is None:
                return self.mulc(a0, b0, n), None
            (c, _), (l0, l1) = ((a0, a1), (b0, b1)) if a1 is None else ((b0, b1), (a0, a1))
            if c is None:
                return None, None
            return (self.mulc(c, l0, n) if l0 is not None else None), self.mulc(c, l1, n)
        v = self.expr(n, env)
        if v.ty not in ("Q", "Z", "nat", "static", "sqv"):
            self.fail(n, f"coefficient of type {v.ty}")
        if v.is_static and v.val == 0:
            return None, None
        return v, None

    def mulc(self, x, y, n):
        if x is None or y is None:
            return None
        if x.is_static and y.is_static:
            return V.static(x.val * y.val)
        if x.is_static and x.val == 1:
            return y
        if y.is_static and y.val == 1:
            return x
        if "sqv" in (x.ty, y.ty):
            self.fail(n, "product with a square-root coefficient")
        return V(f"({self.coerce(x, 'Q', n)} * {self.coerce(y, 'Q', n)})", "Q")

    def elem(self, n, env):
        """one element of a support set"""
        if isinstance(n, ast.Tuple):
            if len(n.elts) != 2:
                self.fail(n, "interval tuple must have 2 entries")
            lo = self.coerce(self.expr(n.elts[0], env), "ext", n)
            hi = self.coerce(self.expr(n.elts[1], env), "ext", n)
            return f"(SIv {lo} {hi})"
        return f"(SPoint {self.coerce(self.expr(n, env), 'Q', n)})"

    def e_Set(self, n, env):
        return V("[" + "; ".join(self.elem(e, env) for e in n.elts) + "]", "supp")

    def comp(self, n, env):
        if len(n.generators) != 1:
            self.fail(n, "nested comprehension")
        g = n.generators[0]
        if g.ifs or g.is_async or not isinstance(g.target, ast.Name):
            self.fail(n, "comprehension form")
        it = self.expr(g.iter, env)
        ety = {"listQ": "Q", "listZ": "Z", "listnat": "nat"}.get(it.ty)
        if ety is None:
            self.fail(n, f"comprehension over {it.ty}")
        self.check_name(g.target.id, n)
        env2 = dict(env)
        env2[g.target.id] = V(g.target.id, ety)
        return it, g.target.id, env2

    def e_SetComp(self, n, env):
        it, x, env2 = self.comp(n, env)
        return V(f"(map (fun {x} => {self.elem(n.elt, env2)}) {it.term})", "supp")

    def e_ListComp(self, n, env):
        it, x, env2 = self.comp(n, env)
        body = self.coerce(self.expr(n.elt, env2), "Q", n)
        return V(f"(map (fun {x} => {body}) {it.term})", "listQ")

    def check_name(self, name, node):
        if name in RESERVED or name.startswith("par_") or name.startswith("__") or not name.isidentifier():
            self.fail(node, f"local name {name!r} is reserved in the generated file")

    # ---- statements -----------------------------------------------------------------
    def block(self, stmts, env, ret_ty):
        """-> Coq term of type ret_ty for a statement list ending in return on all paths"""
        if not stmts:
            self.fail(None, "control reaches the end of the function without return")
        s, rest = stmts[0], stmts[1:]
        if isinstance(s, ast.Expr) and isinstance(s.value, ast.Constant) and isinstance(s.value.value, str):
            return self.block(rest, env, ret_ty)
        if isinstance(s, ast.Return):
            if s.value is None:
                self.fail(s, "return without value")
            return self.coerce(self.expr(s.value, env), ret_ty, s)
        if isinstance(s, ast.Assign):
            if len(s.targets) != 1 or not isinstance(s.targets[0], ast.Name):
                self.fail(s, "assignment target")
            nm = s.targets[0].id
            v = self.expr(s.value, env)
            env2 = dict(env)
            if v.is_static:
                env2[nm] = v
                return self.block(rest, env2, ret_ty)
            self.check_name(nm, s)
            env2[nm] = V(nm, v.ty)
            return f"let {nm} : {COQ_TY[v.ty]} := {v.term} in\n  {self.block(rest, env2, ret_ty)}"
        if isinstance(s, ast.AugAssign):
            if not isinstance(s.target, ast.Name) or s.target.id not in env:
                self.fail(s, "augmented assignment target")
            fake = ast.BinOp(left=ast.Name(id=s.target.id, ctx=ast.Load()), op=s.op, right=s.value)
            ast.copy_location(fake, s)
            ast.copy_location(fake.left, s)
            return self.block([ast.copy_location(ast.Assign(targets=[ast.Name(id=s.target.id, ctx=ast.Store())], value=fake), s)] + rest,
                              env, ret_ty)
        if isinstance(s, ast.For):
            return self.for_loop(s, rest, env, ret_ty)
        if isinstance(s, ast.If):
            c = self.expr(s.test, env)
            if c.is_static:
                return self.block((s.body if c.val else s.orelse) + rest, env, ret_ty)
            if c.ty != "bool":
                self.fail(s, f"condition of type {c.ty}")
            if not self.returns(s.body):
                self.fail(s, "a dynamic `if` must return on its true branch")
            t1 = self.block(s.body, env, ret_ty)
            t2 = self.block(s.orelse + rest, env, ret_ty)
            return f"if {c.term} then {t1} else {t2}"
        self.fail(s, f"statement {type(s).__name__} is outside the translated subset")

    def returns(self, stmts):
        if not stmts:
            return False
        last = stmts[-1]
        if isinstance(last, ast.Return):
            return True
        if isinstance(last, ast.If):
            return self.returns(last.body) and self.returns(last.orelse)
        return False

    def for_loop(self, s, rest, env, ret_ty):
        if s.orelse:
            self.fail(s, "for-else")
        # iterator
        it = s.iter
        if isinstance(it, ast.Call) and self.func_name(it.func) == "builtin:enumerate" and len(it.args) == 1:
            xs = self.expr(it.args[0], env)
            ety = {"listQ": "Q", "listZ": "Z", "listnat": "nat"}.get(xs.ty)
            if ety is None or not (isinstance(s.target, ast.Tuple) and len(s.target.elts) == 2
                                   and all(isinstance(e, ast.Name) for e in s.target.elts)):
                self.fail(s, "enumerate loop form")
            i, x = s.target.elts[0].id, s.target.elts[1].id
            self.check_name(i, s)
            self.check_name(x, s)
            binder = f"'({i}, {x})"
            bound = {i: V(i, "nat"), x: V(x, ety)}
            coll = f"(enumerate {xs.term})"
        else:
            xs = self.expr(it, env)
            ety = {"listQ": "Q", "listZ": "Z", "listnat": "nat"}.get(xs.ty)
            if ety is None or not isinstance(s.target, ast.Name):
                self.fail(s, "for loop form")
            self.check_name(s.target.id, s)
            binder = s.target.id
            bound = {s.target.id: V(s.target.id, ety)}
            coll = xs.term
        # body: accumulations `acc += e` on one accumulator
        if len(s.body) != 1 or not (isinstance(s.body[0], ast.AugAssign) and isinstance(s.body[0].op, ast.Add)
                                    and isinstance(s.body[0].target, ast.Name)):
            self.fail(s, "loop body must be a single `acc += e`")
        acc = s.body[0].target.id
        if acc not in env or acc in bound:
            self.fail(s, f"accumulator {acc} is not initialised before the loop")
        self.check_name(acc, s)
        env_in = dict(env)
        env_in.update(bound)
        env_in[acc] = V(acc, "Q")
        e = self.expr(s.body[0].value, env_in)
        for sub in ast.walk(s.body[0].value):
            if isinstance(sub, ast.Name) and sub.id == acc:
                self.fail(s, "accumulator read inside its own increment")
        init = self.coerce(env[acc], "Q", s)
        term = f"(fold_left (fun {acc} {binder} => {acc} + {self.coerce(e, 'Q', s)}) {coll} {init})"
        env2 = dict(env)
        env2[acc] = V(acc, "Q")
        return f"let {acc} : Qc := {term} in\n  {self.block(rest, env2, ret_ty)}"


# ---- per family ---------------------------------------------------------------------
def methods_of(mod, cls):
    out = {}
    for node in cls.body:
        if isinstance(node, ast.FunctionDef):
            if node.name not in KNOWN_METHODS:
                raise Unsupported(mod.rel, node, f"unknown method {node.name} in {cls.name}")
            for d in node.decorator_list:
                ok = isinstance(d, ast.Call) and isinstance(d.func, ast.Name) and \
                    mod.resolve(d.func.id) == "functools:lru_cache" and not d.args and not d.keywords
                if not ok:
                    raise Unsupported(mod.rel, d, "decorator other than @lru_cache()")
            if node.name in out:
                raise Unsupported(mod.rel, node, f"method {node.name} defined twice")
            out[node.name] = node
        elif isinstance(node, ast.AnnAssign) and node.value is None:
            continue
        elif isinstance(node, ast.Expr) and isinstance(node.value, ast.Constant) and isinstance(node.value.value, str):
            continue
        else:
            raise Unsupported(mod.rel, node, f"class-level statement {type(node).__name__}")
    return out


def check_signature(mod, fn, nargs):
    a = fn.args
    if a.vararg or a.kwarg or a.kwonlyargs or a.defaults or a.posonlyargs or len(a.args) != nargs + 1 or a.args[0].arg != "self":
        raise Unsupported(mod.rel, fn, f"signature of {fn.name}")
    return [x.arg for x in a.args[1:]]


def translate_set_parameters(mod, fn, prefix, ptys):
    """-> (binders [(name, ty)], attrs, rejects term, extra definitions)"""
    argn = check_signature(mod, fn, 1)
    if argn != ["parameters"]:
        raise Unsupported(mod.rel, fn, "set_parameters(self, parameters) expected")
    variadic = ptys == "listQ"
    # pass 1: direct attributes self.X = parameters[i] give the binder names
    names = {}
    if not variadic:
        for sub in ast.walk(fn):
            if isinstance(sub, ast.Assign) and len(sub.targets) == 1 and isinstance(sub.targets[0], ast.Attribute) \
                    and isinstance(sub.targets[0].value, ast.Name) and sub.targets[0].value.id == "self" \
                    and isinstance(sub.value, ast.Subscript) and isinstance(sub.value.value, ast.Name) \
                    and sub.value.value.id == "parameters" and isinstance(sub.value.slice, ast.Constant):
                names.setdefault(sub.value.slice.value, sub.targets[0].attr)
        binders = [(f"par_{names.get(i, i)}", ty) for i, ty in enumerate(ptys)]
        params_v = [V(nm, ty) for nm, ty in binders]
        arity = len(ptys)
    else:
        binders = [("par_list", "listQ")]
        params_v = V("par_list", "listQ")
        arity = None
    tr = Tr(mod, {}, arity, params_v)
    attrs = {}
    rejects = []
    extra = []
    bind = " ".join(f"({nm} : {COQ_TY[ty]})" for nm, ty in binders)
    args = " ".join(nm for nm, _ in binders)

    def walk(stmts, env):
        for idx, s in enumerate(stmts):
            if isinstance(s, ast.Expr) and isinstance(s.value, ast.Constant):
                continue
            if isinstance(s, ast.If):
                c = tr.expr(s.test, env)
                if c.is_static:
                    r = walk(s.body if c.val else s.orelse, env)
                    if r == "raise":
                        return "raise"
                    continue
                if len(s.body) == 1 and isinstance(s.body[0], ast.Raise) and not s.orelse and c.ty == "bool":
                    rejects.append(c.term)
                    continue
                raise Unsupported(mod.rel, s, "dynamic `if` in set_parameters other than `if c: raise`")
            if isinstance(s, ast.Raise):
                return "raise"
            if isinstance(s, ast.Assign) and len(s.targets) == 1:
                t = s.targets[0]
                if isinstance(t, ast.Attribute) and isinstance(t.value, ast.Name) and t.value.id == "self":
                    if isinstance(s.value, ast.Name) and s.value.id == "parameters" and variadic:
                        v = params_v
                    else:
                        v = tr.expr(s.value, env)
                    if v.is_static or (not variadic and v.term in [b[0] for b in binders]) or (variadic and v is params_v):
                        attrs[t.attr] = v
                    else:
                        dn = f"{prefix}_attr_{t.attr}"
                        extra.append(f"Definition {dn} {bind} : {COQ_TY[v.ty]} :=\n  {v.term}.")
                        attrs[t.attr] = V(f"({dn} {args})", v.ty)
                    continue
                if isinstance(t, ast.Name):
                    v = tr.expr(s.value, env)
                    if not v.is_static:
                        # inline (no let at definition level): values are pure
                        v = V(f"({v.term})" if not v.term.startswith("(") else v.term, v.ty)
                    env[t.id] = v
                    continue
            raise Unsupported(mod.rel, s, f"statement {type(s).__name__} in set_parameters")
        return None

    if walk(fn.body, {}) == "raise":
        raise Unsupported(mod.rel, fn, f"set_parameters always raises for arity {arity}")
    rej = "false"
    for r in rejects:
        rej = r if rej == "false" else f"(orb {rej} {r})"
    return binders, attrs, rej, extra


def translate_family(cname, fname, variants, out, index):
    path = os.path.join(lib.REPO, "program", "distribution", fname)
    if not os.path.exists(path):
        raise Unsupported(os.path.relpath(path, lib.REPO), None, "file missing")
    mod = Module(path)
    cls = mod.cls(cname)
    if len(cls.bases) != 1 or not isinstance(cls.bases[0], ast.Name) or \
            not (mod.resolve(cls.bases[0].id) or "").endswith(":Distribution"):
        raise Unsupported(mod.rel, cls, "base class must be Distribution")
    ms = methods_of(mod, cls)
    if "set_parameters" not in ms:
        raise Unsupported(mod.rel, cls, "no set_parameters")
    for prefix, ptys in variants:
        out.append(f"\n(* ---- {cname} ({mod.rel}), variant {prefix} ---- *)")
        binders, attrs, rej, extra = translate_set_parameters(mod, ms["set_parameters"], prefix, ptys)
        bind = " ".join(f"({nm} : {COQ_TY[ty]})" for nm, ty in binders)
        out.extend(extra)
        out.append(f"Definition {prefix}_rejects {bind} : bool :=\n  {rej}.")
        info = {"class": cname, "file": mod.rel, "params": binders, "attrs": sorted(attrs), "methods": []}
        for m in TRANSLATED:
            if m not in ms:
                if m == "mgf_exists_at":
                    continue    # inherited: raises NotImplementedError (no MGF declared)
                raise Unsupported(mod.rel, cls, f"method {m} missing")
            if (cname, m) in UNMODELLED:
                out.append(f"(* {prefix}_{m}: NOT MODELLED — {UNMODELLED[(cname, m)]} *)")
                continue
            fn = ms[m]
            argn = check_signature(mod, fn, len(ARG_TYPES[m]))
            arity = None if ptys == "listQ" else len(ptys)
            params_v = V("par_list", "listQ") if ptys == "listQ" else [V(nm, ty) for nm, ty in binders]
            tr = Tr(mod, attrs, arity, params_v)
            env = {}
            abind = ""
            for a, ty in zip(argn, ARG_TYPES[m]):
                if a != "_":
                    tr.check_name(a, fn)
                    env[a] = V(a, ty)
                abind += f" ({a} : {COQ_TY[ty]})"
            body = tr.block(fn.body, env, RET_TYPES[m])
            out.append(f"Definition {prefix}_{m} {bind}{abind} : {COQ_TY[RET_TYPES[m]]} :=\n  {body}.")
            info["methods"].append(m)
        index[prefix] = info


# ---- pinned shapes (fail-closed structural checks of code that is not formula-level) --
def normalized_dump(node):
    return ast.dump(node, annotate_fields=False, include_attributes=False)


PINNED_INIT = """
def __init__(self, parameters):
    params = []
    for p in parameters:
        p = sympify(p)
        if p.is_Float:
            p = float_to_rational(p)
        params.append(p)
    self.set_parameters(params)
    super().__init__()
"""
PINNED_F2R = """
def float_to_rational(expr: Expr):
    return sympy2symengine(Rational(str(expr)))
"""


def check_pinned():
    p = os.path.join(lib.REPO, "program", "distribution", "distribution.py")
    mod = Module(p)
    cls = mod.cls("Distribution")
    init = [n for n in cls.body if isinstance(n, ast.FunctionDef) and n.name == "__init__"]
    want = normalized_dump(ast.parse(PINNED_INIT).body[0])
    if len(init) != 1 or normalized_dump(init[0]) != want:
        raise Unsupported(mod.rel, init[0] if init else cls, "Distribution.__init__ differs from the modelled shape "
                          "(sympify each parameter, floats through float_to_rational, then set_parameters)")
    if mod.resolve("sympify") != "symengine.lib.symengine_wrapper:sympify" or mod.resolve("float_to_rational") != "utils:float_to_rational":
        raise Unsupported(mod.rel, cls, "imports of sympify/float_to_rational changed")
    p2 = os.path.join(lib.REPO, "utils", "expressions.py")
    mod2 = Module(p2)
    f2r = [n for n in mod2.tree.body if isinstance(n, ast.FunctionDef) and n.name == "float_to_rational"]
    if len(f2r) != 1 or normalized_dump(f2r[0]) != normalized_dump(ast.parse(PINNED_F2R).body[0]):
        raise Unsupported(mod2.rel, f2r[0] if f2r else None, "float_to_rational differs from Rational(str(expr))")
    # factory: names -> classes
    p3 = os.path.join(lib.REPO, "program", "distribution", "__init__.py")
    mod3 = Module(p3)
    found = None
    for n in mod3.tree.body:
        if isinstance(n, ast.Assign) and len(n.targets) == 1 and isinstance(n.targets[0], ast.Name) and n.targets[0].id == "_distributions":
            if not isinstance(n.value, ast.Dict):
                raise Unsupported(mod3.rel, n, "_distributions is not a dict display")
            found = {}
            for k, v in zip(n.value.keys, n.value.values):
                if not (isinstance(k, ast.Constant) and isinstance(v, ast.Name)):
                    raise Unsupported(mod3.rel, n, "_distributions entry form")
                found[k.value] = v.id
    if found != FACTORY:
        raise Unsupported(mod3.rel, None, f"distribution factory table changed: {found}")
    for nm, cl in FACTORY.items():
        fam = [f for f in FAMILIES if f[0] == cl][0]
        want_mod = "." + fam[1][:-3] + ":" + cl
        if mod3.resolve(cl) != want_mod:
            raise Unsupported(mod3.rel, None, f"{cl} is imported from {mod3.resolve(cl)}, expected {want_mod}")


# ---- location/scale rewriting (program/transformer/dist_transformer.py) ------------------
LOCSCALE = [  # method, class of the rewritten draw, binder names of its parameters
    ("_transform_normal", "Normal", ["mu", "sigma2"]),
    ("_transform_laplace", "Laplace", ["mu", "b"]),
    ("_transform_exponential", "Exponential", ["lamb"]),
    ("_transform_uniform", "Uniform", ["a", "b"]),
]
PINNED_DISPATCH = """
@transform.register
def _(self, dist_assign: DistAssignment):
    if isinstance(dist_assign.distribution, Normal):
        return self._transform_normal(dist_assign)

    if isinstance(dist_assign.distribution, Uniform):
        return self._transform_uniform(dist_assign)

    if isinstance(dist_assign.distribution, Laplace):
        return self._transform_laplace(dist_assign)

    if isinstance(dist_assign.distribution, Exponential):
        return self._transform_exponential(dist_assign)

    return dist_assign
"""
FAMILY_ARITY = {"Normal": 2, "Laplace": 2, "Exponential": 1, "Uniform": 2}


def translate_locscale(out, index):
    path = os.path.join(lib.REPO, "program", "transformer", "dist_transformer.py")
    mod = Module(path)
    cls = mod.cls("DistTransformer")
    fns = {}
    disp = []
    for node in cls.body:
        if isinstance(node, ast.FunctionDef):
            if node.name == "_":
                disp.append(node)
            fns[node.name] = node
    want = normalized_dump(ast.parse("class X:\n" + "\n".join("    " + l for l in PINNED_DISPATCH.strip().splitlines())).body[0].body[0])
    if len(disp) != 1 or normalized_dump(disp[0]) != want:
        raise Unsupported(mod.rel, disp[0] if disp else cls, "DistTransformer dispatch differs from the modelled shape")
    for nm in ("Normal", "Uniform", "Laplace", "Exponential"):
        if mod.resolve(nm) != "program.distribution:" + nm:
            raise Unsupported(mod.rel, None, f"{nm} imported from {mod.resolve(nm)}")
    out.append(f"\n(* ==== location/scale rewriting ({mod.rel}) ==== *)")
    for meth, fam, attrs in LOCSCALE:
        if meth not in fns:
            raise Unsupported(mod.rel, cls, f"{meth} missing")
        translate_one_locscale(mod, fns[meth], fam, attrs, out, index)


def translate_one_locscale(mod, fn, fam, attrs, out, index):
    """shape:  variable = A.variable ; d: F = A.distribution ; [identity guard on free_symbols]
       [num, den = d.lamb.as_numer_denom() ; if num.free_symbols: raise] ; new_var = get_unique_var()
       X = DistAssignment(new_var, F([...])) ; Y = PolyAssignment.deterministic(variable, f"...") ;
       [Y.auxiliary = A.auxiliary  (flag copy, no-op)] ; return X, Y"""
    argn = check_signature(mod, fn, 1)
    arg = argn[0]
    prefix = "transform_" + fam.lower()
    binders = [(f"par_{a}", "Q") for a in attrs]
    dist_attrs = {a: V(f"par_{a}", "Q") for a in attrs}
    dvar = None
    varvar = None
    newvar = None
    new_dist = None
    expr = None
    guard_seen = False
    tr = Tr(mod, {}, 0, [])
    env = {}

    def is_attr(n, obj, attr=None):
        return isinstance(n, ast.Attribute) and isinstance(n.value, ast.Name) and n.value.id == obj and (attr is None or n.attr == attr)

    class DAttr(ast.NodeTransformer):
        """d.mu -> name __d_mu bound in env"""
        def visit_Attribute(self_, n):
            if dvar and is_attr(n, dvar) and n.attr in dist_attrs:
                nm = f"__d_{n.attr}"
                env[nm] = dist_attrs[n.attr]
                return ast.copy_location(ast.Name(id=nm, ctx=ast.Load()), n)
            return self_.generic_visit(n)

    def only_free_symbol_tests(test):
        """`not d.x.free_symbols [and not d.y.free_symbols]` / `num.free_symbols`"""
        for sub in ast.walk(test):
            if isinstance(sub, (ast.BoolOp, ast.And, ast.Or, ast.UnaryOp, ast.Not, ast.Load, ast.Name)):
                continue
            if isinstance(sub, ast.Attribute):
                continue
            return False
        return any(isinstance(sub, ast.Attribute) and sub.attr == "free_symbols" for sub in ast.walk(test))

    for s in fn.body:
        if isinstance(s, ast.Expr) and isinstance(s.value, ast.Constant):
            continue
        if isinstance(s, ast.Assign) and len(s.targets) == 1 and isinstance(s.targets[0], ast.Name) and is_attr(s.value, arg, "variable"):
            varvar = s.targets[0].id
            continue
        if isinstance(s, ast.AnnAssign) and isinstance(s.target, ast.Name) and s.value is not None and is_attr(s.value, arg, "distribution") \
                and isinstance(s.annotation, ast.Name) and s.annotation.id == fam:
            dvar = s.target.id
            continue
        if isinstance(s, ast.If) and not s.orelse and only_free_symbol_tests(s.test):
            if len(s.body) == 1 and isinstance(s.body[0], ast.Return) and isinstance(s.body[0].value, ast.Name) and s.body[0].value.id == arg:
                guard_seen = True     # identity on draws with constant parameters
                continue
            if len(s.body) == 1 and isinstance(s.body[0], ast.Raise):
                continue              # refusal (not a wrong result)
            raise Unsupported(mod.rel, s, "guard form")
        if isinstance(s, ast.Assign) and len(s.targets) == 1 and isinstance(s.targets[0], ast.Tuple) and fam == "Exponential":
            t = s.targets[0]
            v = s.value
            if len(t.elts) == 2 and all(isinstance(e, ast.Name) for e in t.elts) and isinstance(v, ast.Call) and not v.args \
                    and isinstance(v.func, ast.Attribute) and v.func.attr == "as_numer_denom" and dvar and is_attr(v.func.value, dvar, "lamb"):
                # model: lamb = numerator / denominator
                binders[:] = [("par_numerator", "Q"), ("par_denominator", "Q")]
                env[t.elts[0].id] = V("par_numerator", "Q")
                env[t.elts[1].id] = V("par_denominator", "Q")
                dist_attrs.clear()
                continue
            raise Unsupported(mod.rel, s, "tuple assignment form")
        if isinstance(s, ast.Assign) and len(s.targets) == 1 and isinstance(s.targets[0], ast.Name):
            nm = s.targets[0].id
            v = s.value
            if isinstance(v, ast.Call) and isinstance(v.func, ast.Name) and mod.resolve(v.func.id) == "utils:get_unique_var" and not v.args:
                newvar = nm
                env[nm] = V("z", "zvar")
                continue
            if isinstance(v, ast.Call) and isinstance(v.func, ast.Name) and mod.resolve(v.func.id) == "program.assignment:DistAssignment":
                if len(v.args) != 2 or not (isinstance(v.args[0], ast.Name) and v.args[0].id == newvar):
                    raise Unsupported(mod.rel, s, "DistAssignment(new_var, ...) expected")
                d = v.args[1]
                if not (isinstance(d, ast.Call) and isinstance(d.func, ast.Name) and d.func.id == fam and len(d.args) == 1
                        and isinstance(d.args[0], ast.List) and len(d.args[0].elts) == FAMILY_ARITY[fam]):
                    raise Unsupported(mod.rel, s, f"new draw must be {fam}([...{FAMILY_ARITY[fam]} parameters])")
                ps = [tr.coerce(tr.expr(DAttr().visit(e), env), "Q", e) for e in d.args[0].elts]
                new_dist = ps
                continue
            if isinstance(v, ast.Call) and isinstance(v.func, ast.Attribute) and v.func.attr == "deterministic" \
                    and isinstance(v.func.value, ast.Name) and mod.resolve(v.func.value.id) == "program.assignment:PolyAssignment":
                if len(v.args) != 2 or not (isinstance(v.args[0], ast.Name) and v.args[0].id == varvar) or not isinstance(v.args[1], ast.JoinedStr):
                    raise Unsupported(mod.rel, s, "PolyAssignment.deterministic(variable, f\"...\") expected")
                js = DAttr().visit(v.args[1])
                tree, loc = tr.fstring_template(js, env)
                c0, c1 = tr.lin(tree, loc)
                expr = (c0, c1, nm)
                continue
            if isinstance(v, ast.Tuple) and all(isinstance(e, ast.Call) and isinstance(e.func, ast.Name) and e.func.id == "str" for e in v.elts):
                raise Unsupported(mod.rel, s, "tuple of str()")
            raise Unsupported(mod.rel, s, "assignment form")
        if isinstance(s, ast.Assign) and len(s.targets) == 1 and isinstance(s.targets[0], ast.Tuple) and fam == "Uniform":
            # a, b = str(uniform.a), str(uniform.b): printed texts of the parameters
            t, v = s.targets[0], s.value
            ok = isinstance(v, ast.Tuple) and len(v.elts) == len(t.elts) and all(isinstance(e, ast.Name) for e in t.elts)
            if ok:
                for tn, e in zip(t.elts, v.elts):
                    if not (isinstance(e, ast.Call) and isinstance(e.func, ast.Name) and e.func.id == "str" and len(e.args) == 1
                            and dvar and is_attr(e.args[0], dvar) and e.args[0].attr in dist_attrs):
                        ok = False
                        break
                    env[tn.id] = dist_attrs[e.args[0].attr]
            if ok:
                continue
            raise Unsupported(mod.rel, s, "str() tuple form")
        if isinstance(s, ast.Assign) and len(s.targets) == 1 and isinstance(s.targets[0], ast.Attribute) \
                and s.targets[0].attr == "auxiliary" and isinstance(s.targets[0].value, ast.Name) \
                and expr is not None and s.targets[0].value.id == expr[2] and is_attr(s.value, arg, "auxiliary"):
            # new_assign.auxiliary = <orig>_assign.auxiliary : copies a bookkeeping flag of the rewritten
            # assignment onto the new deterministic assignment; no effect on the draw or the arithmetic (no-op here)
            continue
        if isinstance(s, ast.Return):
            r = s.value
            if not (isinstance(r, ast.Tuple) and len(r.elts) == 2 and all(isinstance(e, ast.Name) for e in r.elts)) or expr is None \
                    or new_dist is None or r.elts[1].id != expr[2]:
                raise Unsupported(mod.rel, s, "return (new draw, new assignment) expected")
            break
        raise Unsupported(mod.rel, s, f"statement {type(s).__name__} in {fn.name}")
    else:
        raise Unsupported(mod.rel, fn, "no return")
    if not guard_seen or expr is None or new_dist is None:
        raise Unsupported(mod.rel, fn, "missing identity guard / new draw / new assignment")
    bind = " ".join(f"({nm} : {COQ_TY[ty]})" for nm, ty in binders)
    c0, c1, _ = expr
    t0 = tr.coerce(c0, "Q", fn) if c0 is not None else "0"
    t1 = tr.coerce(c1, "sqv", fn) if c1 is not None else "(Rat 0)"
    dty = " * ".join(["Qc"] * len(new_dist))
    out.append(f"Definition {prefix}_dist {bind} : {dty} :=\n  ({', '.join(new_dist)}).")
    out.append(f"Definition {prefix}_expr {bind} : lin :=\n  (mklin {t0} {t1}).")
    index[prefix] = {"class": "DistTransformer", "file": mod.rel, "params": binders, "methods": [fn.name]}



HEADER = """(* GENERATED by harness/translate_dist.py from {repo}/program/distribution/*.py — do not edit.
   Regenerated on every ./check C08; the theorems of props/C08.v are about these terms. *)
From Coq Require Import List QArith Qcanon ZArith Bool Arith.
From Polar Require Import Qcx DistBase DistSympy.
Import ListNotations.
Local Open Scope Qc_scope.
"""


def translate():
    """-> (text of DistGen.v, index)"""
    check_pinned()
    out = [HEADER.format(repo=lib.REPO)]
    index = {}
    for cname, fname, variants in FAMILIES:
        translate_family(cname, fname, variants, out, index)
    translate_locscale(out, index)
    return "\n".join(out) + "\n", index


def main():
    text, index = translate()
    changed = lib.write_if_changed(os.path.join(lib.COQ, "gen", "DistGen.v"), text)
    return changed, index


if __name__ == "__main__":
    try:
        ch, idx = main()
        print("DistGen.v", "written" if ch else "unchanged", "families:", ", ".join(idx))
    except Unsupported as e:
        print("UNSUPPORTED", e)
        sys.exit(2)
