"""Writes /verif/MANIFEST.json from the table below (kept valid at all times)."""
import json, os
V = os.path.dirname(os.path.dirname(os.path.abspath(__file__)))
CHECKS = {}
NA = {}

def check(pid, text, note, technique, design):
    CHECKS[pid] = {
        "property_id": pid,
        "quick_cmd": f"./check {pid} --tier quick",
        "thorough_cmd": f"./check {pid} --tier thorough",
        "evidence_file": f"evidence/{pid}.json",
        "replay_cmd_template": f"./check {pid} --replay {{path}}",
        "engine": "coq-model+harness",
        "level_claimed": {"category": "proof", "text": text, "design_ref": design},
        "level_note": note,
        "technique": technique,
    }

import manifest_table  # noqa: E402  fills CHECKS / NA
manifest_table.fill(check, NA)
import glob
for f in sorted(glob.glob(os.path.join(V, "harness", "manifest_entries", "*.json"))):
    e = json.load(open(f))
    if e.get("not_applicable"):
        NA[e["property_id"]] = e["not_applicable"]
    else:
        check(e["property_id"], e["text"], e["note"], e["technique"], e.get("design", "5/" + e["property_id"]))

props = [json.loads(l)["id"] for l in open(os.path.join(V, "properties.jsonl"))]
m = {
    "version": 1,
    "setup_cmd": "./setup.sh",
    "hooks": {"guard": "POLAR_VERIF", "enable": "export POLAR_VERIF=1 (set by ./check; no source hook is needed so far: observation is by wrapping from the harness process)",
              "baseline_off_cmd": "cd /repo && /venv/bin/python -m pytest -ra -q -p no:cacheprovider --timeout=900 --continue-on-collection-errors",
              "source_commits": [], "add_only": True},
    "engines": [
        {"name": "coq-model", "path": "coq", "serves_properties": sorted(CHECKS), "kind_free_text": "Coq 8.16.1 development: reference semantics, models, verified validators, property theorems (props/Cxx.v)"},
        {"name": "harness", "path": "harness", "serves_properties": sorted(CHECKS), "kind_free_text": "Python: translator, generators, Polar worker pool, correspondence/validation, search, evidence"},
    ],
    "checks": [CHECKS[p] for p in props if p in CHECKS],
    "not_applicable": [{"property_id": p, "reason": NA.get(p, "not yet claimed: machinery for this property is not built yet (see DESIGN.md section 5 for the plan)")} for p in props if p not in CHECKS],
    "notes": "See DESIGN.md. Fix commits in /repo are recorded in known_findings.json (fixed entries).",
}
json.dump(m, open(os.path.join(V, "MANIFEST.json"), "w"), indent=1)
print("claimed:", sorted(CHECKS))
