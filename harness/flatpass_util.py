"""Shared code of the per-pass correspondence modules pass_multiassign.py / pass_condreduce.py
(C02): Polar's snapshot before a pass is turned into a Coq term, the Gallina model of the
pass is evaluated on it inside Coq (vm_compute) and compared — by PassFlatCmp.gas_eq, i.e.
exactly up to the normal form of the polynomial parts — with the term built from Polar's
snapshot after the pass."""
import re

import core
import progast as P

HEADER = ("From Coq Require Import List String QArith Qcanon ZArith Bool.\n"
          "From Polar Require Import Qcx Dist Syntax Sem PassFlat PassFlatCmp PassMultiAssign PassCondReduce.\n"
          "Import ListNotations.\nOpen Scope string_scope.\n")

BATCH = 12


def snapshot_pair(run, before_name, after_name):
    """-> (dump before, dump after) or None when the pass was not observed on this run"""
    snaps = run.get("snapshots") or []
    names = [n for n, _ in snaps]
    if after_name not in names or before_name not in names:
        return None
    ia, ib = names.index(after_name), names.index(before_name)
    if ib + 1 != ia:
        return None
    b, a = snaps[ib][1], snaps[ia][1]
    if "unsupported" in b or "unsupported" in a:
        return None
    return b, a


def gas_term(assigns):
    """list of dumped assignments -> Coq term of type list gassign (raises core.NotModelled)"""
    return P.lst([core.ga_coq(a) for a in assigns])


def dump_vars(dump):
    vs = set()

    def poly(p):
        for _, mon in p:
            for x, _k in mon:
                vs.add(x)

    def cond(c):
        if c[0] == "atom":
            poly(c[1])
            poly(c[3])
        elif c[0] == "not":
            cond(c[1])
        elif c[0] in ("and", "or"):
            cond(c[1])
            cond(c[2])

    for part in ("init", "body"):
        for a in dump[part]:
            if "if" in a:
                continue
            vs.add(a["var"])
            vs.add(a["default"])
            cond(a["cond"])
            r = a["rhs"]
            if r[0] == "choice":
                for p, e in r[1]:
                    poly(p)
                    poly(e)
            elif r[0] == "draw":
                d = r[1]
                if d[0] == "bern":
                    poly(d[1])
                elif d[0] == "cat":
                    for p in d[1]:
                        poly(p)
                elif d[0] == "cont":
                    for _, v in d[2]:
                        if not isinstance(v, str):
                            poly(v)
    return vs


def ga_text(a):
    """short human-readable form of a dumped assignment for reports"""
    def poly(p):
        if not p:
            return "0"
        out = []
        for co, mon in p:
            m = "*".join(x if k == 1 else f"{x}**{k}" for x, k in mon)
            c = co[:-2] if co.endswith("/1") else co
            out.append(m if (m and c == "1") else (f"{c}*{m}" if m else c))
        return " + ".join(out)

    def cond(c):
        if c[0] in ("true", "false"):
            return c[0]
        if c[0] == "atom":
            return f"{poly(c[1])} {c[2]} {poly(c[3])}"
        if c[0] == "not":
            return f"!({cond(c[1])})"
        return f"({cond(c[1])} {'&&' if c[0] == 'and' else '||'} {cond(c[2])})"

    r = a["rhs"]
    if r[0] == "choice":
        rt = " ".join(f"{poly(e)} {{{poly(p)}}}" for p, e in r[1]) if len(r[1]) > 1 else poly(r[1][0][1])
    elif r[0] == "draw":
        d = r[1]
        if d[0] == "bern":
            rt = f"Bernoulli({poly(d[1])})"
        elif d[0] == "cat":
            rt = "Categorical(" + ", ".join(poly(p) for p in d[1]) + ")"
        elif d[0] == "unif":
            rt = f"DiscreteUniform({d[1]}, {d[2]})"
        else:
            rt = f"{d[1]}(" + ", ".join(f"{k}={poly(v) if not isinstance(v, str) else v}" for k, v in d[2]) + ")"
    else:
        rt = str(r[1:])
    s = f"{a['var']} = {rt}"
    if a["cond"] != ["true"]:
        s += f" | {cond(a['cond'])} : {a['default']}"
    return s


def run_cases(ctx, lib, tag, cases):
    """cases: list of dicts with key "coq" = (definitions text, tuple expression of type
    bool * bool * nat).  Evaluates them in batches; sets case["res"] = (equal, wf, first_diff)
    or None when Coq did not answer."""
    files = []
    if not getattr(ctx, "_flatpass_built", False):
        lib.coq_make(["theories/PassFlatCmp.vo", "theories/PassMultiAssign.vo", "theories/PassCondReduce.vo"])
        ctx._flatpass_built = True
    for b in range(0, len(cases), BATCH):
        text = HEADER
        for j, c in enumerate(cases[b:b + BATCH]):
            defs, expr = c["coq"]
            text += f"Module K{j}.\n{defs}\nEval vm_compute in {expr}.\nEnd K{j}.\n"
        files.append((f"{tag}_{b // BATCH}", text))
    outs = lib.coq_run_many(ctx, files, timeout=240)
    for b in range(0, len(cases), BATCH):
        ok, out = outs[f"{tag}_{b // BATCH}"]
        found = re.findall(r"=\s*\(\s*(true|false)\s*,\s*(true|false)\s*,\s*(\d+)(?:%nat)?\s*\)", out) if ok else []
        chunk = cases[b:b + BATCH]
        for j, c in enumerate(chunk):
            c["out_all"] = out
            if ok and len(found) == len(chunk):
                e, w, d = found[j]
                c["res"] = (e == "true", w == "true", int(d))
            else:
                c["res"] = None
                c["coq_log"] = out[-1500:]


# ---- extra programs: repeated assignments and comparisons of arbitrary polynomials ----------
ATOMS = ["{x} + {y} > {z}", "{x} + {y} >= 1 + {z}", "{x}*{y} == {z}", "{x} - {y} <= 0", "2*{x} < {y} + {z}",
         "{x} == {y}", "{x} == 1", "{x} + 1 > {y}", "{x}*{y} >= {z}*{x}", "{x} < 1", "{x} + {y} + {z} > 2"]


def _extra_text(rng):
    vs = ["a", "b", "c", "d"][:rng.choice([3, 3, 4])]

    def atom():
        x, y, z = rng.sample(vs, 3)
        return rng.choice(ATOMS).format(x=x, y=y, z=z)

    def cond():
        k = rng.random()
        if k < 0.55:
            return atom()
        if k < 0.7:
            return f"{atom()} && {atom()}"
        if k < 0.85:
            return f"{atom()} || {atom()}"
        return f"!({atom()})"

    def rhs(v):
        w = rng.choice([u for u in vs if u != v])
        return rng.choice(["0", "1", w, "Bernoulli(1/2)", f"{w} {{1/2}} 0", f"1 {{1/3}} {w}"])

    lines = [f"{v} = {rng.choice([0, 1])}" for v in vs] + ["while true:"]
    pool = [cond() for _ in range(2)]
    if rng.random() < 0.6:
        # a condition evaluated on the values of the previous iteration, before the draws
        lines.append(f"    if {rng.choice(pool)}:")
        v = rng.choice(vs)
        lines.append(f"        {v} = {rhs(v)}")
        lines.append("    end")
    for v in (vs if rng.random() < 0.4 else rng.sample(vs, len(vs) - 1)):
        lines.append("    " + rng.choice([f"{v} = Bernoulli({rng.choice(['1/2', '1/3', '3/4'])})", f"{v} = DiscreteUniform(0, 2)",
                                          f"{v} = 0 {{1/2}} 2", f"{v} = Bernoulli(1/2)"]))
    for _ in range(rng.choice([2, 3, 3, 4])):
        if rng.random() < 0.25:
            v = rng.choice(vs)
            lines.append(f"    {v} = {rhs(v)}")
            continue
        c = rng.choice(pool) if rng.random() < 0.8 else cond()
        lines.append(f"    if {c}:")
        for v in rng.sample(vs, rng.choice([1, 2, 2])):
            lines.append(f"        {v} = {rhs(v)}")
        if rng.random() < 0.3:
            lines.append(f"    elif {rng.choice(pool)}:")
            v = rng.choice(vs)
            lines.append(f"        {v} = {rhs(v)}")
        if rng.random() < 0.3:
            lines.append("    else:")
            v = rng.choice(vs)
            lines.append(f"        {v} = {rhs(v)}")
        lines.append("    end")
    lines.append("end")
    return "\n".join(lines) + "\n"


FIXED = [
    # the alias of a + b > c must not be reused after a (assigned once, so it keeps its name) is drawn
    "a = 0\nb = 1\nc = 0\nd = 0\nwhile true:\n    if a + b > c:\n        d = 1\n    end\n    a = Bernoulli(1/2)\n"
    "    if a + b > c:\n        d = 0 {1/2} d\n    end\n    b = Bernoulli(1/3)\nend\n",
    # reuse: same atom in two statements and in two assignments of one branch, nothing assigned in between
    "a = 0\nb = 1\nc = 0\nd = 0\ne = 0\nwhile true:\n    a = Bernoulli(1/2)\n    b = DiscreteUniform(0, 2)\n    if a + b > c + 1:\n"
    "        d = 1\n        e = b\n    end\n    if a + b > c + 1:\n        e = 0\n    end\n    c = Bernoulli(1/4)\nend\n",
    # boolean structure, an already reduced atom, the same atom under two comparison operators
    "a = 0\nb = 1\nc = 0\nd = 0\nwhile true:\n    a = Bernoulli(1/2)\n    b = Bernoulli(1/3)\n    c = DiscreteUniform(0, 2)\n"
    "    if !(a + b > c) && (a*b == c || a == 1):\n        d = 1\n    elif a + b < c:\n        d = 2\n    else:\n        d = 0\n    end\nend\n",
    # three assignments to x, the middle one guarded; versions in conditions and defaults
    "x = 0\ny = 0\nwhile true:\n    x = Bernoulli(1/2)\n    y = Bernoulli(1/2)\n    if x + y > 1:\n        x = x - y\n        y = x\n    end\n"
    "    x = 1 - x\nend\n",
]


def capture_probe(ctx, lib, which):
    extra_runs(ctx, lib)
    return ctx._flatpass_probes[which]


def extra_runs(ctx, lib):
    """programs that exercise the two passes (the generator of checks/c02.py only compares
    variables with integers): normalised by the real Polar with per-pass snapshots; computed
    once per check run and shared by the pass modules"""
    cached = getattr(ctx, "_flatpass_extra", None)
    if cached is not None:
        return cached
    n = ctx.pick(12, 200)
    texts = list(FIXED)
    n += len(texts)
    while len(texts) < n:
        t = _extra_text(ctx.rng)
        if t not in texts:
            texts.append(t)
    tasks = [{"kind": "analyze", "text": t, "goals": [], "solve": False, "snapshots": True, "opts": {}, "timeout": 60} for t in texts]
    # the two capture probes (tasks_flatpass.py) ride on the same worker pool
    tasks += [{"kind": "capture_probe", "which": w, "timeout": 60} for w in ("ma", "cr")]
    res = lib.run_tasks(tasks, timeout=60)
    ctx._flatpass_probes = dict(zip(("ma", "cr"), res[-2:]))
    res = res[:-2]
    runs, refused = [], {}
    for t, r in zip(texts, res):
        if "error" in r or "exception" in r or not r.get("snapshots"):
            k = r.get("error") or (r.get("exception") or {}).get("etype") or "no-snapshots"
            refused[k] = refused.get(k, 0) + 1
            continue
        runs.append({"text": t, "prog": None, "opts": {}, "parsed": r.get("parsed"), "snapshots": r["snapshots"],
                     "counter_before": r.get("counter_before"), "flat": r.get("flat"), "extra": True})
    ctx._flatpass_extra = (runs, {"generated": n, "accepted": len(runs), "refused": refused})
    return ctx._flatpass_extra


# ---- semantic search on a mismatch: exact moments of the two snapshots (Sem.frun) -----------
def semantic_search(ctx, lib, run, b, a, tag, nmax=2):
    """Polar's snapshots before/after a pass as flat programs; E[m] for monomials m of degree
    <= 2 over the source variables after n = 0..nmax iterations from the zero state, computed
    by the reference semantics inside Coq.  -> (n, monomial text, before, after) of the first
    difference, or None."""
    from fractions import Fraction
    src = None
    if run.get("parsed") and "variables" in run["parsed"]:
        src = [v for v in run["parsed"]["variables"] if not v.startswith("_")]
    if not src:
        src = sorted(v for v in dump_vars(b) if not v.startswith("_"))
    src = src[:5]
    monos = [[(v, 1)] for v in src] + [[(v, 2)] for v in src]
    monos += [[(v, 1), (w, 1)] for i, v in enumerate(src) for w in src[i + 1:]]
    try:
        fb = f"{{| fp_init := {gas_term(b['init'])}; fp_body := {gas_term(b['body'])} |}}"
        fa = f"{{| fp_init := {gas_term(a['init'])}; fp_body := {gas_term(a['body'])} |}}"
    except core.NotModelled:
        return None
    mons = P.lst([P.lst([f'("{v}", {k}%nat)' for v, k in m]) for m in monos])
    ns = list(range(nmax + 1))
    text = (HEADER + f"Definition fb : flatprog := {fb}.\nDefinition fa : flatprog := {fa}.\n"
            f"Definition monos : list mono := {mons}.\n"
            "Eval vm_compute in map (fun n => map (fun m => (qpair (E (frun no_law fb n st0) (eval_mono m)), "
            f"qpair (E (frun no_law fa n st0) (eval_mono m)))) monos) {P.lst([f'{n}%nat' for n in ns])}.\n")
    ok, out = lib.coq_run_many(ctx, [(tag, text)], timeout=150)[tag]
    if not ok:
        return None
    vals = [Fraction(int(m.group(1)), int(m.group(2)))
            for m in re.finditer(r"\(?\(?(-?\d+)\)?%Z\s*,\s*(\d+)%positive", out)]
    if len(vals) != 2 * len(monos) * len(ns):
        return None
    i = 0
    for n in ns:
        for m in monos:
            vb, va = vals[i], vals[i + 1]
            i += 2
            if vb != va:
                return n, "*".join(v if k == 1 else f"{v}**{k}" for v, k in m), str(vb), str(va)
    return None


def report_mismatches(ctx, lib, PASS, mism, model, theorem, where):
    """mism: cases (dicts with run, b, a, res) whose Polar output differs from the model.
    Looks for a semantic failing input among them (reference semantics on Polar's two
    snapshots, at most 8 searches, programs of the extra stream first because they are
    small); reports the first failing input found; if there is none, up to two of the
    mismatches as broken correspondence (no-failing-input-found)."""
    import json
    order = sorted(mism, key=lambda c: (not c["run"].get("extra"), len(c["b"]["body"])))
    found = None
    for k, c in enumerate(order[:8]):
        sem = semantic_search(ctx, lib, c["run"], c["b"], c["a"], f"sem_{PASS}_{k}")
        if sem:
            found = (c, sem)
            break
    if found:
        c, sem = found
        run, b, a = c["run"], c["b"], c["a"]
        ctx.violation(f"pass:{PASS}:{run['text']}:{json.dumps(run['opts'], sort_keys=True)}",
                      {"program_text": run["text"], "options": run["opts"], "pass": PASS, "n": sem[0], "observed": f"E({sem[1]})",
                       "before_pass": sem[2], "after_pass": sem[3],
                       "before_pass_program": [ga_text(x) for x in b["init"]] + ["while true:"] + [ga_text(x) for x in b["body"]],
                       "after_pass_program": [ga_text(x) for x in a["init"]] + ["while true:"] + [ga_text(x) for x in a["body"]]},
                      f"after {PASS} (options {run['opts']}) E({sem[1]}) after {sem[0]} iterations is {sem[3]}, but {sem[2]} before the "
                      f"pass (reference semantics on Polar's two snapshots)\n{run['text']}")
    for c in ([] if found else mism[:2]):
        run, b, a = c["run"], c["b"], c["a"]
        eq, _, d = c["res"]
        allp = where(a)
        what = (f"{PASS}: Polar's output differs from the model {model} "
                + (f"at assignment {d}" if not eq else "outside the rewritten part (initial block / guard changed)")
                + f" (options {run['opts']}); theorem {theorem} no longer covers the code\n{run['text']}")
        ctx.violation(f"model:{PASS}:{run['text']}:{json.dumps(run['opts'], sort_keys=True)}",
                      {"correspondence": f"{model}  vs  {PASS}.execute", "theorem": theorem,
                       "program_text": run["text"], "options": run["opts"], "first_differing_assignment": d,
                       "before_pass": [ga_text(x) for x in where(b)], "after_pass_polar": [ga_text(x) for x in allp],
                       "polar_assignment_at_difference": ga_text(allp[d]) if d < len(allp) else None},
                      what, no_input=True)
