"""Rewrite the seeded-change table of DESIGN.md §11.8 from /verif/seeded/*/meta.json (harness/seeded_report.py)."""
import os
import subprocess
import sys

VERIF = os.path.dirname(os.path.dirname(os.path.abspath(__file__)))
tab = subprocess.run([sys.executable, os.path.join(VERIF, "harness", "seeded_report.py")], stdout=subprocess.PIPE, text=True).stdout
p = os.path.join(VERIF, "DESIGN.md")
s = open(p).read()
b, e = "<!-- seeded-table-begin -->", "<!-- seeded-table-end -->"
i, j = s.index(b), s.index(e)
open(p, "w").write(s[:i + len(b)] + "\n" + tab + s[j:])
