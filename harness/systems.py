"""Generator of linear recurrence systems x(n+1) = A x(n) + c, x(0) = v for C04/C17:
families chosen to cover the Jordan structures the property names."""
from fractions import Fraction

DIAG = ["0", "1", "1/2", "2", "-1", "1/3", "-1/2", "3", "0", "1"]
OFF = ["1", "-1", "2", "1/2", "3", "-2", "1/3"]
INIT = ["0", "1", "2", "3", "5", "7", "-1", "1/2", "-3"]


def fs(x):
    x = Fraction(x)
    return str(x.numerator) if x.denominator == 1 else f"{x.numerator}/{x.denominator}"


def names(k):
    return [f"x{i}" for i in range(k)]


def mat_mul(A, B):
    return [[sum(A[i][k] * B[k][j] for k in range(len(B))) for j in range(len(B[0]))] for i in range(len(A))]


def unimodular(rng, k, ops=4):
    P = [[Fraction(int(i == j)) for j in range(k)] for i in range(k)]
    Pi = [[Fraction(int(i == j)) for j in range(k)] for i in range(k)]
    for _ in range(ops):
        i, j = rng.randrange(k), rng.randrange(k)
        if i == j:
            continue
        c = rng.choice([1, -1, 2])
        # P <- E P with E = I + c e_i e_j^T ; Pi <- Pi E^-1
        for t in range(k):
            P[i][t] += c * P[j][t]
        for t in range(k):
            Pi[t][j] -= c * Pi[t][i]
    return P, Pi


def conj(rng, J):
    k = len(J)
    P, Pi = unimodular(rng, k)
    return mat_mul(mat_mul(P, J), Pi)


def block_diag(blocks):
    k = sum(len(b) for b in blocks)
    M = [[Fraction(0)] * k for _ in range(k)]
    o = 0
    for b in blocks:
        for i in range(len(b)):
            for j in range(len(b)):
                M[o + i][o + j] = Fraction(b[i][j])
        o += len(b)
    return M


def jordan_block(lam, k):
    return [[Fraction(lam) if i == j else Fraction(int(j == i + 1)) for j in range(k)] for i in range(k)]


def companion2(a, b):
    # x^2 = a x + b
    return [[Fraction(a), Fraction(b)], [Fraction(1), Fraction(0)]]


def task(A, v, inhom=None, params=None, points=None):
    k = len(A)
    rows = []
    for i in range(k):
        r = [x if isinstance(x, str) else fs(x) for x in A[i]]
        if inhom is not None:
            r.append(inhom[i] if isinstance(inhom[i], str) else fs(inhom[i]))
        rows.append(r)
    t = {"mons": names(k), "A": rows, "v": [x if isinstance(x, str) else fs(x) for x in v]}
    if params:
        t["params"] = params
        t["points"] = points
    return t


def gen_triangular(rng):
    k = rng.randint(1, 5)
    A = [["0"] * k for _ in range(k)]
    for i in range(k):
        A[i][i] = rng.choice(DIAG)
        for j in range(i):
            if rng.random() < 0.5:
                A[i][j] = rng.choice(OFF)
    perm = list(range(k))
    rng.shuffle(perm)
    B = [[A[perm[i]][perm[j]] for j in range(k)] for i in range(k)]
    inhom = [rng.choice(["0", "1", "2", "-1", "1/2"]) for _ in range(k)] if rng.random() < 0.5 else None
    if inhom is not None and all(x == "0" for x in inhom):
        inhom[0] = "1"
    v = [rng.choice(INIT) for _ in range(k)]
    return task(B, v, inhom)


def gen_delay(rng):
    # shift chain d_0 <- d_1 <- ... <- d_{m-1} <- (0 | const | accumulator), plus accumulators reading the chain
    m = rng.randint(1, 3)
    acc = rng.randint(0, 2)
    k = m + acc
    A = [["0"] * k for _ in range(k)]
    for i in range(m - 1):
        A[i][i + 1] = rng.choice(["1", "2", "-1"])
    for a in range(acc):
        r = m + a
        A[r][r] = rng.choice(["1", "1/2", "2", "-1"])
        A[r][rng.randrange(m)] = rng.choice(OFF)
        if a > 0 and rng.random() < 0.5:
            A[r][m + a - 1] = rng.choice(OFF)
    inhom = None
    if rng.random() < 0.4:
        inhom = ["0"] * k
        inhom[rng.randrange(k)] = rng.choice(["1", "2", "-1"])
    perm = list(range(k))
    rng.shuffle(perm)
    B = [[A[perm[i]][perm[j]] for j in range(k)] for i in range(k)]
    if inhom:
        inhom = [inhom[perm[i]] for i in range(k)]
    v = [rng.choice(INIT[1:]) for _ in range(k)]
    return task(B, v, inhom)


def gen_jordan(rng):
    blocks = []
    size = 0
    while size < rng.randint(2, 5):
        lam = rng.choice([0, 0, 1, 1, 2, -1, Fraction(1, 2), 3, -2])
        b = rng.randint(1, 3)
        blocks.append(jordan_block(lam, b))
        size += b
    J = block_diag(blocks)
    A = conj(rng, J)
    v = [rng.choice(INIT) for _ in range(len(A))]
    if all(x == "0" for x in v):
        v[0] = "1"
    return task(A, v)


def gen_quadratic(rng):
    a, b = rng.choice([(1, 1), (0, -1), (2, 1), (0, 2), (1, -1), (2, -2), (0, -2), (3, -1), (1, Fraction(1, 4)), (-1, -1)])
    blocks = [companion2(a, b)]
    if rng.random() < 0.6:
        blocks.append(jordan_block(rng.choice([0, 1, 2, Fraction(1, 2)]), rng.randint(1, 2)))
    J = block_diag(blocks)
    A = conj(rng, J) if rng.random() < 0.7 else J
    v = [rng.choice(INIT) for _ in range(len(A))]
    if all(x == "0" for x in v):
        v[0] = "1"
    return task(A, v)


def gen_random(rng):
    k = rng.randint(2, 4)
    A = [[rng.choice(["0", "0", "0", "1", "-1", "2", "1/2"]) for _ in range(k)] for _ in range(k)]
    v = [rng.choice(INIT) for _ in range(k)]
    inhom = [rng.choice(["0", "1"]) for _ in range(k)] if rng.random() < 0.3 else None
    if inhom is not None and all(x == "0" for x in inhom):
        inhom = None
    return task(A, v, inhom)


def gen_param(rng):
    k = rng.randint(1, 3)
    A = [["0"] * k for _ in range(k)]
    for i in range(k):
        A[i][i] = rng.choice(["p", "1-p", "1", "1/2", "0", "p*q", "2*p"])
        for j in range(i):
            if rng.random() < 0.6:
                A[i][j] = rng.choice(["p", "1", "q", "1-p", "2"])
    inhom = [rng.choice(["0", "p", "1", "q"]) for _ in range(k)] if rng.random() < 0.5 else None
    if inhom is not None and all(x == "0" for x in inhom):
        inhom[0] = "p"
    v = [rng.choice(["0", "1", "a", "2", "p"]) for _ in range(k)]
    pts = []
    for _ in range(2):
        pts.append({"p": rng.choice(["1/3", "1/4", "2/5", "3/4", "2"]), "q": rng.choice(["1/2", "3", "-1/3", "1/5"]),
                    "a": rng.choice(["3", "-2", "1/7"])})
    return task(A, v, inhom, params=["p", "q", "a"], points=pts)


FAMILIES = [("triangular", gen_triangular, 3), ("delay", gen_delay, 3), ("jordan", gen_jordan, 2),
            ("quadratic", gen_quadratic, 2), ("random", gen_random, 1), ("param", gen_param, 1)]

FIXED = [
    # hand-written corner cases: delay lines (C04 suspects), eigenvalue 1 with inhomogeneity, repeated roots
    ("fixed", task([[0, 1], [0, 0]], [5, 7])),
    ("fixed", task([[1, 1, 0], [0, 0, 1], [0, 0, 0]], [1, 2, 5])),
    ("fixed", task([[0, 1, 1, 0, 0], [1, 0, 0, 0, 0], [0, 0, 0, 1, 0], [0, 0, 0, 0, 1], [0, 0, 0, 0, 0]], [1, 2, 3, 5, 7])),
    ("fixed", task([[1, 1], [0, 1]], [0, 1], ["1", "0"])),
    ("fixed", task([[2, 1, 0], [0, 2, 1], [0, 0, 2]], [1, 1, 1])),
    ("fixed", task([[1, 1], [1, 0]], [1, 0])),
    ("fixed", task([[0, -1], [1, 0]], [1, 0])),
    ("fixed", task([["1/2"]], [6], ["1"])),
    ("fixed", task([[0]], [3], ["2"])),
    ("fixed", task([[0, 0], [1, 1]], [4, 1], ["3", "0"])),
    # delay chains whose general solution coincides with an EARLY transient value but not with a later one
    # (x = 5, 7, 2, 7, 7, ...): every transient up to the last differing one is a special case
    ("fixed", task([[0, 1, 0], [0, 0, 1], [0, 0, 0]], [5, 7, 2], ["0", "0", "7"])),
    ("fixed", task([[0, 1, 0, 0], [0, 0, 1, 0], [0, 0, 0, 1], [0, 0, 0, 1]], [1, 7, 3, 7])),
    ("fixed", task([[0, 1, 0, 0], [0, 0, 1, 0], [0, 0, 0, 1], [0, 0, 0, 0]], [0, 4, 0, 9], ["0", "0", "0", "0"])),
]


# symbolic coefficients with a REPEATED eigenvalue whose characteristic polynomial is not a pure power of one linear factor:
# (l**2 - a)**2, (l - p)**2 (l - 1), (l - p)**2 (l + p)
_PTS = [{"a": "4", "p": "1/3", "q": "1/2"}, {"a": "9/4", "p": "3/4", "q": "-1/3"}]
FIXED_PARAM = [
    ("fixed-param", task([["0", "a", "0", "0"], ["1", "0", "0", "0"], ["1", "0", "0", "a"], ["0", "0", "1", "0"]], ["1", "0", "0", "1"],
                         params=["a", "p", "q"], points=_PTS)),
    ("fixed-param", task([["p", "1", "0"], ["0", "p", "1"], ["0", "0", "1"]], ["1", "2", "1"], params=["a", "p", "q"], points=_PTS)),
    ("fixed-param", task([["0", "p", "1"], ["p", "0", "0"], ["0", "0", "p"]], ["1", "0", "2"], params=["a", "p", "q"], points=_PTS)),
]


def generate(rng, count):
    out = [{"family": f, "task": t} for f, t in FIXED + FIXED_PARAM]
    weights = [w for _, _, w in FAMILIES]
    while len(out) < count:
        name, fn, _ = rng.choices(FAMILIES, weights=weights)[0]
        out.append({"family": name, "task": fn(rng)})
    return out
